"""helpers for C17.

Two small engines, both purely syntactic:

* ``Lang``: the regular language of a *folded* pattern as a complete DFA over
  the alphabet {ASCII 0..127, "some non-ASCII character"}; boolean algebra,
  emptiness and shortest witnesses.  Used to decide what the q pattern of
  ``parse_accept_header`` can let through to ``float``.
* ``FuncEval`` / ``explore``: demand-driven evaluation of branch conditions of
  one function at *sample points* (the values of a few names are fixed by a
  scenario, everything else is looked up through reaching definitions and is
  "unknown" when it cannot be computed); reachability on the CFG where an
  unknown condition keeps both edges.  Exact for conditions that are order
  comparisons between the scenario's quantities, an over-approximation of the
  feasible paths otherwise - so "cannot reach" / "cannot bypass" answers are
  sound.  Nothing of werkzeug is imported or run: the evaluator walks ``ast``
  nodes of /repo's source.  Lookups are path sensitive: a name bound on
  several branches (a flag) takes the value of the bindings that are live on
  the paths the scenario permits (``live_defs``); ``normalised`` rewrites
  statement-level conditional expressions into if statements first;
  ``concrete`` follows one run statement by statement over an environment.
"""

from __future__ import annotations

import ast
import itertools
import re
import typing as t
from collections import deque

try:  # Python 3.11+
    import re._constants as sre_c  # type: ignore
    import re._parser as sre_parse  # type: ignore
except ImportError:  # pragma: no cover
    import sre_constants as sre_c  # type: ignore
    import sre_parse  # type: ignore

from ..cfg import CFG, Node, cfg_of
from ..dataflow import Def, ReachingDefs
from ..fold import Folder, RegexConst, Unfoldable, class_of_items
from ..loader import AnalysisError, FuncInfo, Repo, dotted

# ---------------------------------------------------------------------
# regular languages

NONASCII = 128  # one symbol standing for "a character >= U+0080"
NSYM = 129
_ALL = frozenset(range(NSYM))
_NONASCII_SHOWN = "٣"  # ARABIC-INDIC DIGIT THREE: what an un-flagged \d additionally admits

# order in which symbols are tried when a shortest witness is built (readable witnesses first)
_PREF = [ord(c) for c in "1023456789.-+eE_ xXabnNiI"]
_PREF += [c for c in range(33, 127) if c not in _PREF]
_PREF += [c for c in range(NSYM) if c not in _PREF]


class _NFA:
    def __init__(self) -> None:
        self.trans: list[list[tuple[frozenset[int], int]]] = []
        self.eps: list[set[int]] = []

    def new(self) -> int:
        self.trans.append([])
        self.eps.append(set())
        return len(self.trans) - 1


def _lit(c: int, flags: int) -> frozenset[int]:
    out = {c if c < 128 else NONASCII}
    if flags & re.I and c < 128:
        ch = chr(c)
        out |= {ord(ch.lower()), ord(ch.upper())}
        if ch.isalpha() and not flags & re.A:
            out.add(NONASCII)  # e.g. KELVIN SIGN, LONG S
    return frozenset(out)


def _in_class(items, flags: int) -> frozenset[int]:
    asc = class_of_items(items, flags, False, 128)
    neg = any(op is sre_c.NEGATE for op, _ in items)
    some = False  # the positive items contain some non-ASCII character
    whole = False  # the positive items contain every non-ASCII character
    for op, av in items:
        if op is sre_c.LITERAL and av >= 128:
            some = True
        elif op is sre_c.RANGE and av[1] >= 128:
            some = True
        elif op is sre_c.CATEGORY:
            if "NOT_" in str(av):
                some = True
                whole = whole or bool(flags & re.A)
            elif not flags & re.A:
                some = True
    if flags & re.I and not flags & re.A and any(chr(c).isalpha() for c in asc):
        some = True
    non = (not whole) if neg else some
    return frozenset(asc | ({NONASCII} if non else set()))


def _build(nfa: _NFA, seq, s: int, flags: int) -> int:
    for op, av in seq:
        s = _build_node(nfa, op, av, s, flags)
    return s


def _build_node(nfa: _NFA, op, av, s: int, flags: int) -> int:
    if op is sre_c.LITERAL:
        e = nfa.new()
        nfa.trans[s].append((_lit(av, flags), e))
        return e
    if op is sre_c.NOT_LITERAL:
        e = nfa.new()
        nfa.trans[s].append((frozenset(_ALL - _lit(av, flags)) | {NONASCII}, e))
        return e
    if op is sre_c.ANY:
        e = nfa.new()
        nfa.trans[s].append((_ALL if flags & re.S else frozenset(_ALL - {10}), e))
        return e
    if op is sre_c.IN:
        e = nfa.new()
        nfa.trans[s].append((_in_class(av, flags), e))
        return e
    if op in (sre_c.MAX_REPEAT, sre_c.MIN_REPEAT):
        lo, hi, sub = av
        unbounded = hi is sre_c.MAXREPEAT
        if lo > 64 or (not unbounded and hi > 64):
            raise Unfoldable(f"repeat {{{lo},{hi}}} too large for the automaton")
        for _ in range(lo):
            s = _build(nfa, sub, s, flags)
        if unbounded:
            a = nfa.new()
            nfa.eps[s].add(a)
            b = _build(nfa, sub, a, flags)
            nfa.eps[b].add(a)
            return a
        end = nfa.new()
        nfa.eps[s].add(end)
        cur = s
        for _ in range(int(hi) - lo):
            cur = _build(nfa, sub, cur, flags)
            nfa.eps[cur].add(end)
        return end
    if op is sre_c.SUBPATTERN:
        _group, add_flags, del_flags, p = av
        if add_flags or del_flags:
            raise Unfoldable("inline flag group")
        return _build(nfa, p, s, flags)
    if op is sre_c.BRANCH:
        end = nfa.new()
        for alt in av[1]:
            a = nfa.new()
            nfa.eps[s].add(a)
            nfa.eps[_build(nfa, alt, a, flags)].add(end)
        return end
    # anchors, look-around, back-references, atomic / possessive constructs change the language in ways
    # this automaton does not model
    raise Unfoldable(f"regex construct {op} is outside the modelled subset")


class Lang:
    """complete DFA, start state 0."""

    def __init__(self, trans: list[list[int]], accept: list[bool]):
        self.trans = trans
        self.accept = accept

    # -- construction ---------------------------------------------------
    @classmethod
    def from_regex(cls, rx: RegexConst, mode: str = "fullmatch") -> "Lang":
        if isinstance(rx.pattern, bytes):
            raise Unfoldable("bytes pattern")
        parsed = sre_parse.parse(rx.pattern, rx.flags)
        flags = int(parsed.state.flags)  # includes global inline flags
        if flags & re.L:
            raise Unfoldable("locale-dependent pattern")
        nfa = _NFA()
        start = nfa.new()
        s = start
        if mode == "search":
            nfa.trans[s].append((_ALL, s))
        elif mode not in ("fullmatch", "match"):
            raise Unfoldable(f"match mode {mode}")
        end = _build(nfa, parsed, s, flags)
        if mode in ("match", "search"):
            nfa.trans[end].append((_ALL, end))
        return cls._determinize(nfa, start, end)

    @classmethod
    def from_pattern(cls, pattern: str, flags: int = re.A) -> "Lang":
        return cls.from_regex(RegexConst(pattern, flags))

    @classmethod
    def _determinize(cls, nfa: _NFA, start: int, final: int) -> "Lang":
        def closure(states: t.Iterable[int]) -> frozenset[int]:
            seen = set(states)
            stack = list(seen)
            while stack:
                q = stack.pop()
                for r in nfa.eps[q]:
                    if r not in seen:
                        seen.add(r)
                        stack.append(r)
            return frozenset(seen)

        s0 = closure([start])
        index = {s0: 0}
        order = [s0]
        trans: list[list[int]] = []
        i = 0
        while i < len(order):
            S = order[i]
            i += 1
            mv: list[set[int]] = [set() for _ in range(NSYM)]
            for q in S:
                for syms, tgt in nfa.trans[q]:
                    for a in syms:
                        mv[a].add(tgt)
            row = []
            cache: dict[frozenset[int], int] = {}
            for a in range(NSYM):
                key = frozenset(mv[a])
                if key in cache:
                    row.append(cache[key])
                    continue
                T = closure(key)
                if T not in index:
                    index[T] = len(order)
                    order.append(T)
                    if len(order) > 5000:
                        raise Unfoldable("automaton too large")
                cache[key] = index[T]
                row.append(index[T])
            trans.append(row)
        return cls(trans, [final in S for S in order])

    # -- algebra -----------------------------------------------------------
    def _combine(self, other: "Lang", f: t.Callable[[bool, bool], bool]) -> "Lang":
        index = {(0, 0): 0}
        order = [(0, 0)]
        trans: list[list[int]] = []
        i = 0
        while i < len(order):
            a, b = order[i]
            i += 1
            row = []
            ra, rb = self.trans[a], other.trans[b]
            for s in range(NSYM):
                k = (ra[s], rb[s])
                j = index.get(k)
                if j is None:
                    j = index[k] = len(order)
                    order.append(k)
                row.append(j)
            trans.append(row)
        return Lang(trans, [f(self.accept[a], other.accept[b]) for a, b in order])

    def __and__(self, other: "Lang") -> "Lang":
        return self._combine(other, lambda x, y: x and y)

    def __or__(self, other: "Lang") -> "Lang":
        return self._combine(other, lambda x, y: x or y)

    def __sub__(self, other: "Lang") -> "Lang":
        return self._combine(other, lambda x, y: x and not y)

    def witness(self) -> str | None:
        """a shortest member, None when the language is empty."""
        prev: dict[int, tuple[int, int] | None] = {0: None}
        q = deque([0])
        while q:
            s = q.popleft()
            if self.accept[s]:
                out = []
                cur = s
                while prev[cur] is not None:
                    p, a = prev[cur]  # type: ignore[misc]
                    out.append(chr(a) if a < 128 else _NONASCII_SHOWN)
                    cur = p
                return "".join(reversed(out))
            row = self.trans[s]
            for a in _PREF:
                nx = row[a]
                if nx not in prev:
                    prev[nx] = (s, a)
                    q.append(nx)
        return None

    def empty(self) -> bool:
        return self.witness() is None

    def contains(self, s: str) -> bool:
        st = 0
        for ch in s:
            c = ord(ch)
            st = self.trans[st][c if c < 128 else NONASCII]
        return self.accept[st]


def crosscheck(rx: RegexConst, mode: str, lang: Lang, alphabet: str, maxlen: int) -> str | None:
    """first string over ``alphabet`` (length <= maxlen) on which the automaton and the ``re`` engine, run on the
    folded pattern, disagree - guards the automaton construction itself."""
    c = re.compile(rx.pattern, rx.flags)
    fn = {"fullmatch": c.fullmatch, "match": c.match, "search": c.search}[mode]
    for n in range(maxlen + 1):
        for tup in itertools.product(alphabet, repeat=n):
            s = "".join(tup)
            if bool(fn(s)) != lang.contains(s):
                return s
    return None


# ---------------------------------------------------------------------
# three-valued evaluation at sample points


class _Unknown:
    def __repr__(self) -> str:
        return "<unknown>"

    def __bool__(self) -> bool:  # pragma: no cover - misuse guard
        raise AssertionError("truth value of UNK used")


UNK = _Unknown()

_STR_METHODS = {"lower", "upper", "strip", "lstrip", "rstrip", "split", "rsplit", "startswith", "endswith", "replace", "casefold", "title", "partition", "rpartition", "join"}
_SEQ_METHODS = {"index", "count"}
_BUILTINS: dict[str, t.Callable[..., t.Any]] = {
    "sorted": sorted, "tuple": tuple, "list": list, "len": len, "set": set, "frozenset": frozenset, "min": min, "max": max,
    "bool": bool, "any": any, "all": all, "str": str, "int": int, "float": float, "reversed": lambda x: list(reversed(x)), "abs": abs,
    "next": lambda it, *default: _next(it, *default), "iter": lambda x: list(x),
    "range": lambda *a: list(range(*a)) if all(isinstance(x, int) and abs(x) <= 1000 for x in a) else UNK,
    "enumerate": lambda it, start=0: [(i, x) for i, x in enumerate(list(it), start)], "zip": lambda *its: [tuple(x) for x in zip(*[list(i) for i in its])],
    "dict": lambda *a: dict(*a), "sum": sum, "round": round,
}


_PLAIN = (int, float, str, tuple, list)
_BINOPS: dict[type, t.Callable[[t.Any, t.Any], t.Any]] = {
    ast.Add: lambda a, b: a + b, ast.Sub: lambda a, b: a - b, ast.Mult: lambda a, b: a * b if not (isinstance(a, (str, tuple, list)) or isinstance(b, (str, tuple, list))) or (isinstance(a, int) and a < 64) or (isinstance(b, int) and b < 64) else UNK,
    ast.FloorDiv: lambda a, b: a // b, ast.Mod: lambda a, b: a % b if not isinstance(a, str) else UNK,
    ast.BitOr: lambda a, b: a | b if isinstance(a, int) and isinstance(b, int) else UNK, ast.BitAnd: lambda a, b: a & b if isinstance(a, int) and isinstance(b, int) else UNK,
    ast.BitXor: lambda a, b: a ^ b if isinstance(a, int) and isinstance(b, int) else UNK,
    ast.Pow: lambda a, b: a ** b if isinstance(a, int) and isinstance(b, int) and abs(a) <= 64 and 0 <= b <= 64 else UNK,
    ast.LShift: lambda a, b: a << b if isinstance(a, int) and isinstance(b, int) and 0 <= b <= 64 else UNK,
    ast.RShift: lambda a, b: a >> b if isinstance(a, int) and isinstance(b, int) and 0 <= b <= 64 else UNK,
}


def _next(items: t.Any, *default: t.Any) -> t.Any:
    """next() over an iterable that the evaluator has materialised as a list."""
    items = list(items)
    if items:
        return items[0]
    if default:
        return default[0]
    raise ValueError("StopIteration")


def _known(*vs: t.Any) -> bool:
    return all(v is not UNK for v in vs)


class _Lam:
    """value of a lambda expression (its body is evaluated at the call, free names looked up there)."""

    def __init__(self, node: ast.Lambda):
        self.node = node

    def __repr__(self) -> str:
        return "<lambda>"


class _Fn:
    """value of a nested ``def``, or (``fi`` given) of a reference to a function of the analysed module / a method of the
    analysed class that nothing overrides (``bound``: `self.<name>`); applied by FuncEval on known arguments."""

    def __init__(self, node: ast.AST, fi: t.Any = None, bound: bool = False):
        self.node = node
        self.fi = fi
        self.bound = bound

    def __repr__(self) -> str:
        return f"<def {getattr(self.node, 'name', '?')}>"


class _SelfAttr:
    """the value of `self.<attr>` where attr is a method of the analysed class: calling it is the call `self.<attr>(...)`
    (so a scenario's hook answers a call made through a local alias - `spec = self._specificity` - like the direct one);
    ``fn``: the function itself when no subclass overrides it (usable as a key / map function), else None."""

    def __init__(self, attr: str, fn: t.Any = None):
        self.attr, self.fn = attr, fn

    def __repr__(self) -> str:
        return f"<self.{self.attr}>"


def _is_self(e: ast.AST) -> bool:
    return isinstance(e, ast.Name) and e.id == "self"


def _simple_params(a: ast.arguments) -> list[str] | None:
    if a.vararg or a.kwarg or a.kwonlyargs or a.defaults or a.kw_defaults:
        return None
    return [x.arg for x in a.posonlyargs + a.args]


class _Stuck(Exception):
    pass


class Raised(BaseException):
    """raised by a scenario's call hook: in this scenario the call raises the exception named ``exc`` (a builtin
    exception class).  :meth:`FuncEval.concrete` takes it to the handler of an enclosing ``try`` that covers it
    (builtin exception hierarchy), through the functions it follows; where nothing catches it, it propagates to whoever
    started the run.  (BaseException: the evaluator's own `except Exception` clauses must not swallow it.)"""

    def __init__(self, exc: str):
        super().__init__(exc)
        self.exc = exc


_PROPAGATES = object()  # FuncEval._exc_target: no construct of the function catches the exception


class Obj:
    """a record a scenario's call hook returns (e.g. what codecs.lookup finds): attribute reads are served from it."""

    def __init__(self, **attrs: t.Any):
        self.attrs = attrs

    def __repr__(self) -> str:
        return f"<record {self.attrs}>"


def handler_covers(typ: ast.AST | None, exc: str) -> bool | None:
    """does `except <typ>` catch the builtin exception ``exc``?  None when a class named is not a builtin exception."""
    import builtins

    if typ is None:
        return True
    eb = getattr(builtins, exc, None)
    if not (isinstance(eb, type) and issubclass(eb, BaseException)):
        return None
    unknown = False
    for x in typ.elts if isinstance(typ, ast.Tuple) else [typ]:
        nm = (dotted(x) or "").rsplit(".", 1)[-1]
        hb = getattr(builtins, nm, None)
        if not (isinstance(hb, type) and issubclass(hb, BaseException)):
            unknown = True
        elif issubclass(eb, hb):
            return True
    return None if unknown else False


def astq_is_none(e: ast.AST) -> bool:
    return isinstance(e, ast.Constant) and e.value is None


class Ev:
    """expression evaluator; ``lookup(Name)`` supplies values of free names, ``call_hook(call, ev, env)`` may
    interpret a call (return NotImplemented to decline)."""

    def __init__(self, lookup: t.Callable[[ast.Name], t.Any], call_hook: t.Callable[[ast.Call, "Ev", dict], t.Any] | None = None):
        self.lookup = lookup
        self.call_hook = call_hook
        self.node: Node | None = None  # CFG node the expression belongs to (set by FuncEval)
        self.apply_fn: t.Callable[[t.Any, list, "Ev", dict], t.Any] | None = None  # applies a nested def (set by FuncEval)
        self.func_ref: t.Callable[[ast.AST, "Ev", dict], t.Any] | None = None  # `helper` / `self.method` as a value (set by FuncEval)
        self.mutating = False  # statement-by-statement run over one environment of local objects (FuncEval.concrete)
        self.named: t.Callable[[ast.NamedExpr], t.Any] | None = None  # value of a walrus the scenario fixes (set by FuncEval)

    # -- values ------------------------------------------------------------
    def val(self, e: ast.AST | None, env: dict[str, t.Any] | None = None) -> t.Any:
        if env is None:
            env = {}
        if e is None:
            return None
        if isinstance(e, ast.Constant):
            return e.value
        if isinstance(e, ast.Name):
            if e.id in env:
                return env[e.id]
            return self.lookup(e)
        if isinstance(e, (ast.Tuple, ast.List)):
            vs = []
            for x in e.elts:
                if isinstance(x, ast.Starred):
                    return UNK
                vs.append(self.val(x, env))
            if not _known(*vs):
                return UNK
            return tuple(vs) if isinstance(e, ast.Tuple) else vs
        if isinstance(e, ast.UnaryOp):
            if isinstance(e.op, ast.Not):
                tr = self.truth(e.operand, env)
                return UNK if tr is UNK else (not tr)
            v = self.val(e.operand, env)
            if v is UNK or isinstance(v, bool) or not isinstance(v, (int, float)):
                return UNK
            if isinstance(e.op, ast.USub):
                return -v
            if isinstance(e.op, ast.UAdd):
                return +v
            return UNK
        if isinstance(e, ast.BinOp):
            a, b = self.val(e.left, env), self.val(e.right, env)
            fn = _BINOPS.get(type(e.op))
            if a is UNK or b is UNK or fn is None or not isinstance(a, _PLAIN) or not isinstance(b, _PLAIN):
                return UNK
            try:
                return fn(a, b)
            except Exception:
                return UNK
        if isinstance(e, ast.BoolOp):
            # operands in order; a known operand that decides the result ends the evaluation (the later operands are not
            # executed: a scenario's hook must not see their calls)
            last: t.Any = UNK
            for x in e.values:
                last = self.val(x, env)
                if last is UNK:
                    break
                try:
                    tv = bool(last)
                except Exception:
                    last = UNK
                    break
                if tv != isinstance(e.op, ast.And):
                    return last
            if last is not UNK:
                return last
            return self.truth(e, env)
        if isinstance(e, ast.Compare):
            return self._compare(e, env)
        if isinstance(e, ast.Subscript):
            v = self.val(e.value, env)
            if v is UNK:
                return UNK
            try:
                if isinstance(e.slice, ast.Slice):
                    lo, hi, st = (self.val(x, env) for x in (e.slice.lower, e.slice.upper, e.slice.step))
                    if not _known(lo, hi, st):
                        return UNK
                    return v[lo:hi:st]
                i = self.val(e.slice, env)
                if i is UNK:
                    return UNK
                return v[i]
            except (TypeError, IndexError, KeyError):
                return UNK
        if isinstance(e, ast.IfExp):
            tr = self.truth(e.test, env)
            if tr is UNK:
                return UNK
            return self.val(e.body if tr else e.orelse, env)
        if isinstance(e, ast.Lambda):
            return _Lam(e)
        if isinstance(e, ast.Attribute) and isinstance(e.value, (ast.Call, ast.Name, ast.Subscript)):
            v = self.val(e.value, env)
            if isinstance(v, Obj) and e.attr in v.attrs:
                return v.attrs[e.attr]
            if isinstance(v, tuple) and e.attr in getattr(type(v), "_fields", ()):
                return getattr(v, e.attr)  # field of a NamedTuple record built from the source's class statement
            if self.func_ref is not None and isinstance(e.value, (ast.Name, ast.Call)):
                r = self.func_ref(e, self, env)  # `self.method` / `type(self).helper` read as a value (bound to a local name)
                if isinstance(r, (_Fn, _SelfAttr)):
                    return r
            return UNK
        if isinstance(e, ast.Attribute) and self.func_ref is not None and isinstance(e.value, ast.Attribute) and e.value.attr == "__class__":
            r = self.func_ref(e, self, env)  # `self.__class__.helper`
            return r if isinstance(r, _Fn) else UNK
        if isinstance(e, ast.NamedExpr):
            r = self.named(e) if self.named is not None else NotImplemented
            if r is NotImplemented:
                r = self.val(e.value, env)
            if env or self.mutating:
                env[e.target.id] = r  # visible to the rest of the comprehension / statement being evaluated
            return r
        if isinstance(e, ast.Call):
            if self.call_hook is not None:
                r = self.call_hook(e, self, env)
                if r is not NotImplemented:
                    return r
            return self._call(e, env)
        if isinstance(e, (ast.GeneratorExp, ast.ListComp, ast.SetComp)):
            out: list[t.Any] = []
            if not self._comp(e, 0, dict(env), out):
                return UNK
            return set(out) if isinstance(e, ast.SetComp) else out
        if isinstance(e, ast.DictComp):
            pairs: list[t.Any] = []
            shim = ast.ListComp(elt=ast.Tuple(elts=[e.key, e.value], ctx=ast.Load()), generators=e.generators)
            if not self._comp(shim, 0, dict(env), pairs):
                return UNK
            try:
                return dict(pairs)
            except TypeError:
                return UNK
        if isinstance(e, ast.Dict):
            if any(k is None for k in e.keys):
                return UNK
            ks = [self.val(k, env) for k in e.keys]
            vs = [self.val(v, env) for v in e.values]
            if not _known(*ks, *vs):
                return UNK
            try:
                return dict(zip(ks, vs))
            except TypeError:
                return UNK
        return UNK

    def _comp(self, e, i: int, env: dict[str, t.Any], out: list[t.Any]) -> bool:
        if i == len(e.generators):
            v = self.val(e.elt, env)
            if v is UNK:
                return False
            out.append(v)
            return True
        g = e.generators[i]
        it = self.val(g.iter, env)
        if it is UNK or g.is_async:
            return False
        try:
            items = list(it)
        except TypeError:
            return False
        for item in items:
            e2 = dict(env)
            if not _bind(g.target, item, e2):
                return False
            keep = True
            for c in g.ifs:
                tr = self.truth(c, e2)
                if tr is UNK:
                    return False
                keep = keep and tr
            if keep and not self._comp(e, i + 1, e2, out):
                return False
        return True

    def apply(self, fn: t.Any, args: list[t.Any], env: dict[str, t.Any]) -> t.Any:
        """call a callable value on known arguments."""
        if isinstance(fn, _Lam):
            names = _simple_params(fn.node.args)
            if names is None or len(names) != len(args):
                return UNK
            return self.val(fn.node.body, {**env, **dict(zip(names, args))})
        if isinstance(fn, _Fn) and self.apply_fn is not None:
            return self.apply_fn(fn, args, self, env)
        return UNK

    def _callable(self, e: ast.AST, env: dict[str, t.Any]) -> t.Any:
        """the callable value an expression denotes, or None."""
        if isinstance(e, ast.Attribute) and isinstance(e.value, ast.Name) and e.value.id == "str" and "str" not in env and e.attr in _STR_METHODS and self.lookup(e.value) is UNK:
            return _Lam(ast.parse(f"lambda _x: _x.{e.attr}()", mode="eval").body)  # type: ignore[arg-type]  # `str.lower` as a function of one string
        v = self.val(e, env) if isinstance(e, (ast.Name, ast.Lambda, ast.Call)) else UNK
        if not isinstance(v, (_Lam, _Fn, _SelfAttr)) and self.func_ref is not None and not (isinstance(e, ast.Name) and e.id in env):
            v = self.func_ref(e, self, env)
        if isinstance(v, _SelfAttr):
            v = v.fn
        return v if isinstance(v, (_Lam, _Fn)) else None

    def _call(self, e: ast.Call, env: dict[str, t.Any]) -> t.Any:
        if any(isinstance(a, ast.Starred) for a in e.args) or any(k.arg is None for k in e.keywords):
            return UNK
        f = e.func
        if e.keywords:
            # keyword arguments of a few well-known calls: sorted / max / min (key, reverse, default), str and pattern methods
            kw = {k.arg: k.value for k in e.keywords}
            args = [self.val(a, env) for a in e.args]
            if not _known(*args):
                return UNK
            try:
                if isinstance(f, ast.Name) and f.id in ("sorted", "max", "min") and f.id not in env and self.lookup(f) is UNK and set(kw) <= {"key", "reverse", "default"}:
                    extra: dict[str, t.Any] = {}
                    if "key" in kw:
                        fn = self._callable(kw["key"], env)
                        if fn is None:
                            return UNK
                        def key(x: t.Any, fn: t.Any = fn) -> t.Any:
                            r = self.apply(fn, [x], env)
                            if r is UNK:
                                raise _Stuck()
                            return r

                        extra["key"] = key
                    for nm in ("reverse", "default"):
                        if nm in kw:
                            extra[nm] = self.val(kw[nm], env)
                            if extra[nm] is UNK:
                                return UNK
                    if f.id == "sorted":
                        extra.pop("default", None)
                    else:
                        extra.pop("reverse", None)
                    return {"sorted": sorted, "max": max, "min": min}[f.id](*args, **extra)
                if isinstance(f, ast.Attribute):
                    recv = self.val(f.value, env)
                    kws = {k: self.val(v, env) for k, v in kw.items()}
                    if recv is UNK or not _known(*kws.values()):
                        return UNK
                    if isinstance(recv, RegexConst) and f.attr == "split" and set(kws) <= {"maxsplit"}:
                        return re.compile(recv.pattern, recv.flags).split(*args, **kws)
                    if isinstance(recv, str) and f.attr in ("split", "rsplit") and set(kws) <= {"sep", "maxsplit"}:
                        return getattr(recv, f.attr)(*args, **kws)
            except (_Stuck, TypeError, ValueError):
                return UNK
            return UNK
        if isinstance(f, ast.Name):
            fn = self._callable(f, env)
            if fn is not None:
                args = [self.val(a, env) for a in e.args]
                return self.apply(fn, args, env) if _known(*args) else UNK
        if isinstance(f, ast.Attribute):
            recv = self.val(f.value, env)
            if recv is UNK:
                return UNK
            args = [self.val(a, env) for a in e.args]
            if not _known(*args):
                return UNK
            try:
                if isinstance(recv, RegexConst):
                    # the re engine on a pattern folded from the source and a sample constant
                    c = re.compile(recv.pattern, recv.flags)
                    if f.attr == "split":
                        return c.split(*args)
                    if f.attr in ("fullmatch", "match", "search"):
                        return True if getattr(c, f.attr)(*args) else None
                    return UNK
                if isinstance(recv, str) and f.attr in _STR_METHODS:
                    return getattr(recv, f.attr)(*args)
                if isinstance(recv, (list, tuple)) and f.attr in _SEQ_METHODS:
                    return getattr(recv, f.attr)(*args)
                if self.mutating and isinstance(recv, (list, dict)) and f.attr == "pop" and isinstance(f.value, ast.Name) and env.get(f.value.id) is recv:
                    return recv.pop(*args)  # statement-by-statement run: the local object itself is updated
                if isinstance(recv, dict) and f.attr in ("get", "keys", "values", "items"):
                    r = getattr(recv, f.attr)(*args)
                    return r if f.attr == "get" else list(r)
            except (TypeError, ValueError):
                return UNK
            return UNK
        if isinstance(f, ast.Name) and f.id in ("map", "filter") and f.id not in env and self.lookup(f) is UNK and len(e.args) == 2:
            fn = self._callable(e.args[0], env)
            items = self.val(e.args[1], env)
            if items is UNK or (fn is None and not (f.id == "filter" and astq_is_none(e.args[0]))):
                return UNK
            try:
                out = []
                for x in list(items):
                    r = x if fn is None else self.apply(fn, [x], env)
                    if r is UNK:
                        return UNK
                    if f.id == "map":
                        out.append(r)
                    elif r:
                        out.append(x)
                return out
            except TypeError:
                return UNK
        if isinstance(f, ast.Name) and f.id in _BUILTINS and f.id not in env:
            if self.lookup(f) is not UNK:  # shadowed by something we can see
                return UNK
            args = [self.val(a, env) for a in e.args]
            if not _known(*args):
                return UNK
            try:
                return _BUILTINS[f.id](*args)
            except (TypeError, ValueError):
                return UNK
        return UNK

    def _compare(self, e: ast.Compare, env: dict[str, t.Any]) -> t.Any:
        left = self.val(e.left, env)
        unk = False
        for op, c in zip(e.ops, e.comparators):
            right = self.val(c, env)
            if left is UNK or right is UNK:
                unk = True
            else:
                try:
                    r = _cmp(op, left, right)
                except TypeError:
                    r = UNK
                if r is UNK:
                    unk = True
                elif not r:
                    return False
            left = right
        return UNK if unk else True

    # -- truthiness ---------------------------------------------------------
    def truth(self, e: ast.AST, env: dict[str, t.Any] | None = None) -> t.Any:
        if env is None:
            env = {}
        if isinstance(e, ast.BoolOp):
            decides = not isinstance(e.op, ast.And)  # the truth value that ends the evaluation
            res: t.Any = not decides
            for x in e.values:
                tr = self.truth(x, env)
                if tr is decides:
                    return decides
                if tr is UNK:
                    res = UNK
            return res
        if isinstance(e, ast.UnaryOp) and isinstance(e.op, ast.Not):
            tr = self.truth(e.operand, env)
            return UNK if tr is UNK else (not tr)
        v = self.val(e, env)
        if v is UNK:
            return UNK
        try:
            return bool(v)
        except Exception:
            return UNK


def _cmp(op: ast.cmpop, a: t.Any, b: t.Any) -> t.Any:
    if isinstance(op, ast.Eq):
        return a == b
    if isinstance(op, ast.NotEq):
        return a != b
    if isinstance(op, ast.Lt):
        return a < b
    if isinstance(op, ast.LtE):
        return a <= b
    if isinstance(op, ast.Gt):
        return a > b
    if isinstance(op, ast.GtE):
        return a >= b
    if isinstance(op, ast.In):
        return a in b
    if isinstance(op, ast.NotIn):
        return a not in b
    if isinstance(op, ast.Is):
        return a is b
    if isinstance(op, ast.IsNot):
        return a is not b
    return UNK


def _within(node: ast.AST | None, outer: ast.AST) -> bool:
    return node is not None and any(x is node for x in ast.walk(outer))


def _bind(target: ast.AST, value: t.Any, env: dict[str, t.Any]) -> bool:
    if isinstance(target, ast.Name):
        env[target.id] = value
        return True
    if isinstance(target, (ast.Tuple, ast.List)):
        try:
            vals = list(value)
        except TypeError:
            return False
        stars = [k for k, x in enumerate(target.elts) if isinstance(x, ast.Starred)]
        if len(stars) == 1 and len(vals) >= len(target.elts) - 1:
            k, tail = stars[0], len(target.elts) - stars[0] - 1
            mid = vals[k:len(vals) - tail]
            return (all(_bind(e, v, env) for e, v in zip(target.elts[:k], vals[:k])) and _bind(target.elts[k].value, list(mid), env)  # type: ignore[attr-defined]
                    and all(_bind(e, v, env) for e, v in zip(target.elts[k + 1:], vals[len(vals) - tail:])))
        if stars or len(vals) != len(target.elts):
            return False
        return all(_bind(e, v, env) for e, v in zip(target.elts, vals))
    return False


class _Pinned(dict):  # type: ignore[type-arg]
    """{Def: value} with a version counter (memoised truths are per version)."""

    version = 0

    def __setitem__(self, k: t.Any, v: t.Any) -> None:
        self.version += 1
        super().__setitem__(k, v)

    def update(self, *a: t.Any, **kw: t.Any) -> None:  # type: ignore[override]
        self.version += 1
        super().update(*a, **kw)

    def __delitem__(self, k: t.Any) -> None:
        self.version += 1
        super().__delitem__(k)

    def pop(self, *a: t.Any) -> t.Any:  # type: ignore[override]
        self.version += 1
        return super().pop(*a)

    def clear(self) -> None:
        self.version += 1
        super().clear()


class FuncEval:
    """values of local names of one function under a scenario.

    ``params``: values of parameters; ``loop_values``: id(For node) -> value of one item of the iteration;
    ``pinned``: {Def: value} - a definition whose value the scenario fixes (wins over any other definition that reaches
    the same use: the caller walks only paths on which the pinned definition is the live one);
    ``multi``: hook(name, defs, fe) deciding the value of a name reached by several definitions (loop-carried state);
    ``call_hook``: see :class:`Ev`.  Module-level helpers whose body is a single ``return`` are evaluated in place.
    """

    MAX_DEPTH = 40

    def __init__(self, repo: Repo, folder: Folder, fi: FuncInfo, fn: ast.AST | None = None, params: dict[str, t.Any] | None = None,
                 loop_values: dict[int, t.Any] | None = None, call_hook=None, multi=None, inline_depth: int = 0):
        self.repo = repo
        self.folder = folder
        self.fi = fi
        self.fn = fn if fn is not None else fi.node
        if fn is None:
            self.cfg: CFG = cfg_of(fi)
        else:
            self.cfg = getattr(fn, "_c17_cfg", None) or CFG(fn)
            fn._c17_cfg = self.cfg  # type: ignore[attr-defined]
        self.free: t.Callable[[str], t.Any] | None = None  # values of the enclosing function's names (nested def)
        self._cenv: dict[str, t.Any] | None = None  # environment of the concrete run in progress
        a = self.fn.args  # type: ignore[attr-defined]
        names = [x.arg for x in a.posonlyargs + a.args + a.kwonlyargs] + ([a.vararg.arg] if a.vararg else []) + ([a.kwarg.arg] if a.kwarg else [])
        rd = getattr(self.cfg, "_c17_rd", None)
        if rd is None:
            rd = ReachingDefs(self.cfg, names)
            self.cfg._c17_rd = rd  # type: ignore[attr-defined]
        self.rd: ReachingDefs = rd
        self.params = params or {}
        self.loop_values = loop_values or {}
        self.user_hook = call_hook
        self.multi = multi
        self.pinned: _Pinned = _Pinned()
        self.depth = 0
        self.inline_depth = inline_depth
        self.unknown_tests: list[Node] = []
        self.assume: list[tuple[Node, bool]] = []  # test nodes whose outcome the scenario fixes
        self.raising = False  # the scenario's call hook decides which calls raise (see :class:`Raised`): try blocks can be followed
        self.token: t.Callable[[], t.Any] | None = None  # part of the scenario a hook switches while evaluating (memo key)
        self._truths: dict[t.Any, t.Any] = {}
        self._frame: tuple[list[Node], frozenset[int]] | None = None
        self._frame_no = 0
        self._busy: set[tuple[int, str]] = set()
        self._cut = 0

    # -- evaluation -----------------------------------------------------------
    def _apply_fn(self, fn: _Fn, args: list[t.Any], ev: Ev, env: dict[str, t.Any]) -> t.Any:
        """a nested def applied to known arguments: its body is followed on them; names of the enclosing function are
        read where the call happens."""
        names = _simple_params(fn.node.args)  # type: ignore[attr-defined]
        if names is not None and fn.bound:
            names = names[1:]
        if names is None or len(names) != len(args) or self.inline_depth >= 3 or isinstance(fn.node, ast.AsyncFunctionDef):
            return UNK
        if any(isinstance(x, (ast.Yield, ast.YieldFrom)) for x in ast.walk(fn.node)):
            return UNK
        if fn.fi is not None:
            bound = dict(zip(names, args))
            if fn.bound and not getattr(fn, "of_class", False) and ("self" in env or "self" in self.params):
                bound[fn.fi.params[0]] = env["self"] if "self" in env else self.params["self"]
            sub = FuncEval(self.repo, self.folder, fn.fi, params=bound, call_hook=self.user_hook if fn.bound or self.raising else None, inline_depth=self.inline_depth + 1)
        else:
            sub = FuncEval(self.repo, self.folder, self.fi, fn=fn.node, params=dict(zip(names, args)), call_hook=self.user_hook, inline_depth=self.inline_depth + 1)
            sub.free = lambda name: env[name] if name in env else ev.lookup(ast.Name(id=name, ctx=ast.Load()))
        sub.raising = self.raising
        try:
            res = sub.concrete()
            if res is not None:
                return res[1] if res[0] == "return" else UNK
            if self.raising:
                return UNK  # which call raises is only meaningful in statement order: no path summary instead
            rets, raises = sub.outcomes()
        except AnalysisError:
            return UNK
        except Raised:
            if self.raising:
                raise
            return UNK  # the helper's run ends in an exception of its own making (not one the scenario injects)
        vals = [v for _, v in rets]
        if raises or not vals or not _known(*vals) or any(not (v is vals[0] or (type(v) is type(vals[0]) and v == vals[0])) for v in vals[1:]):
            return UNK
        return vals[0]

    def _func_ref(self, e: ast.AST, ev: Ev, env: dict[str, t.Any]) -> t.Any:
        """`helper` (function of the analysed module, not shadowed) or `self.method` (no override anywhere) as a value."""
        if isinstance(e, ast.Name):
            if ev.node is not None and self.rd.reaching(ev.node, e.id):
                return UNK
            h = self.fi.module.functions.get(e.id)
            return _Fn(h.node, h) if h is not None and h is not self.fi else UNK
        if isinstance(e, ast.Attribute) and isinstance(e.value, ast.Name) and e.value.id == "self" and self.fi.cls is not None and self.fi.params[:1] == ["self"] and self.fn is self.fi.node:
            h = sole_method(self.repo, self.fi.cls, e.attr)
            fn: t.Any = None
            if h is not None and "staticmethod" in h.decorators and not ({"classmethod", "property"} & set(h.decorators)):
                fn = _Fn(h.node, h, False)  # a static method reached through self: a plain function of its arguments
            elif h is not None and h.params and "classmethod" in h.decorators and "property" not in h.decorators:
                fn = _Fn(h.node, h, True)
                fn.of_class = True
            elif h is not None and h.params and not ({"staticmethod", "classmethod", "property"} & set(h.decorators)):
                fn = _Fn(h.node, h, True)
            if fn is not None:
                return _SelfAttr(e.attr, fn)
            try:
                _o, w = self.repo.lookup(self.fi.cls, e.attr)
            except AnalysisError:
                return UNK
            if isinstance(w, FuncInfo) and "property" not in w.decorators:
                return _SelfAttr(e.attr, None)  # a method some subclass overrides: only a scenario's hook can answer its calls
            return UNK
        h = self._static_of_class(e)
        if h is not None:
            return _Fn(h.node, h, False)
        return UNK

    def _static_of_class(self, e: ast.AST) -> FuncInfo | None:
        """`Cls.helper` / `type(self).helper` / `self.__class__.helper` where helper is a static method that is the same
        function for the analysed class and all its subclasses (Cls: the analysed function's class or one of its bases)."""
        if not (isinstance(e, ast.Attribute) and self.fi.cls is not None):
            return None
        v = e.value
        own = False
        if isinstance(v, ast.Name) and v.id not in ("self", "cls"):
            own = any(getattr(c, "name", None) == v.id for c in self._mro())
        elif isinstance(v, ast.Call) and isinstance(v.func, ast.Name) and v.func.id == "type" and len(v.args) == 1 and not v.keywords and _is_self(v.args[0]):
            own = self.fi.params[:1] == ["self"]
        elif isinstance(v, ast.Attribute) and v.attr == "__class__" and _is_self(v.value):
            own = self.fi.params[:1] == ["self"]
        if not own:
            return None
        h = sole_method(self.repo, self.fi.cls, e.attr)
        if h is not None and "staticmethod" in h.decorators and not ({"classmethod", "property"} & set(h.decorators)):
            return h
        return None

    def _mro(self) -> list[t.Any]:
        try:
            return list(self.repo.mro(self.fi.cls))
        except AnalysisError:
            return [self.fi.cls]

    def ev_at(self, node: Node) -> Ev:
        ev = Ev(lambda nm: self.lookup_at(node, nm), self._hook)
        ev.node = node
        ev.apply_fn = self._apply_fn
        ev.func_ref = self._func_ref
        if self.pinned:
            ev.named = self._pinned_walrus
        return ev

    def _pinned_walrus(self, e: ast.NamedExpr) -> t.Any:
        for d, v in self.pinned.items():
            if d.kind == "walrus" and d.stmt is e:
                return v
        return NotImplemented

    def truth_at(self, node: Node) -> t.Any:
        for m, tr in self.assume:
            if m is node or (ast.dump(m.ast) == ast.dump(node.ast) and all(  # type: ignore[arg-type]
                    self.rd.reaching(m, x.id) == self.rd.reaching(node, x.id) and self.rd.reaching(m, x.id) for x in ast.walk(m.ast) if isinstance(x, ast.Name))):  # type: ignore[arg-type]
                return tr  # the scenario fixes this condition (same expression over the same bindings)
        return self.ev_at(node).truth(node.ast)  # type: ignore[arg-type]

    def lookup_at(self, node: Node, nm: ast.Name) -> t.Any:
        defs = self.rd.reaching(node, nm.id)
        if not defs:
            return self._global(nm.id)
        for d in defs:
            if d in self.pinned:
                return self.pinned[d]
        if len(defs) > 1 and self.multi is not None:
            r = self.multi(nm.id, defs, self)
            if r is not NotImplemented:
                return r
        if len(defs) > 1:
            # a name bound on several branches (a flag computed by if/else, a result variable, a default that a branch
            # overrides): only the bindings that are live on a path the scenario permits count
            defs = self.live_defs(node, nm.id, defs)
        vals = [self.def_value(d) for d in defs]
        v0 = vals[0]
        if v0 is UNK:
            return UNK
        for v in vals[1:]:
            if v is UNK or not (v is v0 or (type(v) is type(v0) and v == v0)):
                return UNK
        return v0

    # -- path sensitivity ----------------------------------------------------------
    def _scen_key(self) -> t.Any:
        tok = self.token() if self.token is not None else None
        return (tok, self.pinned.version, self._frame_no)

    def test_truth(self, n: Node) -> t.Any:
        """truth value of test node n under the scenario (memoised per scenario state; a value computed while an
        enclosing query was cut short by the re-entrancy guard is not kept)."""
        key = (self._scen_key(), n.id)
        if key in self._truths:
            return self._truths[key]
        before = self._cut
        tr = self.truth_at(n)
        if self._cut == before:
            self._truths[key] = tr
        return tr

    def live_defs(self, node: Node, name: str, defs: t.Iterable[Def]) -> list[Def]:
        """the definitions of ``name`` that are live on arrival at ``node`` along some entry path whose branch edges the
        scenario permits (a test the scenario decides keeps only its taken edge; an undecided test keeps both): the
        reaching definitions of the scenario's sub-graph.  Over-approximates the feasible paths, so the set is a
        superset of what a run of the scenario could see.  All of ``defs`` when ``node`` itself is not reachable that
        way, or when the query re-enters itself (a test on the way needs the very value asked for)."""
        defs = list(defs)
        key = (node.id, name)
        if key in self._busy or len(self._busy) > 12:
            self._cut += 1
            return defs
        self._busy.add(key)
        try:
            stack: list[tuple[Node, Def | None]] = []
            blocked: frozenset[int] = frozenset()
            if self._frame is None:
                stack.append((self.cfg.entry, next((d for d in self.rd.param_defs if d.name == name), None)))
            else:
                # the scenario's paths start at the nodes the last exploration started from (whatever binding was live
                # there) and end at its stop / avoid nodes
                starts, blocked = self._frame
                for s0 in starts:
                    ds = self.rd.reaching(s0, name) if s0 is not self.cfg.entry else [d for d in self.rd.param_defs if d.name == name]
                    stack += [(s0, d) for d in ds] or [(s0, None)]
            seen: set[tuple[int, int]] = set()
            live: list[Def | None] = []
            while stack:
                n, cur = stack.pop()
                k = (n.id, id(cur))
                if k in seen:
                    continue
                seen.add(k)
                if n is node and not any(cur is x for x in live):
                    live.append(cur)
                if n.id in blocked:
                    continue
                for d in self.rd.gen.get(n.id, []):
                    if d.name == name:
                        cur = d
                keep: str | None = None
                if n.kind == "test" and not isinstance(n.ast, ast.Constant):
                    tr = self.test_truth(n)
                    if tr is not UNK:
                        keep = "T" if tr else "F"
                for s, l in n.succs:
                    if keep is not None and l in ("T", "F") and l != keep:
                        continue
                    stack.append((s, cur))
            out = [d for d in defs if any(d is x for x in live)]
            return out or defs
        finally:
            self._busy.discard(key)

    def _global(self, name: str) -> t.Any:
        if self.free is not None:
            r = self.free(name)
            if r is not UNK:
                return r
        m = self.fi.module
        if name in m.assigns or (name in m.imports and m.imports[name].startswith("werkzeug")):
            try:
                return self.folder.name(m, name)
            except AnalysisError:
                return UNK
        return UNK

    def def_value(self, d: Def) -> t.Any:
        if d in self.pinned:
            return self.pinned[d]
        if self.depth > self.MAX_DEPTH:
            return UNK
        self.depth += 1
        try:
            if d.kind == "param":
                return self.params.get(d.name, UNK)
            if d.kind in ("assign", "walrus") and d.value is not None and d.node is not None:
                return self.ev_at(d.node).val(d.value)
            if d.kind == "unpack" and d.value is not None and d.node is not None and d.index is not None:
                lit = self._literal_elt(d)
                if lit is not None:
                    return self.ev_at(d.node).val(lit)  # a, b = x, y: only the element that is bound matters
                v = self.ev_at(d.node).val(d.value)
                return self._index(v, d)
            if d.kind == "def" and isinstance(d.stmt, ast.FunctionDef):
                return _Fn(d.stmt)
            if d.kind == "aug" and isinstance(d.stmt, ast.AugAssign) and isinstance(d.stmt.target, ast.Name) and d.node is not None:
                # x op= e: the binding that was live before, combined with e
                tgt = d.stmt.target
                load = ast.copy_location(ast.Name(id=tgt.id, ctx=ast.Load()), tgt)
                return self.ev_at(d.node).val(ast.BinOp(left=load, op=d.stmt.op, right=d.stmt.value))
            if d.kind == "for" and d.stmt is not None:
                v = self.loop_values.get(id(d.stmt), UNK)
                if d.index is None or v is UNK:
                    return v
                return self._index(v, d)
            return UNK
        finally:
            self.depth -= 1

    @staticmethod
    def _literal_elt(d: Def) -> ast.AST | None:
        """for `a, b = x, y` the right-hand element bound to d's name."""
        tg = getattr(d.stmt, "targets", None)
        tgt = tg[0] if tg and len(tg) == 1 else None
        v = d.value
        if isinstance(tgt, (ast.Tuple, ast.List)) and isinstance(v, (ast.Tuple, ast.List)) and len(tgt.elts) == len(v.elts) and d.index is not None:
            if not any(isinstance(x, (ast.Starred, ast.Tuple, ast.List)) for x in tgt.elts) and not any(isinstance(x, ast.Starred) for x in v.elts):
                return v.elts[d.index]
        return None

    @staticmethod
    def _index(v: t.Any, d: Def) -> t.Any:
        if v is UNK or not isinstance(v, (tuple, list)):
            return UNK
        tg = getattr(d.stmt, "targets", None)
        tgt = tg[0] if tg else getattr(d.stmt, "target", None)
        if isinstance(tgt, (ast.Tuple, ast.List)):
            if any(isinstance(x, (ast.Tuple, ast.List)) or (isinstance(x, ast.Starred) and not isinstance(x.value, ast.Name)) for x in tgt.elts) or d.index is None:
                return UNK
            stars = [k for k, x in enumerate(tgt.elts) if isinstance(x, ast.Starred)]
            m, n = len(tgt.elts), len(v)
            if len(stars) == 1 and n >= m - 1:
                # `a, b, *rest = seq`: the names before the star take the leading items, those after it the trailing
                # ones, the starred name a fresh list of what is in between
                k = stars[0]
                if d.index < k:
                    return v[d.index]
                if d.index == k:
                    return list(v[k:n - (m - k - 1)])
                return v[n - (m - d.index)]
            if stars or m != n:
                return UNK
        try:
            return v[d.index]  # type: ignore[index]
        except IndexError:
            return UNK

    # -- calls ------------------------------------------------------------------
    def _hook(self, call: ast.Call, ev: Ev, env: dict[str, t.Any]) -> t.Any:
        if isinstance(call.func, ast.Name) and (call.func.id in env or (ev.node is not None and self.rd.reaching(ev.node, call.func.id))):
            # a call through a local name that holds `self.<method>`: the call `self.<method>(...)` itself
            v = env[call.func.id] if call.func.id in env else ev.lookup(call.func)
            if isinstance(v, _SelfAttr) and self.fi.params[:1] == ["self"]:
                direct = ast.copy_location(ast.Call(func=ast.copy_location(ast.Attribute(value=ast.copy_location(ast.Name(id="self", ctx=ast.Load()), call.func), attr=v.attr, ctx=ast.Load()), call.func),
                                                    args=call.args, keywords=call.keywords), call)
                r = self._hook(direct, ev, env)
                return r if r is not NotImplemented else UNK
        if self.user_hook is not None:
            r = self.user_hook(call, ev, env, self)
            if r is not NotImplemented:
                return r
        # one level of helper extraction (nested up to 3 deep): a module-level function of the same module, or a
        # method of the analysed function's own class that no class of its hierarchy overrides, is evaluated in
        # place on the known argument values; its result is used when every feasible path returns the same value
        f = call.func
        r = self._stdlib_value(call, ev, env)
        if r is not NotImplemented:
            return r
        if call.keywords or self.inline_depth >= 3 or any(isinstance(a, ast.Starred) for a in call.args):
            return NotImplemented
        helper: FuncInfo | None = None
        bound: dict[str, t.Any] = {}
        if isinstance(f, ast.Name) and f.id not in env:
            if ev.node is not None and self.rd.reaching(ev.node, f.id):
                return NotImplemented  # a local binding shadows the module-level name
            helper = self.fi.module.functions.get(f.id)
            names = helper.params if helper is not None else []
        elif (isinstance(f, ast.Attribute) and isinstance(f.value, ast.Name) and f.value.id == "self" and self.fi.cls is not None and self.fn is self.fi.node
              and self.fi.params[:1] == ["self"] and ("self" not in env or (self._cenv is not None and env["self"] is self._cenv.get("self")))):
            helper = sole_method(self.repo, self.fi.cls, f.attr)
            if helper is None or "property" in helper.decorators:
                return NotImplemented
            if "staticmethod" in helper.decorators:
                names = helper.params  # a static method reached through self: a plain function of its arguments
            elif not helper.params:
                return NotImplemented
            elif "classmethod" in helper.decorators:
                names = helper.params[1:]  # its first parameter is the class: no value of the scenario (stays unknown)
            else:
                names = helper.params[1:]
                if "self" in env or "self" in self.params:
                    bound[helper.params[0]] = env["self"] if "self" in env else self.params["self"]
        elif self.fn is self.fi.node and self._static_of_class(f) is not None:
            helper = self._static_of_class(f)
            assert helper is not None
            names = helper.params
        else:
            return NotImplemented
        if helper is None or helper is self.fi or len(call.args) != len(names):
            return NotImplemented
        hn = helper.node
        if isinstance(hn, ast.AsyncFunctionDef) or any(isinstance(x, (ast.Yield, ast.YieldFrom)) for x in ast.walk(hn)):
            return NotImplemented
        args = [ev.val(a, env) for a in call.args]
        if not _known(*args):
            return UNK
        bound.update(zip(names, args))
        sub = FuncEval(self.repo, self.folder, helper, params=bound, call_hook=self.user_hook if isinstance(f, ast.Attribute) or self.raising else None, inline_depth=self.inline_depth + 1)
        sub.raising = self.raising
        try:
            res = sub.concrete()
            if res is not None:
                return res[1] if res[0] == "return" else UNK
            if self.raising:
                return UNK  # which call raises is only meaningful in statement order: no path summary instead
            rets, raises = sub.outcomes()
        except AnalysisError:
            return UNK
        except Raised:
            if self.raising:
                raise
            return UNK  # the helper's run ends in an exception of its own making (not one the scenario injects)
        vals = [v for _, v in rets]
        if raises or not vals or not _known(*vals):
            return UNK
        v0 = vals[0]
        if any(not (v is v0 or (type(v) is type(v0) and v == v0)) for v in vals[1:]):
            return UNK
        return v0

    def _stdlib_value(self, call: ast.Call, ev: Ev, env: dict[str, t.Any]) -> t.Any:
        """values of a few constructors that only rearrange their arguments: `operator.itemgetter(<constants>)` /
        `operator.attrgetter(<names>)` (as the lambda they stand for) and the call of a `typing.NamedTuple` class of the
        analysed module (a tuple with named fields, built from the class statement's annotated fields)."""
        f = call.func
        d = dotted(f)
        if d is None or any(isinstance(a, ast.Starred) for a in call.args) or any(k.arg is None for k in call.keywords):
            return NotImplemented
        head = d.split(".", 1)[0]
        if head in env or (ev.node is not None and self.rd.reaching(ev.node, head)):
            return NotImplemented  # a local binding shadows the module-level name
        mod = self.fi.module
        li = getattr(self.fi, "_c17_local_imports", None)
        if li is None:
            li = mod.local_imports(self.fi.node)
            self.fi._c17_local_imports = li  # type: ignore[attr-defined]
        if head not in mod.classes and head not in mod.imports and head not in li:
            return NotImplemented
        fq = self.repo.resolve(mod, d, li)
        if fq in ("operator.itemgetter", "operator.attrgetter") and call.args and not call.keywords:
            keys = [a.value for a in call.args if isinstance(a, ast.Constant)]
            if len(keys) != len(call.args):
                return UNK
            if fq == "operator.itemgetter":
                if not all(isinstance(k, (int, str)) and not isinstance(k, bool) for k in keys):
                    return UNK
                parts = [f"_x[{k!r}]" for k in keys]
            else:
                if not all(isinstance(k, str) and k.isidentifier() for k in keys):
                    return UNK
                parts = [f"_x.{k}" for k in keys]
            src = parts[0] if len(parts) == 1 else "(" + ", ".join(parts) + ",)"
            return _Lam(ast.parse(f"lambda _x: {src}", mode="eval").body)  # type: ignore[arg-type]
        if isinstance(f, ast.Name) and f.id in mod.classes:
            rec = self._record_class(mod.classes[f.id])
            if rec is None:
                return NotImplemented
            args = [ev.val(a, env) for a in call.args]
            kws = {k.arg: ev.val(k.value, env) for k in call.keywords}
            if not _known(*args, *kws.values()):
                return UNK
            try:
                return rec(*args, **kws)
            except TypeError:
                return UNK
        return NotImplemented

    def _record_class(self, c: t.Any) -> t.Any:
        """the tuple type a `class X(typing.NamedTuple)` statement of the module defines (fields in order, constant
        defaults); None for any other class or when the class body has more than annotated fields and a docstring."""
        cached = getattr(c, "_c17_record", NotImplemented)
        if cached is not NotImplemented:
            return cached
        import collections

        rec = None
        bases = [self.repo.resolve(c.module, dotted(b) or "?") for b in c.base_exprs]
        if bases == ["typing.NamedTuple"]:
            fields: list[str] = []
            defaults: list[t.Any] = []
            ok = True
            for st in c.node.body:
                if isinstance(st, ast.Expr) and isinstance(st.value, ast.Constant) and isinstance(st.value.value, str):
                    continue
                if isinstance(st, ast.AnnAssign) and isinstance(st.target, ast.Name) and (st.value is None or isinstance(st.value, ast.Constant)):
                    if st.value is None and defaults:
                        ok = False
                    fields.append(st.target.id)
                    if st.value is not None:
                        defaults.append(st.value.value)
                    continue
                ok = False
            if ok and fields:
                try:
                    rec = collections.namedtuple(c.name, fields, defaults=defaults or None)  # type: ignore[misc]
                except ValueError:
                    rec = None
        c._c17_record = rec
        return rec

    # -- reachability under the scenario -----------------------------------------
    def explore(self, starts: t.Iterable[Node], stop: t.Iterable[int] = (), avoid: t.Iterable[int] = (), definite: bool = False) -> set[int]:
        """ids of nodes reachable from ``starts``; a test whose condition evaluates to a definite truth value keeps
        only that edge.  ``stop`` nodes are entered but not left, ``avoid`` nodes are not entered.  With
        ``definite`` an undecided test is a dead end (only paths the scenario forces are followed: an
        under-approximation), otherwise it keeps both edges (over-approximation)."""
        stop_s, avoid_s = set(stop), set(avoid)
        seen: set[int] = set()
        self.edges: set[tuple[int, int]] = set()
        # a start node that is itself to be avoided is not entered either (the statement right after a binding already is
        # the sink: that path has arrived, it does not "end the iteration without passing the sink")
        stack = [s for s in starts if s.id not in avoid_s]
        self._frame = (list(stack), frozenset(stop_s | avoid_s))  # kept afterwards: values read next belong to these paths
        self._frame_no += 1
        while stack:
            n = stack.pop()
            if n.id in seen:
                continue
            seen.add(n.id)
            if n.id in stop_s:
                continue
            keep: str | None = None
            if n.kind == "test" and not isinstance(n.ast, ast.Constant):
                tr = self.truth_at(n)
                if tr is UNK:
                    if n not in self.unknown_tests:
                        self.unknown_tests.append(n)
                    if definite:
                        continue
                else:
                    keep = "T" if tr else "F"
            for s, l in n.succs:
                if keep is not None and l in ("T", "F") and l != keep:
                    continue
                if s.id in avoid_s:
                    continue
                if definite and l == "exc" and not isinstance(n.ast, ast.Raise):
                    continue  # nothing in the scenario forces this statement to raise
                self.edges.add((n.id, s.id))
                stack.append(s)
        return seen

    # -- one concrete run ---------------------------------------------------------------
    _MUTATORS = {"append": 1, "extend": 1, "add": 1, "insert": 2, "reverse": 0, "setdefault": 2, "update": 1}

    def concrete(self, limit: int = 4000) -> tuple[str, t.Any] | None:
        """follow the one path the parameter values determine, statement by statement, with an environment of local
        values (so result variables assigned on several branches, loops that build a list, early exits all work).
        ("return", value or UNK) / ("raise", None); None when a branch condition, an iterable or an effect cannot be
        evaluated - the caller then falls back on :meth:`outcomes`."""
        import copy

        cfg = self.cfg
        env: dict[str, t.Any] = {k: (copy.deepcopy(v) if isinstance(v, (list, dict, set)) else v) for k, v in self.params.items()}
        a = self.fn.args  # type: ignore[attr-defined]
        for x in a.posonlyargs + a.args + a.kwonlyargs:
            env.setdefault(x.arg, UNK)
        self._cenv = env
        iters: dict[int, list[t.Any]] = {}
        n, prev = cfg.entry, None

        def glob(nm: ast.Name) -> t.Any:
            return self._global(nm.id)

        for _ in range(limit):
            if n is cfg.exit:
                return ("return", None)
            if n is cfg.raise_exit:
                return ("raise", None)
            ev = Ev(glob, self._hook)
            ev.node = n
            ev.apply_fn = self._apply_fn
            ev.func_ref = self._func_ref
            ev.mutating = True
            nxt: Node | None = None
            normal = [(s_, l) for s_, l in n.succs if l != "exc"]
            try:
                step = self._step(n, prev, ev, env, iters, normal)
            except Raised as sig:
                # the scenario makes a call of this statement raise: control goes to the first handler of the enclosing
                # tries that covers the exception; with none, it leaves this function
                if self._under_finally(n):
                    return None
                step = self._exc_target(n, sig.exc)
                if step is None:
                    return None
                if step is _PROPAGATES:
                    if self.raising or self.inline_depth > 0:
                        raise
                    return ("raise", None)
            if not isinstance(step, Node):
                return step
            prev, n = n, step
        return None

    def _exc_target(self, n: Node, exc: str) -> t.Any:
        """where control goes when the statement of node n raises the builtin exception ``exc``: the node of the first
        handler, innermost construct first, that covers it; the statement after a ``with contextlib.suppress(...)`` block
        that covers it (("return", None) when the function ends there); _PROPAGATES when nothing in this function
        catches it; None when a construct on the way is not understood (a handler naming a class that is not a builtin
        exception, any other context manager - it may swallow the exception -, a suppress block that is not followed by a
        plain statement)."""
        handlers = {id(h.ast): h for h, l in n.succs if l == "exc" and h.kind == "handler"}
        child: ast.AST | None = n.ast
        cur = getattr(child, "_parent", None) if child is not None else None
        while child is not None and child is not self.fn and cur is not None:
            if (isinstance(cur, ast.Try) or cur.__class__.__name__ == "TryStar") and any(child is x for x in cur.body):  # type: ignore[attr-defined]
                for h in cur.handlers:  # type: ignore[attr-defined]
                    cov = handler_covers(h.type, exc)
                    if cov is None:
                        return None
                    if cov:
                        return handlers.get(id(h))
            elif isinstance(cur, ast.AsyncWith):
                return None
            elif isinstance(cur, ast.With) and any(child is x for x in cur.body):
                sup = self._suppresses(cur, exc)
                if sup is None:
                    return None
                if sup:
                    return self._after(cur)
            child, cur = cur, getattr(cur, "_parent", None)
        return _PROPAGATES

    def _suppresses(self, w: ast.With, exc: str) -> bool | None:
        """does leaving the with block by exception ``exc`` continue after it?  Only `contextlib.suppress(<classes>)`
        items are understood (True / False by the builtin hierarchy); None for any other context manager."""
        res = False
        for it in w.items:
            c = it.context_expr
            d = dotted(c.func) if isinstance(c, ast.Call) else None
            fq = self.repo.resolve(self.fi.module, d, self.fi.module.local_imports(self.fi.node)) if d else None
            if fq != "contextlib.suppress" or c.keywords or it.optional_vars is not None or any(isinstance(a, ast.Starred) for a in c.args):  # type: ignore[union-attr]
                return None
            for a in c.args:  # type: ignore[union-attr]
                cov = handler_covers(a, exc)
                if cov is None:
                    return None
                res = res or cov
        return res

    def _after(self, st: ast.stmt) -> t.Any:
        """the node of the plain statement that follows compound statement ``st`` in its block; ("return", None) when
        the function body ends with ``st``; None otherwise (the continuation is not looked for)."""
        par = getattr(st, "_parent", None)
        if par is None:
            return None
        for fld in ("body", "orelse", "finalbody"):
            blk = getattr(par, fld, None)
            if isinstance(blk, list) and any(st is x for x in blk):
                i = [k for k, x in enumerate(blk) if x is st][0]
                if i + 1 < len(blk):
                    nx = blk[i + 1]
                    if not isinstance(nx, (ast.Return, ast.Assign, ast.AnnAssign, ast.AugAssign, ast.Expr, ast.Raise, ast.Pass)):
                        return None
                    ns = self.cfg.by_ast.get(id(nx))
                    return ns[0] if ns and ns[0].kind == "stmt" else None
                if par is self.fn and fld == "body":
                    return ("return", None)
                return None
        return None

    def _under_finally(self, n: Node) -> bool:
        cur = n.ast
        while cur is not None and cur is not self.fn:
            if isinstance(cur, ast.Try) and cur.finalbody:
                return True
            cur = getattr(cur, "_parent", None)
        return False

    def _step(self, n: Node, prev: Node | None, ev: Ev, env: dict[str, t.Any], iters: dict[int, list[t.Any]], normal: list) -> t.Any:
        """one node of :meth:`concrete`: the next node, or the run's result (a tuple), or None (cannot be followed)."""
        if True:
            nxt: Node | None = None
            if n.kind == "loop":
                st = n.ast
                assert isinstance(st, ast.For)
                fresh = prev is None or not any(_within(prev.ast, b) for b in st.body)
                if fresh or n.id not in iters:
                    it = ev.val(st.iter, env)
                    if it is UNK:
                        return None
                    try:
                        iters[n.id] = list(it)
                    except TypeError:
                        return None
                    if len(iters[n.id]) > 200:
                        return None
                if iters[n.id]:
                    if not _bind(st.target, iters[n.id].pop(0), env):
                        return None
                    want = "T"
                else:
                    del iters[n.id]
                    want = "F"
                c = [s_ for s_, l in normal if l == want]
                if len(c) != 1:
                    return None
                nxt = c[0]
            elif n.kind == "test":
                if not self._bind_defs(n, ev, env):
                    return None
                tr = ev.truth(n.ast, env)  # type: ignore[arg-type]
                if tr is UNK:
                    return None
                c = [s_ for s_, l in normal if l == ("T" if tr else "F")]
                if len(c) != 1:
                    return None
                nxt = c[0]
            elif n.kind == "stmt":
                st = n.ast
                if any(l == "exc" for _, l in n.succs):
                    # inside a try.  Whether the statement raises is modelled only when the scenario says which calls raise
                    # (``raising``: its hook raises :class:`Raised`, handled by the caller of this step) and the statement
                    # otherwise computes a known value from known values (sample constants: nothing else can raise)
                    # (without such a scenario: the statement is followed when it computes known values from known values -
                    # a call that would raise evaluates to unknown, never to a value)
                    if isinstance(st, ast.Return) and st.value is not None:
                        v = ev.val(st.value, env)
                        return None if v is UNK else ("return", v)
                    if isinstance(st, (ast.Assign, ast.AnnAssign)) and st.value is not None and self._bind_defs(n, ev, env) and len(normal) == 1:
                        if any(env.get(d.name, UNK) is UNK for d in self.rd.gen.get(n.id, [])):
                            return None
                        return normal[0][0]
                    return None
                if isinstance(st, ast.Return):
                    return ("return", ev.val(st.value, env) if st.value is not None else None)
                if isinstance(st, ast.Raise):
                    return ("raise", None)
                if isinstance(st, ast.Assign) and len(st.targets) == 1 and isinstance(st.targets[0], ast.Subscript) and isinstance(st.targets[0].value, ast.Name):
                    tg = st.targets[0]
                    obj = env.get(tg.value.id, UNK)  # type: ignore[union-attr]
                    k, v = ev.val(tg.slice, env), ev.val(st.value, env)
                    if not isinstance(obj, (list, dict)) or not _known(k, v) or isinstance(tg.slice, ast.Slice):
                        return None
                    try:
                        obj[k] = v
                    except Exception:
                        return None
                elif isinstance(st, (ast.Assign, ast.AnnAssign)) and all(
                        isinstance(x, ast.Attribute) and isinstance(x.value, ast.Name) and x.value.id == "self" and self.fn.args.args and self.fn.args.args[0].arg == "self"  # type: ignore[attr-defined]
                        for x in (st.targets if isinstance(st, ast.Assign) else [st.target])):
                    pass  # an attribute of self is set: no local value changes (reading it back is unknown)
                elif isinstance(st, (ast.Assign, ast.AnnAssign)):
                    if not self._bind_defs(n, ev, env):
                        return None
                elif isinstance(st, ast.AugAssign):
                    if not isinstance(st.target, ast.Name):
                        return None
                    env[st.target.id] = ev.val(ast.BinOp(left=ast.Name(id=st.target.id, ctx=ast.Load()), op=st.op, right=st.value), env)
                elif isinstance(st, ast.Expr):
                    if not self._bind_defs(n, ev, env):
                        return None
                    v = st.value
                    if isinstance(v, ast.Call) and isinstance(v.func, ast.Attribute) and isinstance(v.func.value, ast.Name) and v.func.value.id in env:
                        obj = env[v.func.value.id]
                        arity = self._MUTATORS.get(v.func.attr)
                        args = [ev.val(x, env) for x in v.args]
                        if isinstance(obj, list) and v.func.attr == "sort" and not v.args and all(k.arg in ("key", "reverse") for k in v.keywords):
                            # list.sort is sorted() in place: same stable order
                            shim = ast.Call(func=ast.Name(id="sorted", ctx=ast.Load()), args=[v.func.value], keywords=v.keywords)
                            r = ev.val(shim, env) if "sorted" not in env else UNK
                            if r is UNK:
                                return None
                            obj[:] = r
                        elif isinstance(obj, (list, set, dict)) and arity == len(args) and not v.keywords and _known(*args) and hasattr(obj, v.func.attr):
                            try:
                                getattr(obj, v.func.attr)(*args)
                            except Exception:
                                return None
                        elif isinstance(obj, (str, tuple, int, float, bool, type(None))):
                            pass  # immutable receiver: the call has no effect on the environment
                        elif v.func.value.id == "self":
                            ev.val(v, env)  # a method of self: a hook may record / answer it; no local value changes
                        else:
                            return None  # unknown effect on a local object
                    elif isinstance(v, ast.Call):
                        ev.val(v, env)  # no local receiver: a hook may record / answer it; no local value changes
                elif isinstance(st, ast.FunctionDef):
                    env[st.name] = _Fn(st)
                elif isinstance(st, (ast.Pass, ast.Break, ast.Continue, ast.Assert, ast.Global, ast.Nonlocal)):
                    pass
                else:
                    return None
                if len(normal) != 1:
                    return None
                nxt = normal[0][0]
            elif n.kind in ("entry", "join"):
                if len(normal) != 1:
                    return None
                nxt = normal[0][0]
            elif n.kind == "with" and isinstance(n.ast, ast.With):
                # entering a block under `contextlib.suppress(<builtin exception classes>)` computes nothing; what it does
                # with an exception is decided where one is raised (_exc_target); other context managers are not followed
                if self._suppresses(n.ast, "Exception") is None or len(normal) != 1:
                    return None
                nxt = normal[0][0]
            elif n.kind == "handler" and isinstance(n.ast, ast.ExceptHandler):
                if n.ast.name:
                    env[n.ast.name] = UNK
                if len(normal) != 1:
                    return None
                nxt = normal[0][0]
            else:
                return None
            return nxt

    def _bind_defs(self, n: Node, ev: Ev, env: dict[str, t.Any]) -> bool:
        """execute the bindings of node n (assignment targets, walrus) on env; False when a target is not a plain name."""
        new: list[tuple[str, t.Any]] = []
        st = n.ast
        if isinstance(st, ast.Assign) and any(not isinstance(x, (ast.Name, ast.Tuple, ast.List)) for x in st.targets):
            return False  # attribute / subscript store: effect not modelled
        if isinstance(st, ast.AnnAssign) and not isinstance(st.target, ast.Name):
            return False
        cache: dict[int, t.Any] = {}
        for d in self.rd.gen.get(n.id, []):
            if d.kind not in ("assign", "walrus", "unpack") or d.value is None:
                new.append((d.name, UNK))
                continue
            lit = self._literal_elt(d) if d.kind == "unpack" else None
            if lit is not None:
                new.append((d.name, ev.val(lit, env)))
                continue
            if id(d.value) not in cache:
                cache[id(d.value)] = ev.val(d.value, env)
            v = cache[id(d.value)]
            if d.index is not None:
                if ev.mutating and d.kind == "unpack" and isinstance(v, (type(None), bool, int, float)):
                    raise Raised("TypeError")  # statement-by-statement run: unpacking what is not iterable (`a, b = None`)
                v = self._index(v, d)
            new.append((d.name, v))
        for k, v in new:
            env[k] = v
        return True

    def outcomes(self, starts: t.Iterable[Node] | None = None) -> tuple[list[tuple[Node, t.Any]], bool]:
        """([(return node, value or UNK)], may raise) over the paths feasible under the scenario (from the entry, or
        from ``starts``)."""
        seen = self.explore([self.cfg.entry] if starts is None else list(starts))
        rets = []
        for n in self.cfg.nodes:
            if n.id in seen and isinstance(n.ast, ast.Return) and n.kind == "stmt":
                rets.append((n, self.ev_at(n).val(n.ast.value) if n.ast.value is not None else None))
        falls_off = any((p.id, self.cfg.exit.id) in self.edges and not isinstance(p.ast, ast.Return) for p, _ in self.cfg.exit.preds)
        if falls_off:
            rets.append((self.cfg.exit, None))
        return rets, self.cfg.raise_exit.id in seen


def _clone(n: t.Any) -> t.Any:
    if isinstance(n, ast.AST):
        new = type(n)()
        for f in n._fields:
            if hasattr(n, f):
                setattr(new, f, _clone(getattr(n, f)))
        for a in n._attributes:
            if hasattr(n, a):
                setattr(new, a, getattr(n, a))
        return new
    if isinstance(n, list):
        return [_clone(x) for x in n]
    return n


def _split_ifexp(st: ast.stmt) -> ast.stmt:
    """`x = A if T else B` / `return A if T else B` as an if statement with one plain statement per arm."""
    v = getattr(st, "value", None)
    if not (isinstance(st, (ast.Assign, ast.AnnAssign, ast.Return)) and isinstance(v, ast.IfExp)):
        return st
    arms = []
    for arm in (v.body, v.orelse):
        c = _clone(st)
        c.value = arm
        arms.append(_split_ifexp(ast.copy_location(c, arm)))
    return ast.copy_location(ast.If(test=v.test, body=[arms[0]], orelse=[arms[1]]), st)


def _desugar(body: list[ast.stmt]) -> list[ast.stmt]:
    out = []
    for st in body:
        if isinstance(st, (ast.FunctionDef, ast.AsyncFunctionDef, ast.ClassDef)):
            out.append(st)
            continue
        for f in ("body", "orelse", "finalbody"):
            b = getattr(st, f, None)
            if isinstance(b, list) and b and isinstance(b[0], ast.stmt):
                setattr(st, f, _desugar(b))
        for h in getattr(st, "handlers", []) or []:
            h.body = _desugar(h.body)
        out.append(_split_ifexp(st))
    return out


def normalised(fi: FuncInfo) -> FuncInfo:
    """a FuncInfo for the same function whose body has statement-level conditional expressions written as if
    statements (so the CFG, dominance and reaching definitions see their branches); the function itself when it has
    none.  Line numbers are kept; cached on ``fi``."""
    got = getattr(fi, "_c17_norm", None)
    if got is not None:
        return got
    out = fi
    stmts = [x for x in ast.walk(fi.node) if isinstance(x, (ast.Assign, ast.AnnAssign, ast.Return)) and isinstance(x.value, ast.IfExp)]
    if stmts:
        node = _clone(fi.node)
        node.body = _desugar(node.body)
        for par in ast.walk(node):
            for ch in ast.iter_child_nodes(par):
                ch._parent = par  # type: ignore[attr-defined]
        node._parent = getattr(fi.node, "_parent", None)
        out = FuncInfo(fi.module, node, fi.qualname, fi.cls)
        out._c17_norm = out  # type: ignore[attr-defined]
    fi._c17_norm = out  # type: ignore[attr-defined]
    return out


def sole_method(repo: Repo, cls: t.Any, name: str) -> FuncInfo | None:
    """the method ``self.<name>`` denotes inside a method of ``cls``, when that is the same werkzeug function for
    ``cls`` and every subclass of it (no override can be dispatched to); None otherwise."""
    try:
        _o, w = repo.lookup(cls, name)
    except AnalysisError:
        return None
    if not isinstance(w, FuncInfo):
        return None
    for sub in repo.subclasses(cls.fq):
        try:
            _o2, w2 = repo.lookup(sub, name)
        except AnalysisError:
            return None
        if w2 is not w:
            return None
    return w


def self_call(call: ast.Call, name: str) -> bool:
    f = call.func
    return isinstance(f, ast.Attribute) and f.attr == name and isinstance(f.value, ast.Name) and f.value.id == "self"


def fold_regex_expr(repo: Repo, folder: Folder, fi: FuncInfo, expr: ast.AST) -> tuple[RegexConst, str] | None:
    d = dotted(expr)
    if d is None:
        return None
    fq = repo.resolve(fi.module, d, fi.module.local_imports(fi.node))
    if fq is None or not fq.startswith("werkzeug."):
        return None
    mn, _, nm = fq.rpartition(".")
    if mn not in repo.modules:
        return None
    try:
        v = folder.name(repo.modules[mn], nm)
    except AnalysisError:
        return None
    return (v, nm) if isinstance(v, RegexConst) else None
