"""C13 - cookie values round-trip and cannot inject attributes.

All tables are folded from the source (E3/E4) and compared, exhaustively over
the 256 byte values, with the RFC 6265 section 4.1.1 cookie-octet table.  The
code that applies the tables is located by role (the regex substitution over
the encoded value, the fast-path match on the value, the unescaping substitution
over the quoted value), following one level of module-level helpers, and its
conditions are read through canonical guards - so extracted helpers, renamed
locals, flipped branches and equivalent stdlib idioms are read the same way.
"""

from __future__ import annotations

import ast
import re

from .. import astq
from ..cfg import cfg_of
from ..dataflow import ReachingDefs
from ..fold import Folder, RegexConst, Unfoldable, single_class
from ..guards import canon, guard_set, simulate
from ..loader import AnalysisError, FuncInfo, dotted, norm, walk_no_nested
from ..report import Ctx

LEVEL_TEXT = (
    "Static decision of the structural clauses of C13 on /repo's current source: (R13.1) the escape class used by "
    "dump_cookie contains every byte that is not an RFC 6265 cookie-octet; (R13.2) the escape map is total over that "
    "class, pure ASCII, backslash + octal/self, and is inverted by the parser's unslash regex and replacement function, "
    "which is applied in a single pass to quoted values only and whose result is stored untransformed; (R13.3) the "
    "unquoted fast path admits only cookie-octets (fullmatch, re.ASCII); (R13.4) escaped text is decoded as "
    "ASCII and wrapped in quotes; (R13.5) attribute names and order are literal, SameSite is validated, path and domain "
    "pass their encoders, partitioned implies secure; (R13.6) both request-side parsers reach the sans-io parser and "
    "Response.set_cookie forwards every attribute. Exhaustive over the 256 byte values; it decides these clauses, not "
    "the round-trip law over all of Unicode (which follows from them plus UTF-8 being a bijection, not checked)."
)
TRUSTED = ["CPython ast and re._parser", "RFC 6265 section 4.1.1 cookie-octet table embedded as a constant", "urllib.parse.quote escapes every non-safe non-alphanumeric character", "the idna codec outputs ASCII"]
ASSUMPTIONS = ["cookie key is a token (as the property states)", "Expires passed as a raw str by the application is not constrained"]

# RFC 6265 4.1.1: cookie-octet = %x21 / %x23-2B / %x2D-3A / %x3C-5B / %x5D-7E
COOKIE_OCTETS = frozenset([0x21, *range(0x23, 0x2C), *range(0x2D, 0x3B), *range(0x3C, 0x5C), *range(0x5D, 0x7F)])
ATTR_ORDER = ["Domain", "Expires", "Max-Age", "Secure", "HttpOnly", "Path", "SameSite", "Partitioned"]


# ---------------------------------------------------------------------
# small dataflow helpers


class Fn:
    def __init__(self, fi: FuncInfo):
        self.fi = fi
        self.cfg = cfg_of(fi)
        self.rd = ReachingDefs(self.cfg, fi.params)

    def expand(self, e: ast.AST, at: ast.AST | None = None, depth: int = 0, levels: int = 5) -> ast.AST:
        """substitute local names by their unique reaching definition (any expression), recursively."""
        node = self.cfg.node_of(at if at is not None else e)
        fresh = ast.parse(ast.unparse(e), mode="eval").body
        if node is None or depth >= levels:
            return fresh
        outer = self

        class T(ast.NodeTransformer):
            def visit_Name(self, n: ast.Name):  # noqa: N802
                if isinstance(n.ctx, ast.Load):
                    defs = outer.rd.reaching(node, n.id)
                    if len(defs) == 1:
                        d = next(iter(defs))
                        if d.kind == "assign" and d.index is None and d.value is not None and d.stmt is not None:
                            return outer.expand(d.value, d.stmt, depth + 1, levels)
                return n

        return ast.fix_missing_locations(T().visit(fresh))


def _module_helpers(fi: FuncInfo) -> list[FuncInfo]:
    out = []
    for c in astq.calls(fi.node):
        d = dotted(c.func)
        if d and d in fi.module.functions and fi.module.functions[d] is not fi and fi.module.functions[d] not in out:
            out.append(fi.module.functions[d])
    return out


def _fold(ctx: Ctx, folder: Folder, fi: FuncInfo, expr: ast.AST):
    d = dotted(expr)
    if d is None:
        raise AnalysisError(f"{fi.fq}: cannot resolve {ast.unparse(expr)}")
    li = fi.module.local_imports(fi.node)
    fq = ctx.repo.resolve(fi.module, d, li)
    mn, _, nm = fq.rpartition(".")
    return folder.name(ctx.repo.module(mn), nm), nm


def _find_sub(ctx: Ctx, folder: Folder, root: FuncInfo, want_bytes: bool = True):
    """the `<regex>.sub(repl, X)` call in root or in a module-level helper it calls: (function, call, regex, name)"""
    for fi in [root] + _module_helpers(root):
        for c in astq.method_calls(fi.node, "sub"):
            if len(c.args) >= 2:
                try:
                    rx, nm = _fold(ctx, folder, fi, c.func.value)  # type: ignore[attr-defined]
                except (AnalysisError, Unfoldable):
                    continue
                if isinstance(rx, RegexConst) and isinstance(rx.pattern, bytes) == want_bytes:
                    return fi, c, rx, nm
    return None


def _is_quote_wrapped(e: ast.AST) -> ast.AST | None:
    """'"' + X + '"'  or  f'"{X}"'  -> X"""
    if isinstance(e, ast.JoinedStr) and len(e.values) == 3 and astq.const_str(e.values[0]) == '"' and astq.const_str(e.values[2]) == '"' and isinstance(e.values[1], ast.FormattedValue):
        return e.values[1].value
    if isinstance(e, ast.BinOp) and isinstance(e.op, ast.Add) and astq.const_str(e.right) == '"' and isinstance(e.left, ast.BinOp) and isinstance(e.left.op, ast.Add) and astq.const_str(e.left.left) == '"':
        return e.left.right
    return None


def run(ctx: Ctx) -> None:
    repo = ctx.repo
    folder = Folder(repo)
    dump = repo.func("http.dump_cookie")
    ctx.saw(dump)
    fn = dump.node

    ctx.rule("R13.1", "escape class ESC (regex substituted over the encoded value in dump_cookie) contains every byte that is not an RFC 6265 cookie-octet")
    ctx.rule("R13.2", "escape map is total over ESC; each image is ASCII, backslash+self for quote/backslash else backslash+3 octal digits (first <= 3) of the byte; each image is matched whole by the parser's unslash regex and mapped back to the byte by its replacement function; the parser unescapes quoted values only, in one pass, and stores the result untransformed")
    ctx.rule("R13.3", "the no-quote fast path is a fullmatch of a re.ASCII class contained in the cookie-octets")
    ctx.rule("R13.4", "escaped bytes are decoded as ASCII and wrapped in double quotes; ESC covers 0x80-0xFF")
    ctx.rule("R13.5", "attribute loop iterates the literal tuple Domain, Expires, Max-Age, Secure, HttpOnly, Path, SameSite, Partitioned; SameSite title-cased and validated; path quoted with ';' unsafe; domain IDNA->ASCII; timedelta max_age -> int; partitioned => secure")
    ctx.rule("R13.6", "http.parse_cookie and Request.cookies reach sansio.http.parse_cookie; Response.set_cookie forwards every attribute to dump_cookie; test client splits the pair at the first ';'")

    # ---- slots on the writer side ------------------------------------
    found = _find_sub(ctx, folder, dump, want_bytes=True)
    if found is None:
        raise AnalysisError("dump_cookie: no <bytes regex>.sub(...) in it or its helpers (escape slot)")
    qf, sub_call, esc, esc_name = found
    ctx.saw(qf)
    Q = Fn(qf)
    # the encoded argument: X.encode() where X is the value (possibly via a local)
    enc_arg = Q.expand(sub_call.args[1], sub_call)
    enc_ok = isinstance(enc_arg, ast.Call) and isinstance(enc_arg.func, ast.Attribute) and enc_arg.func.attr == "encode" and isinstance(enc_arg.func.value, ast.Name) and (not enc_arg.args or astq.const_str(enc_arg.args[0]) in ("utf-8", "utf8"))
    vname = enc_arg.func.value.id if enc_ok else None  # type: ignore[union-attr]
    if qf is dump:
        value_is_value = vname == "value"
    else:
        hcalls = [c for c in astq.calls(dump.node) if dotted(c.func) == qf.name]
        value_is_value = bool(hcalls) and all(len(c.args) >= 1 and astq.is_name(c.args[0], "value") for c in hcalls) and vname == (qf.params[0] if qf.params else None)
    # replacement: lambda m: MAP[m.group()]  or a function returning that
    repl = sub_call.args[0]
    body = None
    if isinstance(repl, ast.Lambda):
        body = repl.body
    elif dotted(repl) and dotted(repl) in qf.module.functions:
        rf = qf.module.functions[dotted(repl)]
        rets = astq.returns_of(rf.node)
        if len(rets) == 1:
            body = rets[0].value
    map_expr = None
    if isinstance(body, ast.Subscript) and isinstance(body.slice, ast.Call) and isinstance(body.slice.func, ast.Attribute) and body.slice.func.attr == "group" and not body.slice.args:
        map_expr = body.value
    if map_expr is None:
        raise AnalysisError("dump_cookie: escape replacement is not `MAP[m.group()]` (map slot)")
    emap, emap_name = _fold(ctx, folder, qf, map_expr)
    if not isinstance(emap, dict):
        raise AnalysisError(f"{emap_name} does not fold to a dict")
    ESC, rep = single_class(esc, 256)
    if rep != (1, 1):
        raise AnalysisError(f"{esc_name} is not a single-byte class (repeat {rep})")
    # fast path test on the same value
    fast = None
    for t in Q.cfg.tests():
        if t.kind != "test":
            continue
        e = t.ast
        while isinstance(e, ast.UnaryOp):
            e = e.operand
        if isinstance(e, ast.Compare) and len(e.ops) == 1 and astq.is_none(e.comparators[0]):
            e = e.left
        if isinstance(e, ast.Call) and isinstance(e.func, ast.Attribute) and e.func.attr in ("fullmatch", "match", "search") and e.args and astq.is_name(e.args[0], vname):
            try:
                rx, nm = _fold(ctx, folder, qf, e.func.value)
            except (AnalysisError, Unfoldable):
                continue
            if isinstance(rx, RegexConst):
                fast = (t, e, rx, nm)
    if fast is None:
        raise AnalysisError("dump_cookie: no `<regex>.<match>(value)` test guarding the escape (fast-path slot)")
    ft, fcall, nq, nq_name = fast

    # ---- R13.1 -----------------------------------------------------
    n131 = 0
    for b in range(256):
        if b in COOKIE_OCTETS:
            continue
        n131 += 1
        ctx.ob("R13.1", f"byte 0x{b:02x} escaped", b in ESC, f"0x{b:02x} is not a cookie-octet and is {'in' if b in ESC else 'NOT in'} {esc_name} = {esc.pattern!r}", dump, sub_call if qf is dump else None, f"byte 0x{b:02x}")
    ctx.floor("R13.1", "non-cookie-octet bytes", n131, 256 - len(COOKIE_OCTETS))

    # ---- R13.2 (writer map vs reader) -----------------------------------
    sparse = repo.func("sansio.http.parse_cookie")
    ctx.saw(sparse)
    ufound = _find_sub(ctx, folder, sparse, want_bytes=True)
    if ufound is None:
        raise AnalysisError("sansio.http.parse_cookie: no <bytes regex>.sub(...) in it or its helpers (unslash slot)")
    uf, unsl_call, unsl, unsl_name = ufound
    ctx.saw(uf)
    U = Fn(uf)
    repl_fn_name = dotted(unsl_call.args[0])
    repl_fi = uf.module.functions.get(repl_fn_name or "")
    if repl_fi is None:
        raise AnalysisError("unslash replacement function not found")
    ctx.saw(repl_fi)
    shape_ok, shape_fact = _unslash_shape(repl_fi)
    ctx.ob("R13.2", "unslash replacement: one character is returned as is, three digits are read as an octal byte", shape_ok, shape_fact, repl_fi, repl_fi.node, "replacement shape")
    unsl_c = re.compile(unsl.pattern, unsl.flags)
    n = 0
    for b in sorted(ESC):
        key = bytes([b])
        n += 1
        if key not in emap:
            ctx.ob("R13.2", f"map total at 0x{b:02x}", False, f"{esc_name} matches 0x{b:02x} but {emap_name} has no entry: KeyError inside re.sub", dump, None, f"map key 0x{b:02x}")
            continue
        img = emap[key]
        good_form = isinstance(img, bytes) and all(c < 128 for c in img) and (
            (b in (0x22, 0x5C) and img == b"\\" + key) or (len(img) == 4 and img[:1] == b"\\" and img[1:].isdigit() and img[1] <= 0x33 and all(0x30 <= c <= 0x37 for c in img[1:]) and int(img[1:], 8) == b)
        )
        inv = False
        if isinstance(img, bytes):
            m = unsl_c.fullmatch(img)
            if m is not None and shape_ok:
                g = m.group(1)
                back = g if len(g) == 1 else bytes([int(g, 8)])
                inv = back == key
        ctx.ob("R13.2", f"escape of 0x{b:02x}", good_form and inv, f"{emap_name}[0x{b:02x}] = {img!r}: form {'ok' if good_form else 'BAD'}, {'inverted' if inv else 'NOT inverted'} by {unsl_name} = {unsl.pattern!r}", dump, None, f"map image 0x{b:02x}")
    ctx.floor("R13.2", "escaped bytes with map images", n, 150)
    raw = set(range(256)) - ESC
    ctx.ob("R13.2", "backslash never raw", 0x5C not in raw, "backslash is in the escape class, so no raw byte can start an escape sequence in the parser", dump, None, "backslash raw")
    # reader: argument is <quoted>[1:-1].encode(); result decoded leniently; single pass
    uarg = U.expand(unsl_call.args[1], unsl_call)
    uarg_ok = isinstance(uarg, ast.Call) and isinstance(uarg.func, ast.Attribute) and uarg.func.attr == "encode" and isinstance(uarg.func.value, ast.Subscript) and norm(uarg.func.value.slice) == "1:-1"
    ctx.ob("R13.2", "the parser unescapes exactly the text between the surrounding quotes", uarg_ok, f"substitution argument `{norm(uarg)}`", uf, unsl_call, "unslash argument")
    subs_in_reader = [c for f_ in [sparse] + _module_helpers(sparse) for c in astq.method_calls(f_.node, "sub")]
    ctx.ob("R13.2", "the parser unescapes in a single pass", len(subs_in_reader) == 1, f"{len(subs_in_reader)} regex substitution(s) on the parse path", uf, unsl_call, "single unescape pass")
    # the decoded result: find the expression containing the sub call up to .decode(...)
    outer = _outer_chain(unsl_call)
    dec = [c for a, c in astq.method_chain(outer) if a == "decode"]
    if not dec:
        # via a local: data = RE.sub(...); return data.decode(...)
        for c in astq.method_calls(uf.node, "decode"):
            ex = U.expand(c, c)
            if any(isinstance(x, ast.Call) and isinstance(x.func, ast.Attribute) and x.func.attr == "sub" for x in ast.walk(ex)):
                dec = [c]
    ctx.ob("R13.2", "parser decodes unescaped bytes as UTF-8", bool(dec) and _decode_is_utf8(dec[-1]), "unslash result .decode() with default/utf-8 codec", uf, unsl_call, "parser decode")
    _reader_rules(ctx, sparse, uf, unsl_call)

    # ---- R13.3 -----------------------------------------------------
    NQ, _rep = single_class(nq, 256)
    NQ_full, _ = single_class(nq, 0x3000)
    is_full = fcall.func.attr == "fullmatch"  # type: ignore[attr-defined]
    ctx.ob("R13.3", "fast path uses fullmatch", is_full, f"{nq_name}.{fcall.func.attr}(value)", qf, fcall, "fast path match kind")  # type: ignore[attr-defined]
    # the escape runs exactly when the value does NOT match; when it matches the value is passed on unchanged
    k_fast, p_fast = canon(ft.ast)
    g_sub = guard_set(Q.cfg, Q.cfg.node_of(sub_call))
    # truth of "matches": the canonical key may be `<call>` (truthy = match) or `<call> is None` (true = no match)
    matches_when = (not p_fast) if k_fast.endswith(" is None") else p_fast  # value of key meaning "matched" ... see below
    key_true_means_match = not k_fast.endswith(" is None")
    quoted_on_nonmatch = (k_fast, not key_true_means_match) in g_sub
    ctx.ob("R13.3", "escaping happens exactly on the non-matching edge", quoted_on_nonmatch, f"guards of the substitution: {sorted(g_sub)}", qf, ft.ast, "fast path polarity")
    # label of the test's edge taken when the value matches
    match_label = "T" if (key_true_means_match == p_fast) else "F"
    nonmatch_label = "F" if match_label == "T" else "T"
    if qf is dump:
        # on the matching edge neither the substitution nor any rebinding of the value is reachable before the pair is built
        r_ = Q.cfg.reach(avoid_edges=[(ft, nonmatch_label)])
        rebinds = [Q.cfg.node_of(s_) for s_, _ in astq.assigns_to(qf.node, vname or "value")]
        unchanged = Q.cfg.node_of(sub_call).id not in r_ and not any(n_ is not None and n_.id in r_ for n_ in rebinds)
        npaths = "reachability"
    else:
        outs = simulate(Q.cfg, lambda k: (key_true_means_match if k == k_fast else None))
        unchanged = bool(outs) and all(o.kind == "return" and astq.is_name(o.value, vname) for o in outs)
        npaths = f"{len(outs)} path(s)"
    ctx.ob("R13.3", "a matching value is emitted unchanged", unchanged, f"matching edge: {npaths}", qf, ft.ast, "fast path passes value through")
    ctx.ob("R13.3", "fast path class is ASCII-only", bool(nq.flags & re.A) and all(c < 128 for c in NQ_full), f"{nq_name} flags={nq.flags}", qf, fcall, "fast path ascii")
    extra = sorted(NQ - COOKIE_OCTETS)
    ctx.ob("R13.3", "fast path class within cookie-octets", not extra, f"{nq_name} admits {len(NQ)} byte values; outside cookie-octets: {[hex(x) for x in extra]}", qf, fcall, "fast path subset")

    # ---- R13.4 -----------------------------------------------------
    hi = [b for b in range(0x80, 0x100) if b not in ESC]
    ctx.ob("R13.4", "high bytes escaped", not hi, f"{len(hi)} bytes >= 0x80 outside {esc_name}", dump, None, "high bytes")
    ctx.ob("R13.4", "substitution runs over UTF-8 bytes of the value", bool(enc_ok and value_is_value), f"`{norm(enc_arg)}`", qf, sub_call, "utf8 encode")
    # the value that leaves the quoting code on the non-matching edge is '"' + <sub(...)>.decode('ascii') + '"'
    wrapped_ok = False
    fact = "no quoted result found"
    cands: list[tuple[ast.AST, ast.AST]] = []
    for st in walk_no_nested(qf.node):
        if isinstance(st, ast.Return) and st.value is not None:
            cands.append((st.value, st))
        if isinstance(st, ast.Assign) and len(st.targets) == 1 and isinstance(st.targets[0], ast.Name):
            cands.append((st.value, st))
    for e, st in cands:
        ex = Q.expand(e, st)
        inner = _is_quote_wrapped(ex)
        if inner is None:
            continue
        ch = astq.method_chain(inner)
        names_ = [a for a, _ in ch]
        if "sub" in names_ and "decode" in names_ and names_.index("sub") < names_.index("decode"):
            d = dict(ch)["decode"]
            wrapped_ok = bool(d.args) and astq.const_str(d.args[0]) in ("ascii", "us-ascii")
            fact = f"`{norm(ex)[:120]}`"
    ctx.ob("R13.4", "escaped value is decoded as ASCII and wrapped in double quotes", wrapped_ok, fact, qf, sub_call, "ascii decode and quote wrap")
    # in dump_cookie the pair uses the (possibly quoted) value and nothing else rebinds it
    binds = astq.assigns_to(fn, "value")
    if qf is dump:
        quoting_if = astq.enclosing(sub_call, (ast.If,))
        outside = [s for s, _ in binds if quoting_if is None or not (quoting_if.lineno <= s.lineno <= (quoting_if.end_lineno or 0))]
    else:
        outside = [s for s, v in binds if not (isinstance(v, ast.Call) and dotted(v.func) == qf.name)]
    ctx.ob("R13.4", "value rebound only by the quoting code", not outside and (qf is dump or len(binds) == 1), f"{len(binds)} bindings of value in dump_cookie, {len(outside)} outside the quoting code", dump, fn, "value rebinding")

    # ---- R13.5 -----------------------------------------------------
    loop = None
    for nnode in ast.walk(fn):
        if isinstance(nnode, ast.For) and isinstance(nnode.iter, ast.Tuple) and all(isinstance(e, ast.Tuple) and len(e.elts) == 2 for e in nnode.iter.elts):
            loop = nnode
    if loop is None:
        raise AnalysisError("dump_cookie: attribute loop over a literal tuple of pairs not found")
    names = [astq.const_str(e.elts[0]) for e in loop.iter.elts]  # type: ignore[attr-defined]
    ctx.ob("R13.5", "attribute names and order", names == ATTR_ORDER, f"literal tuple names {names}", dump, loop, "attribute tuple")
    vals = [dotted(e.elts[1]) for e in loop.iter.elts]  # type: ignore[attr-defined]
    expect_vals = ["domain", "expires", "max_age", "secure", "httponly", "path", "samesite", "partitioned"]
    ctx.ob("R13.5", "attribute values wired to their parameters", vals == expect_vals, f"values {vals}", dump, loop, "attribute wiring")
    first = None
    for st, v in astq.assigns_to(fn, "buf"):
        if isinstance(v, ast.List) and len(v.elts) == 1 and isinstance(v.elts[0], ast.JoinedStr):
            first = v.elts[0]
    pair_ok = False
    if first is not None:
        ps = first.values
        pair_ok = len(ps) == 3 and astq.const_str(ps[1]) == "=" and isinstance(ps[2], ast.FormattedValue) and astq.is_name(ps[2].value, "value")
    ctx.ob("R13.5", "pair emitted first as key=value", pair_ok, "buf = [f'{key...}={value}']", dump, fn, "pair first")
    joins = [c for c in astq.method_calls(fn, "join") if astq.const_str(c.func.value) == "; " and c.args and astq.is_name(c.args[0], "buf")]  # type: ignore[attr-defined]
    ctx.ob("R13.5", "attributes joined with '; '", len(joins) == 1, f"{len(joins)} `'; '.join(buf)`", dump, fn, "join")
    ok_body, body_fact = _attr_loop_body_ok(dump, loop)
    ctx.ob("R13.5", "loop body emits bare name / name=value", ok_body, body_fact, dump, loop, "attribute loop body")

    ss = [(s, v) for s, v in astq.assigns_to(fn, "samesite")]
    titled = any(isinstance(v, ast.Call) and isinstance(v.func, ast.Attribute) and v.func.attr == "title" and astq.is_name(v.func.value, "samesite") for _, v in ss)
    chk = None
    dcfg = cfg_of(dump)
    for t in dcfg.tests():
        if t.kind != "test":
            continue
        k, p = canon(t.ast)
        if k.startswith("samesite in "):
            cmp_ = t.ast
            while isinstance(cmp_, ast.UnaryOp):
                cmp_ = cmp_.operand
            try:
                allowed = set(folder.expr(dump.module, cmp_.comparators[0]))
            except Unfoldable:
                allowed = None
            bad_label = "F" if p else "T"  # edge on which the value is NOT in the set
            succ = dcfg.succ(t, bad_label)
            raises = bool(succ) and all(isinstance(s_.ast, ast.Raise) and astq.raised_name(s_.ast) == "ValueError" for s_ in succ)
            chk = (t, allowed, raises)
    ok = bool(titled and chk and chk[1] == {"Strict", "Lax", "None"} and chk[2] and chk[0].lineno < loop.lineno)
    ctx.ob("R13.5", "SameSite normalised and validated before use", ok, f"title()={titled}, allowed={chk[1] if chk else None}, invalid raises ValueError={chk[2] if chk else None}", dump, chk[0].ast if chk else fn, "samesite check")
    late = [s for s, v in ss if chk and s.lineno > chk[0].lineno]
    ctx.ob("R13.5", "SameSite not rebound after validation", not late, f"{len(late)} later bindings", dump, fn, "samesite rebinding")

    pq = None
    for s, v in astq.assigns_to(fn, "path"):
        if isinstance(v, ast.Call) and (dotted(v.func) or "").rsplit(".", 1)[-1] == "quote" and v.args and astq.is_name(v.args[0], "path"):
            pq = v
    if pq is None:
        ctx.ob("R13.5", "path percent-quoted", False, "no `path = quote(path, safe=...)`", dump, fn, "path quote")
    else:
        safe_e = astq.arg_or_kw(pq, 1, "safe")
        safe = folder.expr(dump.module, safe_e) if safe_e is not None else "/"
        bad = sorted(set(safe) & set('; "\\\t\r\n'))
        nonascii = [c for c in safe if not (0x21 <= ord(c) <= 0x7E)]
        ctx.ob("R13.5", "path safe set excludes ';' and separators", not bad and not nonascii, f"safe={safe!r} bad={bad + nonascii}", dump, pq, "path quote")
        only_quote = all(v is pq or s.lineno < pq.lineno for s, v in astq.assigns_to(fn, "path"))
        ctx.ob("R13.5", "path not rebound after quoting", only_quote, "", dump, fn, "path rebinding")
    dq = False
    for s, v in astq.assigns_to(fn, "domain"):
        ch = astq.method_chain(v) if v is not None else []
        names_ = [a for a, _ in ch]
        if "encode" in names_ and "decode" in names_:
            e = dict(ch)["encode"]
            d = dict(ch)["decode"]
            dq = bool(e.args and astq.const_str(e.args[0]) == "idna" and d.args and astq.const_str(d.args[0]) == "ascii" and names_.index("encode") < names_.index("decode"))
            dq = dq and astq.is_name(astq.chain_root(v), "domain")
    ctx.ob("R13.5", "domain IDNA-encoded to ASCII", dq, "domain = domain...encode('idna').decode('ascii')", dump, fn, "domain idna")
    ma = False
    for nnode in ast.walk(fn):
        if isinstance(nnode, ast.If) and isinstance(nnode.test, ast.Call) and dotted(nnode.test.func) == "isinstance" and astq.is_name(nnode.test.args[0], "max_age"):
            for st in nnode.body:
                if isinstance(st, ast.Assign) and astq.is_name(st.targets[0], "max_age") and isinstance(st.value, ast.Call) and dotted(st.value.func) == "int":
                    ma = "total_seconds" in ast.unparse(st.value)
    ctx.ob("R13.5", "timedelta max_age -> int seconds", ma, "max_age = int(max_age.total_seconds())", dump, fn, "max_age")
    ps_ok = False
    for nnode in ast.walk(fn):
        if isinstance(nnode, ast.If) and astq.is_name(nnode.test, "partitioned"):
            for st in nnode.body:
                if isinstance(st, ast.Assign) and astq.is_name(st.targets[0], "secure") and isinstance(st.value, ast.Constant) and st.value.value is True:
                    ps_ok = st.lineno < loop.lineno
    ctx.ob("R13.5", "partitioned implies secure", ps_ok, "if partitioned: secure = True (before the attribute loop)", dump, fn, "partitioned secure")
    ex_ok = any(isinstance(s, ast.Assign) and astq.is_name(s.targets[0], "expires") and isinstance(s.value, ast.Call) and dotted(s.value.func) == "http_date" and s.value.args and astq.is_name(s.value.args[0], "expires") and (("isinstance(expires, str)", False) in guard_set(dcfg, dcfg.node_of(s))) for s in ast.walk(fn))
    ctx.ob("R13.5", "non-str expires formatted by http_date", ex_ok, "expires = http_date(expires) unless already a str", dump, fn, "expires")

    # ---- R13.6 -----------------------------------------------------
    hp = repo.func("http.parse_cookie")
    ctx.saw(hp)
    li = hp.module.local_imports(hp.node)
    reach = False
    for r in astq.returns_of(hp.node):
        if isinstance(r.value, ast.Call):
            d = dotted(r.value.func)
            if d and repo.resolve(hp.module, d, li) == "werkzeug.sansio.http.parse_cookie":
                reach = True
    rets = astq.returns_of(hp.node)
    ctx.ob("R13.6", "http.parse_cookie delegates to the sans-io parser", reach and len(rets) == 1, f"{len(rets)} return(s)", hp, hp.node, "delegation")
    rq = repo.func("sansio.request.Request.cookies")
    ctx.saw(rq)
    ok = False
    for r in astq.returns_of(rq.node):
        if isinstance(r.value, ast.Call):
            d = dotted(r.value.func)
            if d and repo.resolve(rq.module, d) in ("werkzeug.http.parse_cookie", "werkzeug.sansio.http.parse_cookie"):
                ok = True
    ctx.ob("R13.6", "Request.cookies parses with parse_cookie", ok, "return parse_cookie(...)", rq, rq.node, "request cookies")
    sc = repo.func("sansio.response.Response.set_cookie")
    ctx.saw(sc)
    dcalls = astq.name_calls(sc.node, "dump_cookie")
    fwd_ok = False
    fact = "no dump_cookie call"
    if len(dcalls) == 1:
        c = dcalls[0]
        want = ["value", "max_age", "expires", "path", "domain", "secure", "httponly", "samesite", "partitioned"]
        missing = [w for w in want if not astq.is_name(astq.kwarg(c, w), w)]
        fwd_ok = not missing and c.args and astq.is_name(c.args[0], "key")
        fact = f"missing/incorrect keywords: {missing}"
        hdr = astq.parent(c)
        fwd_ok = fwd_ok and isinstance(hdr, ast.Call) and isinstance(hdr.func, ast.Attribute) and hdr.func.attr == "add" and astq.const_str(hdr.args[0]) == "Set-Cookie"
    ctx.ob("R13.6", "set_cookie forwards every attribute", bool(fwd_ok), fact, sc, sc.node, "set_cookie forwarding")
    tc = repo.func("test.Cookie._from_response_header")
    ctx.saw(tc)
    parts = [c for c in astq.method_calls(tc.node, "partition") + astq.method_calls(tc.node, "split") if c.args and astq.const_str(c.args[0]) == ";" and astq.is_name(c.func.value, "header")]  # type: ignore[attr-defined]
    first_cut = bool(parts) and all((c.func.attr == "partition") or (len(c.args) == 2 and norm(c.args[1]) == "1") for c in parts)  # type: ignore[attr-defined]
    # the cookie pair handed to parse_cookie / the key=value split is the part before the first ';' only
    pc_calls = astq.name_calls(tc.node, "parse_cookie")
    T = Fn(tc)
    pair_only = bool(pc_calls) and all(_is_first_piece(T.expand(c.args[0], c)) or _is_first_piece_name(T, c.args[0], c) for c in pc_calls if c.args)
    ctx.ob("R13.6", "test client cuts the pair at the first ';' (safe because ';' is escaped) and parses only that pair", first_cut and pair_only and 0x3B in ESC, f"first-';' cut: {first_cut}; parse_cookie gets the pair only: {pair_only}; 0x3b escaped: {0x3B in ESC}", tc, tc.node, "client split")
    # parameters are taken from the remainder only (the pair itself is never read as an attribute)
    loops = [n for n in ast.walk(tc.node) if isinstance(n, (ast.For, ast.comprehension))]
    over = [norm(T.expand(l.iter, l.iter if isinstance(l, ast.comprehension) else l)) for l in loops]
    rest_only = bool(over) and all(("partition(';')[2]" in o) or o.startswith("header.partition(';')[2]") or ("parameters_str" in o) or (".split(';')[1:]" in o) for o in over)
    ctx.ob("R13.6", "test client reads attributes from the part after the pair only", rest_only, f"attribute loop(s) over {over}", tc, tc.node, "client attributes source")


def _is_first_piece(e: ast.AST) -> bool:
    t = norm(e)
    return t in ("header.partition(';')[0]", "header.split(';', 1)[0]", "header.split(';')[0]")


def _is_first_piece_name(T: Fn, e: ast.AST, at: ast.AST) -> bool:
    """`header, _, rest = header.partition(';')` then parse_cookie(header)"""
    if not isinstance(e, ast.Name):
        return False
    node = T.cfg.node_of(at)
    defs = T.rd.reaching(node, e.id) if node is not None else set()
    return bool(defs) and all(d.index == 0 and d.value is not None and norm(d.value) in ("header.partition(';')", "header.split(';', 1)") for d in defs)


def _reader_rules(ctx: Ctx, sparse: FuncInfo, uf: FuncInfo, unsl_call: ast.Call) -> None:
    """the unescape is applied to quoted values only, and its result is what gets stored."""
    P = Fn(sparse)
    appends = [c for c in astq.method_calls(sparse.node, "append") if c.args and isinstance(c.args[0], ast.Tuple) and len(c.args[0].elts) == 2]
    if len(appends) != 1:
        raise AnalysisError("sansio.http.parse_cookie: expected one out.append((key, value))")
    app = appends[0]
    vexpr = app.args[0].elts[1]
    # the statement in parse_cookie that applies the unescape: contains the sub call, or calls the helper that does
    def applies(st: ast.AST) -> bool:
        for x in ast.walk(st):
            if x is unsl_call:
                return True
            if isinstance(x, ast.Call) and uf is not sparse and dotted(x.func) == uf.name:
                return True
        return False

    apply_stmts = [s for s in walk_no_nested(sparse.node) if isinstance(s, ast.Assign) and applies(s)]
    if len(apply_stmts) != 1:
        raise AnalysisError(f"sansio.http.parse_cookie: expected one assignment applying the unescape, found {len(apply_stmts)}")
    ast_ = apply_stmts[0]
    an = P.cfg.node_of(ast_)
    g = guard_set(P.cfg, an)
    tgt = ast_.targets[0]
    vname = tgt.id if isinstance(tgt, ast.Name) else None
    # quoted-only: length >= 2 and both ends are '"'
    src = None
    for x in ast.walk(ast_.value):
        if isinstance(x, ast.Subscript) and norm(x.slice) == "1:-1" and isinstance(x.value, ast.Name):
            src = x.value.id
        if isinstance(x, ast.Call) and uf is not sparse and dotted(x.func) == uf.name and x.args and isinstance(x.args[0], ast.Name):
            src = x.args[0].id
    for lv in (1, 2, 3):
        if src is not None:
            break
        for x in ast.walk(P.expand(ast_.value, ast_, levels=lv)):
            if isinstance(x, ast.Subscript) and norm(x.slice) == "1:-1" and isinstance(x.value, ast.Name):
                src = x.value.id
    if src is None:
        raise AnalysisError("sansio.http.parse_cookie: cannot identify the quoted value that is unescaped")
    keys = {k for k, v in g if v}
    len_ok = (f"len({src}) < 2", False) in g or (f"1 < len({src})", True) in g
    first_q = any(("[0]" in k or "startswith('\"')" in k) and src in k and "'\"'" in k for k in keys)
    last_q = any(("[-1]" in k or "endswith('\"')" in k) and src in k and "'\"'" in k for k in keys)
    ctx.ob("R13.2", "the parser unescapes quoted values only (length >= 2, first and last character a double quote)", bool(src) and len_ok and first_q and last_q, f"guards of the unescape on `{src}`: {sorted(k for k in keys)}", sparse, ast_, "unescape quoted only")
    post_ok = isinstance(vexpr, ast.Name)
    fact = f"stored value expression `{norm(vexpr)}`"
    if post_ok:
        defs = P.rd.reaching(P.cfg.node_of(app), vexpr.id)
        tests_here = [t for t, _ in P.cfg.guards(an) if t.kind == "test"]
        ref = max(tests_here, key=lambda t_: (t_.lineno, t_.id)) if tests_here else None  # the innermost guard of the unescape
        for d in defs:
            if d.stmt is ast_:
                continue
            before = ref is not None and d in P.rd.reaching(ref, vexpr.id)
            if not before:
                post_ok = False
                fact = f"`{vexpr.id}` is rebound after unescaping: {norm(d.stmt) if d.stmt is not None else d.kind}"
        if vname != vexpr.id:
            post_ok = False
            fact = f"the unescaped text is bound to `{vname}` but `{vexpr.id}` is stored"
    ctx.ob("R13.2", "parsed value is stored exactly as unescaped", post_ok, fact, sparse, app, "value stored as unescaped")


def _outer_chain(call: ast.Call) -> ast.AST:
    cur: ast.AST = call
    while True:
        p = astq.parent(cur)
        if isinstance(p, ast.Attribute) and isinstance(astq.parent(p), ast.Call) and astq.parent(p).func is p:  # type: ignore[union-attr]
            cur = astq.parent(p)  # type: ignore[assignment]
        else:
            return cur


def _decode_is_utf8(c: ast.Call) -> bool:
    if not c.args:
        enc = astq.kwarg(c, "encoding")
        return enc is None or astq.const_str(enc) in ("utf-8", "utf8")
    return astq.const_str(c.args[0]) in ("utf-8", "utf8")


def _unslash_shape(rf: FuncInfo) -> tuple[bool, str]:
    """v = m.group(1); a single character is returned as is; otherwise int(v, 8) becomes one byte."""
    fn = rf.node
    R = Fn(rf)
    g1 = [c for c in astq.calls(fn) if isinstance(c.func, ast.Attribute) and c.func.attr == "group" and c.args and isinstance(c.args[0], ast.Constant) and c.args[0].value == 1]
    vnames = {s.targets[0].id for s in walk_no_nested(fn) if isinstance(s, ast.Assign) and isinstance(s.targets[0], ast.Name) and any(c is s.value for c in g1)}
    octal_ok = False
    lit_ok = False
    for c in astq.calls(fn):
        if dotted(c.func) == "int" and len(c.args) == 2 and isinstance(c.args[1], ast.Constant) and c.args[1].value == 8 and isinstance(c.args[0], ast.Name) and c.args[0].id in vnames:
            v = c.args[0].id
            p = astq.parent(c)
            pp = astq.parent(p) if p is not None else None
            one_byte = (isinstance(p, ast.Attribute) and p.attr == "to_bytes" and isinstance(pp, ast.Call) and pp.args and isinstance(pp.args[0], ast.Constant) and pp.args[0].value == 1) or (isinstance(p, (ast.List, ast.Tuple)) and len(p.elts) == 1 and isinstance(pp, ast.Call) and dotted(pp.func) == "bytes")
            g = guard_set(R.cfg, R.cfg.node_of(c))
            multi = (f"1 == len({v})", False) in g or (f"len({v}) == 1", False) in g or (f"1 < len({v})", True) in g
            octal_ok = bool(one_byte and multi)
            # the single character is returned unchanged on the other edge
            for r in astq.returns_of(fn):
                if astq.is_name(r.value, v):
                    gr = guard_set(R.cfg, R.cfg.node_of(r))
                    lit_ok = lit_ok or (f"1 == len({v})", True) in gr or (f"len({v}) == 1", True) in gr or not any(k.startswith(("1 == len", "len(")) for k, _ in gr) and multi
    ok = bool(g1) and octal_ok and lit_ok
    return ok, f"group(1) read: {bool(g1)}; three digits -> int(v, 8) as one byte, only when len(v) != 1: {octal_ok}; a single character returned as is: {lit_ok}"


def _attr_loop_body_ok(dump: FuncInfo, loop: ast.For) -> tuple[bool, str]:
    """None / False are skipped, True emits the bare name, anything else emits name=value (decision table over the loop body)."""
    k, v = [e.id for e in loop.target.elts]  # type: ignore[attr-defined]
    cfg = cfg_of(dump)
    heads = cfg.by_ast.get(id(loop))
    if not heads:
        return False, "loop not in CFG"
    head = heads[0]
    body_ids = {id(x) for s in loop.body for x in ast.walk(s)}
    KN, KF, KT = canon(ast.parse(f"{v} is None", mode="eval").body)[0], canon(ast.parse(f"{v} is False", mode="eval").body)[0], canon(ast.parse(f"{v} is True", mode="eval").body)[0]
    rows = {"None": {KN: True, KF: False, KT: False}, "False": {KN: False, KF: True, KT: False}, "True": {KN: False, KF: False, KT: True}, "other": {KN: False, KF: False, KT: False}}
    want = {"None": [], "False": [], "True": [f"buf.append({k})"], "other": [f"buf.append(f'{{{k}}}={{{v}}}')"]}
    facts = []
    ok = True
    for name, val in rows.items():
        start = cfg.succ(head, "T")
        if not start:
            return False, "no loop body"
        # walk one iteration
        acts: list[str] = []
        n = start[0]
        seen = set()
        unknown = False
        while n is not head and n.id not in seen and n.ast is not None and id(n.ast) in body_ids:
            seen.add(n.id)
            if n.kind == "test":
                kk, pp = canon(n.ast)
                if kk not in val:
                    unknown = True
                    break
                nxt = cfg.succ(n, "T" if val[kk] == pp else "F")
            else:
                if isinstance(n.ast, ast.Expr) and isinstance(n.ast.value, ast.Call) and norm(n.ast.value.func) == "buf.append":
                    acts.append(norm(n.ast.value))
                nxt = [s for s, l in n.succs if l != "exc"]
            if not nxt:
                break
            n = nxt[0]
        if unknown or acts != want[name]:
            ok = False
        facts.append(f"{name}: {acts}")
    return ok, "; ".join(facts)
