"""C13 - cookie values round-trip and cannot inject attributes.

All tables are folded from the source (E3/E4) and compared, exhaustively over
the 256 byte values, with the RFC 6265 section 4.1.1 cookie-octet table.
"""

from __future__ import annotations

import ast

from .. import astq
from ..fold import Folder, RegexConst, Unfoldable, classes_in, matches_const, single_class
from ..loader import AnalysisError, dotted, norm
from ..report import Ctx

LEVEL_TEXT = (
    "Static decision of the structural clauses of C13 on /repo's current source: (R13.1) the escape class used by "
    "dump_cookie contains every byte that is not an RFC 6265 cookie-octet; (R13.2) the escape map is total over that "
    "class, pure ASCII, backslash + octal/self, and is inverted by the parser's unslash regex and replacement function; "
    "(R13.3) the unquoted fast path admits only cookie-octets (fullmatch, re.ASCII); (R13.4) escaped text is decoded as "
    "ASCII and wrapped in quotes; (R13.5) attribute names and order are literal, SameSite is validated, path and domain "
    "pass their encoders, partitioned implies secure; (R13.6) both request-side parsers reach the sans-io parser and "
    "Response.set_cookie forwards every attribute. Exhaustive over the 256 byte values; it decides these clauses, not "
    "the round-trip law over all of Unicode (which follows from them plus UTF-8 being a bijection, not checked)."
)
TRUSTED = ["CPython ast and re._parser", "RFC 6265 section 4.1.1 cookie-octet table embedded as a constant", "urllib.parse.quote escapes every non-safe non-alphanumeric character", "the idna codec outputs ASCII"]
ASSUMPTIONS = ["cookie key is a token (as the property states)", "Expires passed as a raw str by the application is not constrained"]

# RFC 6265 4.1.1: cookie-octet = %x21 / %x23-2B / %x2D-3A / %x3C-5B / %x5D-7E
COOKIE_OCTETS = frozenset([0x21, *range(0x23, 0x2C), *range(0x2D, 0x3B), *range(0x3C, 0x5C), *range(0x5D, 0x7F)])
ATTR_ORDER = ["Domain", "Expires", "Max-Age", "Secure", "HttpOnly", "Path", "SameSite", "Partitioned"]


def _fold_name_expr(ctx: Ctx, folder: Folder, fi, expr: ast.AST):
    d = dotted(expr)
    if d is None:
        raise AnalysisError(f"{fi.fq}: cannot resolve {ast.unparse(expr)}")
    li = fi.module.local_imports(fi.node)
    fq = ctx.repo.resolve(fi.module, d, li)
    mn, _, nm = fq.rpartition(".")
    return folder.name(ctx.repo.module(mn), nm), nm


def run(ctx: Ctx) -> None:
    repo = ctx.repo
    folder = Folder(repo)
    dump = repo.func("http.dump_cookie")
    ctx.saw(dump)
    fn = dump.node

    ctx.rule("R13.1", "escape class ESC (regex substituted over value.encode() in dump_cookie) contains every byte that is not an RFC 6265 cookie-octet")
    ctx.rule("R13.2", "escape map is total over ESC; each image is ASCII, backslash+self for quote/backslash else backslash+3 octal digits (first <= 3) of the byte; each image is matched whole by the parser's unslash regex and mapped back to the byte by its replacement function")
    ctx.rule("R13.3", "the no-quote fast path is a fullmatch of a re.ASCII class contained in the cookie-octets")
    ctx.rule("R13.4", "escaped bytes are decoded as ASCII and wrapped in double quotes; ESC covers 0x80-0xFF")
    ctx.rule("R13.5", "attribute loop iterates the literal tuple Domain, Expires, Max-Age, Secure, HttpOnly, Path, SameSite, Partitioned; SameSite title-cased and validated; path quoted with ';' unsafe; domain IDNA->ASCII; timedelta max_age -> int; partitioned => secure")
    ctx.rule("R13.6", "http.parse_cookie and Request.cookies reach sansio.http.parse_cookie; Response.set_cookie forwards every attribute to dump_cookie; test client splits the pair at the first ';'")

    # ---- slots from dump_cookie -------------------------------------
    # the guarded quoting block:  if not NQ.fullmatch(value): value = ESC.sub(f, value.encode()).decode("ascii"); value = f'"{value}"'
    quoting_if = None
    for n in ast.walk(fn):
        if isinstance(n, ast.If):
            for c in astq.calls(n.test):
                if isinstance(c.func, ast.Attribute) and c.func.attr in ("fullmatch", "match", "search") and c.args and astq.is_name(c.args[0], "value"):
                    quoting_if = (n, c)
    if quoting_if is None:
        raise AnalysisError("dump_cookie: no `if <regex>.<match>(value)` guard found (fast-path slot)")
    if_node, nq_call = quoting_if
    nq, nq_name = _fold_name_expr(ctx, folder, dump, nq_call.func.value)  # type: ignore[attr-defined]
    if not isinstance(nq, RegexConst):
        raise AnalysisError(f"{nq_name} does not fold to a regex")

    sub_call = None
    for c in astq.method_calls(if_node, "sub"):
        if len(c.args) >= 2:
            sub_call = c
    if sub_call is None:
        raise AnalysisError("dump_cookie: no <regex>.sub(...) inside the quoting branch (escape slot)")
    esc, esc_name = _fold_name_expr(ctx, folder, dump, sub_call.func.value)  # type: ignore[attr-defined]
    if not isinstance(esc, RegexConst) or not isinstance(esc.pattern, bytes):
        raise AnalysisError(f"{esc_name} does not fold to a bytes regex")
    # replacement: lambda m: MAP[m.group()]
    repl = sub_call.args[0]
    map_name = None
    if isinstance(repl, ast.Lambda) and isinstance(repl.body, ast.Subscript):
        sl = repl.body.slice
        if isinstance(sl, ast.Call) and isinstance(sl.func, ast.Attribute) and sl.func.attr == "group" and not sl.args:
            map_name = repl.body.value
    if map_name is None:
        raise AnalysisError("dump_cookie: replacement is not `lambda m: MAP[m.group()]` (map slot)")
    emap, emap_name = _fold_name_expr(ctx, folder, dump, map_name)
    if not isinstance(emap, dict):
        raise AnalysisError(f"{emap_name} does not fold to a dict")

    ESC, rep = single_class(esc, 256)
    if rep != (1, 1):
        raise AnalysisError(f"{esc_name} is not a single-byte class (repeat {rep})")

    # ---- R13.1 -----------------------------------------------------
    n131 = 0
    for b in range(256):
        if b in COOKIE_OCTETS:
            continue
        n131 += 1
        ctx.ob(
            "R13.1",
            f"byte 0x{b:02x} escaped",
            b in ESC,
            f"0x{b:02x} is not a cookie-octet and is {'in' if b in ESC else 'NOT in'} {esc_name} = {esc.pattern!r}",
            dump,
            sub_call,
            f"byte 0x{b:02x}",
        )
    ctx.floor("R13.1", "non-cookie-octet bytes", n131, 256 - len(COOKIE_OCTETS))

    # ---- R13.2 -----------------------------------------------------
    sparse = repo.func("sansio.http.parse_cookie")
    ctx.saw(sparse)
    unsl_call = None
    for c in astq.method_calls(sparse.node, "sub"):
        unsl_call = c
    if unsl_call is None:
        raise AnalysisError("sansio.http.parse_cookie: no <regex>.sub(...) (unslash slot)")
    unsl, unsl_name = _fold_name_expr(ctx, folder, sparse, unsl_call.func.value)  # type: ignore[attr-defined]
    if not isinstance(unsl, RegexConst):
        raise AnalysisError(f"{unsl_name} does not fold to a regex")
    repl_fn_name = dotted(unsl_call.args[0])
    repl_fi = sparse.module.functions.get(repl_fn_name or "")
    if repl_fi is None:
        raise AnalysisError("unslash replacement function not found")
    ctx.saw(repl_fi)
    shape_ok, shape_fact = _unslash_shape(repl_fi.node)
    ctx.ob("R13.2", "unslash replacement shape", shape_ok, shape_fact, repl_fi, repl_fi.node, "replacement shape")
    import re as _re

    unsl_c = _re.compile(unsl.pattern, unsl.flags)
    n = 0
    for b in sorted(ESC):
        key = bytes([b])
        n += 1
        if key not in emap:
            ctx.ob("R13.2", f"map total at 0x{b:02x}", False, f"{esc_name} matches 0x{b:02x} but {emap_name} has no entry: KeyError inside re.sub", dump, sub_call, f"map key 0x{b:02x}")
            continue
        img = emap[key]
        good_form = isinstance(img, bytes) and all(c < 128 for c in img) and (
            (b in (0x22, 0x5C) and img == b"\\" + key) or (len(img) == 4 and img[:1] == b"\\" and img[1:].isdigit() and img[1] <= 0x33 and all(0x30 <= c <= 0x37 for c in img[1:]) and int(img[1:], 8) == b)
        )
        inv = False
        if isinstance(img, bytes):
            m = unsl_c.fullmatch(img)
            if m is not None and shape_ok:
                g = m.group(1)
                back = g if len(g) == 1 else bytes([int(g, 8)])
                inv = back == key
        ctx.ob(
            "R13.2",
            f"escape of 0x{b:02x}",
            good_form and inv,
            f"{emap_name}[0x{b:02x}] = {img!r}: form {'ok' if good_form else 'BAD'}, {'inverted' if inv else 'NOT inverted'} by {unsl_name} = {unsl.pattern!r}",
            dump,
            sub_call,
            f"map image 0x{b:02x}",
        )
    ctx.floor("R13.2", "escaped bytes with map images", n, 150)
    # raw bytes inside the quotes (cookie-octets and whatever R13.1 leaves raw) must pass the unslash regex untouched
    raw = set(range(256)) - ESC
    ctx.ob("R13.2", "backslash never raw", 0x5C not in raw, "backslash is in the escape class, so no raw byte can start an escape sequence in the parser", dump, sub_call, "backslash raw")
    # parser applies unslash only to quoted values and decodes leniently
    chain = astq.method_chain(astq.parent(unsl_call) and _outer_chain(unsl_call))
    dec = [c for a, c in chain if a == "decode"]
    ctx.ob("R13.2", "parser decodes unescaped bytes as UTF-8", bool(dec) and _decode_is_utf8(dec[-1]), "unslash result .decode() with default/utf-8 codec", sparse, unsl_call, "parser decode")

    # the value stored for the pair is the unescaped text itself: nothing (strip, replace ...) is applied after unescaping
    from ..cfg import cfg_of as _cfg_of
    from ..dataflow import ReachingDefs as _RD

    pcfg = _cfg_of(sparse)
    prd = _RD(pcfg, sparse.params)
    unsl_stmt = astq.stmt_of(sparse, unsl_call)
    appends = [c for c in astq.method_calls(sparse.node, "append") if c.args and isinstance(c.args[0], ast.Tuple) and len(c.args[0].elts) == 2]
    if len(appends) != 1:
        raise AnalysisError("sansio.http.parse_cookie: expected one out.append((key, value))")
    vexpr = appends[0].args[0].elts[1]
    post_ok = isinstance(vexpr, ast.Name)
    fact = f"stored value expression `{norm(vexpr)}`"
    if post_ok:
        quoted_if = astq.enclosing(unsl_call, (ast.If,))
        defs = prd.reaching(pcfg.node_of(appends[0]), vexpr.id)
        for d in defs:
            if d.stmt is unsl_stmt:
                continue
            # any other definition must already be visible at the quoted-value test (i.e. made before unescaping)
            tn = pcfg.node_of(quoted_if.test) if quoted_if is not None else None
            before = tn is not None and d in prd.reaching(tn, vexpr.id)
            if not before:
                post_ok = False
                fact = f"`{vexpr.id}` is rebound after unescaping: {norm(d.stmt) if d.stmt is not None else d.kind}"
    ctx.ob("R13.2", "parsed value is stored exactly as unescaped", post_ok, fact, sparse, appends[0], "value stored as unescaped")

    # ---- R13.3 -----------------------------------------------------
    NQ, _rep = single_class(nq, 256)
    NQ_full, _ = single_class(nq, 0x3000)
    is_full = nq_call.func.attr == "fullmatch"  # type: ignore[attr-defined]
    import re

    ctx.ob("R13.3", "fast path uses fullmatch", is_full, f"{nq_name}.{nq_call.func.attr}(value)", dump, nq_call, "fast path match kind")  # type: ignore[attr-defined]
    neg = isinstance(if_node.test, ast.UnaryOp) and isinstance(if_node.test.op, ast.Not)
    ctx.ob("R13.3", "quoting branch is the non-matching edge", neg, "escape block guarded by `not <fast path>`", dump, if_node.test, "fast path polarity")
    ctx.ob("R13.3", "fast path class is ASCII-only", bool(nq.flags & re.A) and all(c < 128 for c in NQ_full), f"{nq_name} flags={nq.flags}", dump, nq_call, "fast path ascii")
    extra = sorted(NQ - COOKIE_OCTETS)
    ctx.ob("R13.3", "fast path class within cookie-octets", not extra, f"{nq_name} admits {len(NQ)} byte values; outside cookie-octets: {[hex(x) for x in extra]}", dump, nq_call, "fast path subset")

    # ---- R13.4 -----------------------------------------------------
    hi = [b for b in range(0x80, 0x100) if b not in ESC]
    ctx.ob("R13.4", "high bytes escaped", not hi, f"{len(hi)} bytes >= 0x80 outside {esc_name}", dump, sub_call, "high bytes")
    chain = astq.method_chain(_outer_chain(sub_call))
    dec = [c for a, c in chain if a == "decode"]
    ascii_dec = bool(dec) and dec[-1].args and astq.const_str(dec[-1].args[0]) in ("ascii", "us-ascii")
    ctx.ob("R13.4", "escaped value decoded as ascii", bool(ascii_dec), "`.decode('ascii')` after substitution", dump, sub_call, "ascii decode")
    enc_arg = sub_call.args[1]
    enc_ok = isinstance(enc_arg, ast.Call) and isinstance(enc_arg.func, ast.Attribute) and enc_arg.func.attr == "encode" and astq.is_name(enc_arg.func.value, "value") and (not enc_arg.args or astq.const_str(enc_arg.args[0]) in ("utf-8", "utf8"))
    ctx.ob("R13.4", "substitution runs over UTF-8 bytes of the value", enc_ok, ast.unparse(enc_arg), dump, sub_call, "utf8 encode")
    # quoting:  value = f'"{value}"' inside the branch, after the substitution
    wrapped = False
    for st in if_node.body:
        if isinstance(st, ast.Assign) and astq.is_name(st.targets[0], "value") and isinstance(st.value, ast.JoinedStr):
            parts = st.value.values
            if len(parts) == 3 and astq.const_str(parts[0]) == '"' and astq.const_str(parts[2]) == '"' and isinstance(parts[1], ast.FormattedValue) and astq.is_name(parts[1].value, "value"):
                wrapped = st.lineno > sub_call.lineno
    ctx.ob("R13.4", "escaped value wrapped in double quotes", wrapped, "value = f'\"{value}\"' after the substitution", dump, if_node, "quote wrap")
    # no other rebinding of value, and the pair is emitted as key=value first
    binds = astq.assigns_to(fn, "value")
    outside = [s for s, _ in binds if not (if_node.lineno <= s.lineno <= (if_node.end_lineno or 0))]
    ctx.ob("R13.4", "value rebound only in the quoting branch", not outside, f"{len(binds)} bindings of value, {len(outside)} outside the quoting branch", dump, fn, "value rebinding")

    # ---- R13.5 -----------------------------------------------------
    loop = None
    for nnode in ast.walk(fn):
        if isinstance(nnode, ast.For) and isinstance(nnode.iter, ast.Tuple) and all(isinstance(e, ast.Tuple) and len(e.elts) == 2 for e in nnode.iter.elts):
            loop = nnode
    if loop is None:
        raise AnalysisError("dump_cookie: attribute loop over a literal tuple of pairs not found")
    names = [astq.const_str(e.elts[0]) for e in loop.iter.elts]  # type: ignore[attr-defined]
    ctx.ob("R13.5", "attribute names and order", names == ATTR_ORDER, f"literal tuple names {names}", dump, loop, "attribute tuple")
    vals = [dotted(e.elts[1]) for e in loop.iter.elts]  # type: ignore[attr-defined]
    expect_vals = ["domain", "expires", "max_age", "secure", "httponly", "path", "samesite", "partitioned"]
    ctx.ob("R13.5", "attribute values wired to their parameters", vals == expect_vals, f"values {vals}", dump, loop, "attribute wiring")
    # buf starts with the key=value pair and rv is "; ".join(buf)
    first = None
    for st, v in astq.assigns_to(fn, "buf"):
        if isinstance(v, ast.List) and len(v.elts) == 1 and isinstance(v.elts[0], ast.JoinedStr):
            first = v.elts[0]
    pair_ok = False
    if first is not None:
        ps = first.values
        pair_ok = len(ps) == 3 and astq.const_str(ps[1]) == "=" and isinstance(ps[2], ast.FormattedValue) and astq.is_name(ps[2].value, "value")
    ctx.ob("R13.5", "pair emitted first as key=value", pair_ok, "buf = [f'{key...}={value}']", dump, fn, "pair first")
    joins = [c for c in astq.method_calls(fn, "join") if astq.const_str(c.func.value) == "; " and c.args and astq.is_name(c.args[0], "buf")]  # type: ignore[attr-defined]
    ctx.ob("R13.5", "attributes joined with '; '", len(joins) == 1, f"{len(joins)} `'; '.join(buf)`", dump, fn, "join")
    # loop body: None/False skipped, True -> bare name, else k=v
    ctx.ob("R13.5", "loop body emits bare name / name=value", _attr_loop_body_ok(loop), "skip None/False; True -> k; else f'{k}={v}'", dump, loop, "attribute loop body")

    # SameSite
    ss = [(s, v) for s, v in astq.assigns_to(fn, "samesite")]
    titled = any(isinstance(v, ast.Call) and isinstance(v.func, ast.Attribute) and v.func.attr == "title" and astq.is_name(v.func.value, "samesite") for _, v in ss)
    chk = None
    for nnode in ast.walk(fn):
        if isinstance(nnode, ast.If):
            cp = astq.cmp_parts(nnode.test)
            if cp and astq.is_name(cp[0], "samesite") and isinstance(cp[1], ast.NotIn):
                try:
                    allowed = set(folder.expr(dump.module, cp[2]))
                except Unfoldable:
                    allowed = None
                raises = [astq.raised_name(r) for r in astq.raises_of(nnode)]
                chk = (nnode, allowed, raises)
    ok = bool(titled and chk and chk[1] == {"Strict", "Lax", "None"} and "ValueError" in chk[2] and chk[0].lineno < loop.lineno)
    ctx.ob("R13.5", "SameSite normalised and validated before use", ok, f"title()={titled}, allowed={chk[1] if chk else None}, raises={chk[2] if chk else None}", dump, chk[0] if chk else fn, "samesite check")
    # every rebinding of samesite precedes the check or is the title() one
    late = [s for s, v in ss if chk and s.lineno > chk[0].lineno]
    ctx.ob("R13.5", "SameSite not rebound after validation", not late, f"{len(late)} later bindings", dump, fn, "samesite rebinding")

    # path
    pq = None
    for s, v in astq.assigns_to(fn, "path"):
        if isinstance(v, ast.Call) and (dotted(v.func) or "").rsplit(".", 1)[-1] == "quote" and v.args and astq.is_name(v.args[0], "path"):
            pq = v
    if pq is None:
        ctx.ob("R13.5", "path percent-quoted", False, "no `path = quote(path, safe=...)`", dump, fn, "path quote")
    else:
        safe_e = astq.arg_or_kw(pq, 1, "safe")
        safe = folder.expr(dump.module, safe_e) if safe_e is not None else "/"
        bad = sorted(set(safe) & set('; "\\\t\r\n'))
        nonascii = [c for c in safe if not (0x21 <= ord(c) <= 0x7E)]
        ctx.ob("R13.5", "path safe set excludes ';' and separators", not bad and not nonascii, f"safe={safe!r} bad={bad + nonascii}", dump, pq, "path quote")
        only_quote = all(v is pq or s.lineno < pq.lineno for s, v in astq.assigns_to(fn, "path"))
        ctx.ob("R13.5", "path not rebound after quoting", only_quote, "", dump, fn, "path rebinding")
    # domain
    dq = False
    for s, v in astq.assigns_to(fn, "domain"):
        ch = astq.method_chain(v) if v is not None else []
        names_ = [a for a, _ in ch]
        if "encode" in names_ and "decode" in names_:
            e = dict(ch)["encode"]
            d = dict(ch)["decode"]
            dq = bool(e.args and astq.const_str(e.args[0]) == "idna" and d.args and astq.const_str(d.args[0]) == "ascii" and names_.index("encode") < names_.index("decode"))
            root = astq.chain_root(v)
            dq = dq and astq.is_name(root, "domain")
    ctx.ob("R13.5", "domain IDNA-encoded to ASCII", dq, "domain = domain...encode('idna').decode('ascii')", dump, fn, "domain idna")
    # max_age timedelta
    ma = False
    for nnode in ast.walk(fn):
        if isinstance(nnode, ast.If) and isinstance(nnode.test, ast.Call) and dotted(nnode.test.func) == "isinstance" and astq.is_name(nnode.test.args[0], "max_age"):
            for st in nnode.body:
                if isinstance(st, ast.Assign) and astq.is_name(st.targets[0], "max_age") and isinstance(st.value, ast.Call) and dotted(st.value.func) == "int":
                    ma = "total_seconds" in ast.unparse(st.value)
    ctx.ob("R13.5", "timedelta max_age -> int seconds", ma, "max_age = int(max_age.total_seconds())", dump, fn, "max_age")
    # partitioned => secure
    ps_ok = False
    for nnode in ast.walk(fn):
        if isinstance(nnode, ast.If) and astq.is_name(nnode.test, "partitioned"):
            for st in nnode.body:
                if isinstance(st, ast.Assign) and astq.is_name(st.targets[0], "secure") and isinstance(st.value, ast.Constant) and st.value.value is True:
                    ps_ok = st.lineno < loop.lineno
    ctx.ob("R13.5", "partitioned implies secure", ps_ok, "if partitioned: secure = True (before the attribute loop)", dump, fn, "partitioned secure")
    # expires
    ex_ok = False
    for nnode in ast.walk(fn):
        if isinstance(nnode, ast.If) and "isinstance(expires, str)" in norm(nnode.test):
            for st in nnode.body:
                if isinstance(st, ast.Assign) and astq.is_name(st.targets[0], "expires") and isinstance(st.value, ast.Call) and dotted(st.value.func) == "http_date":
                    ex_ok = True
    ctx.ob("R13.5", "non-str expires formatted by http_date", ex_ok, "expires = http_date(expires) unless already a str", dump, fn, "expires")

    # ---- R13.6 -----------------------------------------------------
    hp = repo.func("http.parse_cookie")
    ctx.saw(hp)
    li = hp.module.local_imports(hp.node)
    reach = False
    for r in astq.returns_of(hp.node):
        if isinstance(r.value, ast.Call):
            d = dotted(r.value.func)
            if d and repo.resolve(hp.module, d, li) == "werkzeug.sansio.http.parse_cookie":
                reach = True
    rets = astq.returns_of(hp.node)
    ctx.ob("R13.6", "http.parse_cookie delegates to the sans-io parser", reach and len(rets) == 1, f"{len(rets)} return(s)", hp, hp.node, "delegation")
    rq = repo.func("sansio.request.Request.cookies")
    ctx.saw(rq)
    ok = False
    for r in astq.returns_of(rq.node):
        if isinstance(r.value, ast.Call):
            d = dotted(r.value.func)
            if d and repo.resolve(rq.module, d) in ("werkzeug.http.parse_cookie", "werkzeug.sansio.http.parse_cookie"):
                ok = True
    ctx.ob("R13.6", "Request.cookies parses with parse_cookie", ok, "return parse_cookie(...)", rq, rq.node, "request cookies")
    sc = repo.func("sansio.response.Response.set_cookie")
    ctx.saw(sc)
    dcalls = astq.name_calls(sc.node, "dump_cookie")
    fwd_ok = False
    fact = "no dump_cookie call"
    if len(dcalls) == 1:
        c = dcalls[0]
        want = ["value", "max_age", "expires", "path", "domain", "secure", "httponly", "samesite", "partitioned"]
        missing = [w for w in want if not astq.is_name(astq.kwarg(c, w), w)]
        fwd_ok = not missing and c.args and astq.is_name(c.args[0], "key")
        fact = f"missing/incorrect keywords: {missing}"
        hdr = astq.parent(c)
        fwd_ok = fwd_ok and isinstance(hdr, ast.Call) and isinstance(hdr.func, ast.Attribute) and hdr.func.attr == "add" and astq.const_str(hdr.args[0]) == "Set-Cookie"
    ctx.ob("R13.6", "set_cookie forwards every attribute", bool(fwd_ok), fact, sc, sc.node, "set_cookie forwarding")
    tc = repo.func("test.Cookie._from_response_header")
    ctx.saw(tc)
    first_stmt = [s for s in tc.node.body if not (isinstance(s, ast.Expr) and isinstance(s.value, ast.Constant))][0]
    part_ok = isinstance(first_stmt, ast.Assign) and isinstance(first_stmt.value, ast.Call) and isinstance(first_stmt.value.func, ast.Attribute) and first_stmt.value.func.attr == "partition" and astq.const_str(first_stmt.value.args[0]) == ";"
    ctx.ob("R13.6", "test client cuts the pair at the first ';' (safe because ';' is escaped)", part_ok and 0x3B in ESC, "header.partition(';') and 0x3b in ESC", tc, first_stmt, "client split")


def _outer_chain(call: ast.Call) -> ast.AST:
    cur: ast.AST = call
    while True:
        p = astq.parent(cur)
        if isinstance(p, ast.Attribute) and isinstance(astq.parent(p), ast.Call) and astq.parent(p).func is p:  # type: ignore[union-attr]
            cur = astq.parent(p)  # type: ignore[assignment]
        else:
            return cur


def _decode_is_utf8(c: ast.Call) -> bool:
    if not c.args:
        enc = astq.kwarg(c, "encoding")
        return enc is None or astq.const_str(enc) in ("utf-8", "utf8")
    return astq.const_str(c.args[0]) in ("utf-8", "utf8")


def _unslash_shape(fn: ast.AST) -> tuple[bool, str]:
    """v = m.group(1); if len(v) == 1: return v; return int(v, 8).to_bytes(1, ...)"""
    src = norm(ast.unparse(fn))
    g1 = any(isinstance(c.func, ast.Attribute) and c.func.attr == "group" and c.args and isinstance(c.args[0], ast.Constant) and c.args[0].value == 1 for c in astq.calls(fn))
    lit = False
    for n in ast.walk(fn):
        if isinstance(n, ast.If):
            cp = astq.cmp_parts(n.test)
            if cp and isinstance(cp[1], ast.Eq) and isinstance(cp[0], ast.Call) and dotted(cp[0].func) == "len" and isinstance(cp[2], ast.Constant) and cp[2].value == 1:
                lit = any(isinstance(s, ast.Return) and isinstance(s.value, ast.Name) for s in n.body)
    octal = False
    for c in astq.calls(fn):
        if dotted(c.func) == "int" and len(c.args) == 2 and isinstance(c.args[1], ast.Constant) and c.args[1].value == 8:
            p = astq.parent(c)
            pp = astq.parent(p) if p is not None else None
            if isinstance(p, ast.Attribute) and p.attr == "to_bytes" and isinstance(pp, ast.Call) and pp.args and isinstance(pp.args[0], ast.Constant) and pp.args[0].value == 1:
                octal = True
    ok = g1 and lit and octal
    return ok, f"group(1)={g1}, 1-char returned as is={lit}, 3-digit via int(v, 8).to_bytes(1)={octal} [{src[:60]}...]"


def _attr_loop_body_ok(loop: ast.For) -> bool:
    k, v = [e.id for e in loop.target.elts]  # type: ignore[attr-defined]
    skip = bare = kv = False
    for n in ast.walk(loop):
        if isinstance(n, ast.If):
            t_ = norm(n.test)
            if t_ in (f"{v} is None or {v} is False", f"{v} is False or {v} is None") and any(isinstance(s, ast.Continue) for s in n.body):
                skip = True
            if t_ == f"{v} is True":
                bare = any(norm(s) == f"buf.append({k})" for s in n.body) and any(isinstance(s, ast.Continue) for s in n.body)
    for s in loop.body:
        if norm(s) in (f"buf.append(f'{{{k}}}={{{v}}}')",):
            kv = True
    return skip and bare and kv
