"""C13 - cookie values round-trip and cannot inject attributes.

The rules are statements about *values*, and they are decided on values: the
functions involved (dump_cookie and its private helpers, the sans-io parser and
its substitution callback, the environ-level parser, Request.cookies,
Response.set_cookie, the test client's Cookie._from_response_header) are
evaluated by a small abstract interpreter (``_c13_helpers``: constant
propagation with symbolic terms, both edges of every undecided branch, private
helpers / lambdas followed, regex applications kept symbolic).  The result of a
run is a term such as ``f"{$key..}={$value}; Path={quote($path, safe=..)}"``;
the rules compare that term with what the property demands.  Which local is
called ``buf``, whether the loop uses ``continue`` or ``elif``, whether the
quoting lives in a helper, whether the parser uses findall or finditer does not
enter.

The byte tables (escape class, escape map, unslash regex) are the constants
folded from the source (E3/E4) and are compared exhaustively over the 256 byte
values with the RFC 6265 section 4.1.1 cookie-octet table; the two substitution
callbacks are evaluated on every one of those bytes.

The quote-free fast path is decided on the *set of values that take it*: the
regular language accepted by the test actually used (pattern tree, fullmatch /
match / search, the anchors ^ $ \\A \\Z and what they mean under the pattern's
flags, the edge of the test on which the value is emitted raw), computed by
``_c13_helpers.RegexLang``.  ``match`` + ``\\Z``, ``search`` + ``\\A...\\Z``,
``fullmatch`` and "no unsafe character found" accept the same set; ``match`` +
``$`` accepts one trailing newline more.
"""

from __future__ import annotations

import ast
import re
import typing as t

from ..fold import Folder, RegexConst, group_count, single_class
from ..loader import AnalysisError, FuncInfo
from ..report import Ctx
from . import _c13_helpers as H
from ._c13_helpers import Outcome, Ref, Sym, cat_parts, explore, param, params_in, show

LEVEL_TEXT = (
    "Static decision of the structural clauses of C13 on /repo's current source, by abstract interpretation (constant "
    "propagation with symbolic terms over every path; werkzeug is never imported or run, regex applications stay symbolic) "
    "of dump_cookie, the sans-io parser and the functions that connect them, plus exhaustive table algebra over the 256 "
    "byte values: (R13.1) the escape class used by dump_cookie contains every byte that is not an RFC 6265 cookie-octet; "
    "(R13.2) the escape callback is total over that class, its images are pure ASCII, backslash + octal/self, and each is "
    "matched whole by the parser's unslash regex and mapped back to the byte by the parser's callback; the parser "
    "unescapes exactly the text between the quotes of quoted values only (one representative per class of length 0/1/>=2 "
    "x first/last character a quote), in one pass, decodes it as UTF-8 and stores the result untransformed; (R13.3) the "
    "set of values that take the quote-free path contains only strings of cookie-octets: that set is computed as a regular "
    "language from the re._parser tree of the test's pattern, the method used (fullmatch / match / search: what may surround "
    "the matched text), its anchors (^ $ \\A \\Z, under re.M or not: '$' also holds before one trailing newline), its flags "
    "(re.A / re.I / re.S / re.M, global or scoped), the subject (the value or its UTF-8 bytes) and the edge of the test on "
    "which the value is emitted raw (the test succeeds / the test finds nothing); a shortest offending value is reported; a "
    "value on that path is emitted unchanged, every other value is escaped and quoted (a pattern with look-around, "
    "back-references, \\b or possessive/atomic groups is not decided: exit 2); (R13.4) otherwise the UTF-8 bytes are substituted, decoded as ASCII and wrapped in quotes; (R13.5) the "
    "returned header is the pair followed by exactly the attributes Domain, Expires, Max-Age, Secure, HttpOnly, Path, "
    "SameSite, Partitioned in that order joined with '; ', None/False omitted, True as bare name, anything else as "
    "name=value; SameSite is title-cased and anything but Strict/Lax/None raises ValueError, path and domain pass their "
    "encoders, partitioned implies secure; (R13.6) both request-side parsers reach the sans-io parser, Response.set_cookie "
    "forwards every attribute, the test client parses exactly the text before the first ';' as the pair and never reads "
    "the pair as an attribute. It decides these clauses, not the round-trip law over all of Unicode (which follows from "
    "them plus UTF-8 being a bijection, not checked)."
)
TRUSTED = ["CPython ast and re._parser", "the automaton construction of wzsa/rules/_c13_helpers.py (RegexLang) accepts exactly the subjects for which the re engine's match / fullmatch / search succeeds, for patterns built from literals, classes, categories, '.', repeats, alternation, groups, scoped flags and the anchors ^ $ \\A \\Z (anything else is ANALYSIS-ERROR); re.IGNORECASE on str patterns without re.ASCII is modelled through the one-character lower/upper mappings of str", "the abstract interpreter of wzsa/rules/_c13_helpers.py models the Python subset used by the analysed functions faithfully (anything outside the subset is ANALYSIS-ERROR)", "RFC 6265 section 4.1.1 cookie-octet table embedded as a constant", "urllib.parse.quote escapes every non-safe non-alphanumeric character", "the idna codec outputs ASCII"]
ASSUMPTIONS = ["cookie key is a token (as the property states)", "Expires passed as a raw str by the application is not constrained"]

# RFC 6265 4.1.1: cookie-octet = %x21 / %x23-2B / %x2D-3A / %x3C-5B / %x5D-7E
COOKIE_OCTETS = frozenset([0x21, *range(0x23, 0x2C), *range(0x2D, 0x3B), *range(0x3C, 0x5C), *range(0x5D, 0x7F)])
ATTR_ORDER = ["Domain", "Expires", "Max-Age", "Secure", "HttpOnly", "Path", "SameSite", "Partitioned"]
DUMP_PARAMS = ["key", "value", "max_age", "expires", "path", "domain", "secure", "httponly", "samesite", "partitioned"]
HOLE = "\x00"
# calls the rules read as atoms (never followed by the interpreter)
ATOMS = ("werkzeug.http.http_date", "werkzeug.http.parse_date", "werkzeug.http.dump_cookie", "werkzeug.http.parse_cookie", "werkzeug.sansio.http.parse_cookie")


# ---------------------------------------------------------------------
# reading header terms


class Header(t.NamedTuple):
    skeleton: str  # literal text with \x00 for every symbolic piece
    holes: list  # the symbolic pieces, in order


def header_of(v: t.Any) -> Header | None:
    if not (isinstance(v, str) or (isinstance(v, Sym) and v.typ == "str")):
        return None
    sk, holes = "", []
    for p in cat_parts(v):
        if isinstance(p, str):
            sk += p
        else:
            sk += HOLE
            holes.append(p)
    return Header(sk, holes)


def unfmt(h: t.Any) -> t.Any:
    """``format(x, '', '')`` / ``str(x)`` of a symbol -> the symbol"""
    while isinstance(h, Sym) and h.op == "format" and h.args[1] in (-1, 115) and h.args[2] == "":
        h = h.args[0]
    return h


_MATCH_METHODS = ("fullmatch", "match", "search")


def _re_flags(v: t.Any) -> int:
    if v is None:
        return 0
    if isinstance(v, int):
        return int(v)
    if isinstance(v, Ref) and v.fq.startswith("re.") and isinstance(getattr(re, v.fq[3:], None), re.RegexFlag):
        return int(getattr(re, v.fq[3:]))
    raise AnalysisError(f"regex flags `{show(v)[:40]}` are not a constant")


def is_match_test(s: Sym) -> tuple[RegexConst, str, t.Any] | None:
    """``RX.fullmatch(x)`` / ``re.fullmatch(RX, x)`` / ``re.fullmatch("pattern", x, flags)`` (also match, search) ->
    (regex, method, subject)"""
    if s.op == "method" and isinstance(s.args[0], RegexConst) and s.args[1] in _MATCH_METHODS:
        a, kw = list(s.args[2]), dict(s.args[3])
        if len(a) > 1 or set(kw) - {"string"} or len(a) + len(kw) != 1:
            raise AnalysisError(f"`{show(s)[:80]}`: a regex test with pos / endpos is not modelled")
        return s.args[0], s.args[1], (a[0] if a else kw["string"])
    if s.op == "call" and isinstance(s.args[0], Ref) and s.args[0].fq in tuple("re." + m for m in _MATCH_METHODS):
        a, kw = list(s.args[1]), dict(s.args[2])
        names = ["pattern", "string", "flags"]
        if len(a) > 3 or set(kw) - set(names[len(a):]):
            return None
        bound = {**dict(zip(names, a)), **kw}
        rx, flags = bound.get("pattern"), _re_flags(bound.get("flags"))
        if isinstance(rx, (str, bytes)):
            rx = RegexConst(rx, flags)
        elif not (isinstance(rx, RegexConst) and not flags):
            return None
        if "string" not in bound:
            return None
        return rx, s.args[0].fq[3:], bound["string"]
    return None


def utf8_bytes_of(term: t.Any, what: t.Any) -> bool:
    """``term`` is ``what.encode()`` / ``what.encode("utf-8")``"""
    root, ch = H.chain(term)
    return bool(
        root == what
        and len(ch) == 1
        and ch[0][0] == "encode"
        and len(ch[0][1]) <= 1
        and not (set(ch[0][2]) - {"encoding"})
        and (list(ch[0][1]) + [ch[0][2].get("encoding", "utf-8")])[0] in ("utf-8", "utf8")
    )


# ---------------------------------------------------------------------
# the language of the fast-path test


def _octet_cuts() -> list[int]:
    cuts = [0x80]
    for c in range(0x81):
        if (c in COOKIE_OCTETS) != (c - 1 in COOKIE_OCTETS):
            cuts.append(c)
    return cuts


# well-formed UTF-8 (Unicode table 3-7) as an automaton over bytes: state -> [(lo, hi, next state)]; state 0 = between characters
_UTF8: dict[int, list[tuple[int, int, int]]] = {
    0: [(0x00, 0x7F, 0), (0xC2, 0xDF, 1), (0xE0, 0xE0, 2), (0xE1, 0xEC, 3), (0xED, 0xED, 4), (0xEE, 0xEF, 3), (0xF0, 0xF0, 5), (0xF1, 0xF3, 6), (0xF4, 0xF4, 7)],
    1: [(0x80, 0xBF, 0)],
    2: [(0xA0, 0xBF, 1)],
    3: [(0x80, 0xBF, 1)],
    4: [(0x80, 0x9F, 1)],
    5: [(0x90, 0xBF, 3)],
    6: [(0x80, 0xBF, 3)],
    7: [(0x80, 0x8F, 3)],
}
_UTF8_CUTS = sorted({x for rows in _UTF8.values() for lo, hi, _n in rows for x in (lo, hi + 1)})


class FastPath:
    """Which values take the quote-free path?  ``test`` = (regex, method, subject kind 'str' | 'utf8'); the path is taken
    when the test succeeds (``on_match``) or when it fails.  The three questions are reachability questions on the
    automata of ``_c13_helpers.RegexLang``; each answer comes with the shortest value that shows it."""

    def __init__(self, rx: RegexConst, method: str, subject_kind: str, on_match: bool):
        self.rx, self.method, self.kind, self.on_match = rx, method, subject_kind, on_match
        cuts = _octet_cuts() + (_UTF8_CUTS if subject_kind == "utf8" else [])
        self.used = H.RegexLang(rx, method, cuts)
        self.full = self.used if method == "fullmatch" else H.RegexLang(rx, "fullmatch", cuts)

    def _mon(self, m: tuple[bool, bool, int], c: int) -> tuple[bool, bool, int] | None:
        high, low, u = m
        if self.kind == "utf8":
            for lo, hi, nxt in _UTF8[u]:
                if lo <= c <= hi:
                    u = nxt
                    break
            else:
                return None
        if c >= 0x80:
            high = True
        elif c not in COOKIE_OCTETS:
            low = True
        return high, low, u

    def _find(self, langs: list, hit: t.Callable[[tuple, bool, bool], bool]) -> str | None:
        w = H.find_subject(langs, (False, False, 0), self._mon, lambda acc, m: m[2] == 0 and hit(acc, m[0], m[1]))
        if w is None:
            return None
        return bytes(w).decode("utf-8") if self.kind == "utf8" else "".join(map(chr, w))

    def beyond_fullmatch(self) -> str | None:
        """a value the test accepts although the pattern does not span it (None: the test reads the whole value)"""
        if not self.on_match or self.used is self.full:
            return None
        w = self._find([self.used, self.full], lambda acc, high, low: acc[0] and not acc[1] and (high or low))
        return w if w is not None else self._find([self.used, self.full], lambda acc, high, low: acc[0] and not acc[1])

    def raw_with(self, want_high: bool) -> str | None:
        """a value emitted raw that contains a non-ASCII character (want_high) / is ASCII and contains a character that
        is not a cookie-octet.  On the matching edge the pattern is read as spanning the value (``beyond_fullmatch``
        reports the rest), on the non-matching edge the test is read as it is."""
        lang = self.full if self.on_match else self.used
        return self._find([lang], lambda acc, high, low: acc[0] == self.on_match and (high if want_high else (low and not high)))


def _inside(node: ast.AST | None, fi: FuncInfo) -> ast.AST | None:
    if node is None or not hasattr(node, "lineno"):
        return None
    lo, hi = fi.node.lineno, getattr(fi.node, "end_lineno", fi.node.lineno)  # type: ignore[attr-defined]
    return node if lo <= node.lineno <= (hi or lo) else None


class Writer:
    """dump_cookie evaluated under scenarios"""

    def __init__(self, ctx: Ctx, folder: Folder):
        self.ctx = ctx
        self.repo = ctx.repo
        self.folder = folder
        self.fi = ctx.repo.func("http.dump_cookie")
        self.raw_edge = True  # the answer of the fast-path test under which the value is emitted raw
        ctx.saw(self.fi)
        missing = [p for p in DUMP_PARAMS if p not in self.fi.params]
        if missing:
            raise AnalysisError(f"dump_cookie has no parameter(s) {missing}")

    def run(self, matched: bool | None = True, **over: t.Any) -> list[Outcome]:
        base: dict[str, t.Any] = dict(key=param("key", "str"), value=param("value", "str"), max_age=None, expires=None, path=None, domain=None, secure=False, httponly=False, samesite=None, partitioned=False)
        if "sync_expires" in self.fi.params:
            base["sync_expires"] = False
        if "max_size" in self.fi.params:
            base["max_size"] = 0
        base.update(over)

        def oracle(s: Sym) -> bool | None:
            if is_match_test(s) is not None and matched is not None:
                return matched
            if s.op == "param":
                return True  # a symbolic parameter stands for a non-empty value
            return None

        return explore(self.repo, self.folder, self.fi, lambda: dict(base), oracle, None, self.ctx.saw, atoms=ATOMS)

    def raw(self, **over: t.Any) -> list[Outcome]:
        """the paths on which the value takes the quote-free path (the attributes are read on those)"""
        return self.run(matched=self.raw_edge, **over)

    def headers(self, outs: list[Outcome]) -> list[Header]:
        """headers of the returning paths (a path may raise; at least one must return)"""
        hs = []
        for o in outs:
            if o.kind != "return":
                continue
            h = header_of(o.value)
            if h is None:
                raise AnalysisError(f"dump_cookie returns `{show(o.value)[:80]}`, not a string term")
            hs.append(h)
        return hs


def _attrs_of(h: Header) -> tuple[str, list[str]]:
    """(pair text, attribute item texts) of a header skeleton, split at ';' + optional blanks"""
    items = re.split(r";[ \t]*", h.skeleton)
    return items[0], items[1:]


def run(ctx: Ctx) -> None:
    repo = ctx.repo
    folder = Folder(repo)

    ctx.rule("R13.1", "escape class ESC (regex substituted over the encoded value in dump_cookie) contains every byte that is not an RFC 6265 cookie-octet")
    ctx.rule("R13.2", "the escape callback is total over ESC; each image is ASCII, backslash+self for quote/backslash else backslash+3 octal digits (first <= 3) of the byte; each image is matched whole by the parser's unslash regex and mapped back to the byte by its replacement function; the parser unescapes exactly the text between the quotes, of quoted values only, in one pass, decodes it as UTF-8 and stores the result untransformed; every pair with a non-empty key is stored, in order")
    ctx.rule("R13.3", "every value that takes the quote-free fast path (the regular language accepted by the test actually used: pattern, method, anchors, flags, edge) is a string of cookie-octets; such a value is emitted unchanged, any other value is escaped")
    ctx.rule("R13.4", "the escape runs over the UTF-8 bytes of the value; escaped bytes are decoded as ASCII and wrapped in double quotes; ESC covers 0x80-0xFF")
    ctx.rule("R13.5", "the returned header is the pair followed by Domain, Expires, Max-Age, Secure, HttpOnly, Path, SameSite, Partitioned in that order joined with '; '; None/False omitted, True bare, otherwise name=value; SameSite title-cased and validated; path quoted with ';' unsafe; domain IDNA->ASCII; timedelta max_age -> int; partitioned => secure")
    ctx.rule("R13.6", "http.parse_cookie and Request.cookies reach sansio.http.parse_cookie; Response.set_cookie forwards every attribute to dump_cookie; the test client parses the text before the first ';' as the pair and reads attributes from the rest only")

    W = Writer(ctx, folder)
    dump = W.fi

    # ---- the value: fast path and escape ------------------------------
    outs_m = W.run(matched=True)
    outs_u = W.run(matched=False)
    tests = []
    for o in outs_m + outs_u:
        for s, _ans, node in o.decisions:
            mt = is_match_test(s)
            if mt is not None:
                tests.append((mt, node))
    if not tests:
        raise AnalysisError("dump_cookie: the value is not tested against a regex before it is emitted (fast-path slot)")
    if len({(mt[0].pattern, mt[0].flags, mt[1], repr(mt[2])) for mt, _ in tests}) != 1:
        raise AnalysisError("dump_cookie: more than one regex test decides how the value is emitted")
    (nq, kind, subject), ft_node = tests[0]
    qf = dump  # obligations about the quoting are reported at dump_cookie, wherever the statements live
    nq_name = H.const_name(dump.module, folder, nq)
    if not nq_name.isidentifier():
        nq_name = "re.compile(<pattern>)"

    hm, hu = W.headers(outs_m), W.headers(outs_u)
    if not hm or not hu:
        raise AnalysisError("dump_cookie: no returning path for a plain key/value")
    V = param("value", "str")

    def pair_ok(h: Header) -> bool:
        return h.skeleton == f"{HOLE}={HOLE}" and params_in(h.holes[0]) == {"key"} and h.holes[1] == V

    def quoted_term(h: Header) -> t.Any:
        if h.skeleton == f'{HOLE}="{HOLE}"' and params_in(h.holes[0]) == {"key"}:
            return h.holes[1]
        return None

    # which edge of the test is the quote-free one?  ("quote unless the value matches SAFE*" and "quote if the value
    # contains an UNSAFE character" are the same function; which of the two a tree uses is read off the values emitted)
    RAW = not (all(pair_ok(h) for h in hu) and all(quoted_term(h) is not None for h in hm))
    W.raw_edge = RAW
    h_raw, h_esc = (hm, hu) if RAW else (hu, hm)
    if any(pair_ok(h) for h in h_raw) and any(quoted_term(h) is not None for h in h_raw):
        # e.g. `m is None or m.end() != len(value)`: the set of raw values is the test's language cut down by something else
        more = sorted({show(d[0])[:60] for o in (outs_m if RAW else outs_u) for d in o.forks})
        raise AnalysisError(f"dump_cookie: whether the value is emitted raw depends on more than the regex test ({more}); the set of fast-path values is not computed")
    raw_ok = all(pair_ok(h) for h in h_raw)
    qterms = [quoted_term(h) for h in h_esc]
    subs = []
    for h in h_esc + h_raw:
        for s in H.walk_terms(h.holes):
            rs = H.as_regex_sub(s)
            if rs is not None and isinstance(rs[0].pattern, bytes):
                subs.append((s, rs))
    if not subs:
        raise AnalysisError("dump_cookie: no <bytes regex>.sub(...) reaches the emitted value (escape slot)")
    if len({(rs[0].pattern, rs[0].flags) for _, rs in subs}) != 1:
        raise AnalysisError("dump_cookie: more than one escape regex")
    sub_term, (esc, esc_repl, esc_subject, esc_extra) = subs[0]
    esc_name = H.const_name(dump.module, folder, esc)
    sub_node = _inside(sub_term.node, dump)
    ESC, rep = single_class(esc, 256)
    if rep != (1, 1):
        raise AnalysisError(f"{esc_name} is not a single-byte class (repeat {rep})")

    # ---- R13.1 -----------------------------------------------------
    n131 = 0
    for b in range(256):
        if b in COOKIE_OCTETS:
            continue
        n131 += 1
        ctx.ob("R13.1", f"byte 0x{b:02x} escaped", b in ESC, f"0x{b:02x} is not a cookie-octet and is {'in' if b in ESC else 'NOT in'} {esc_name} = {esc.pattern!r}", dump, sub_node, f"byte 0x{b:02x}")
    ctx.floor("R13.1", "non-cookie-octet bytes", n131, 256 - len(COOKIE_OCTETS))

    # ---- the reader --------------------------------------------------
    R = Reader(ctx, folder)
    R.analyse()

    # ---- R13.2 (writer images vs reader) ---------------------------------
    unsl, unsl_repl = R.unsl, R.unsl_repl
    unsl_name = H.const_name(R.fi.module, folder, unsl)
    unsl_c = re.compile(unsl.pattern, unsl.flags)
    n = 0
    for b in sorted(ESC):
        key = bytes([b])
        n += 1
        try:
            if isinstance(esc_repl, (bytes, str)):
                raise AnalysisError("dump_cookie: the escape replacement is a template, not a callback")
            img = H.call_closure(repo, folder, esc_repl, [H.FakeMatch((), key)], ctx.saw)
        except H.PyRaise as e:
            ctx.ob("R13.2", f"map total at 0x{b:02x}", False, f"{esc_name} matches 0x{b:02x} but the replacement callback raises {e.name} inside re.sub", dump, None, f"map key 0x{b:02x}")
            continue
        if H.has_opaque(img):
            raise AnalysisError(f"dump_cookie: the escape callback cannot be evaluated for byte 0x{b:02x}: {show(img)[:80]}")
        good_form = isinstance(img, bytes) and all(c < 128 for c in img) and (
            (b in (0x22, 0x5C) and img == b"\\" + key) or (len(img) == 4 and img[:1] == b"\\" and img[1:].isdigit() and img[1] <= 0x33 and all(0x30 <= c <= 0x37 for c in img[1:]) and int(img[1:], 8) == b)
        )
        inv = False
        back: t.Any = None
        if isinstance(img, bytes):
            m = unsl_c.fullmatch(img)
            if m is not None:
                try:
                    if isinstance(unsl_repl, (bytes, str)):
                        back = m.expand(unsl_repl)  # a replacement template: both operands are constants folded from the source
                    else:
                        back = H.call_closure(repo, folder, unsl_repl, [H.FakeMatch(m.groups(), m.group(0))], ctx.saw)
                except H.PyRaise as e:
                    back = f"raises {e.name}"
                except (re.error, IndexError, TypeError) as e:
                    back = f"raises {type(e).__name__}"
                if H.has_opaque(back):
                    raise AnalysisError(f"sansio.http.parse_cookie: the unslash callback cannot be evaluated for {img!r}: {show(back)[:80]}")
                inv = back == key
        ctx.ob("R13.2", f"escape of 0x{b:02x}", good_form and inv, f"0x{b:02x} -> {img!r}: form {'ok' if good_form else 'BAD'}, {'inverted' if inv else f'NOT inverted (parser gives {back!r})'} by {unsl_name} = {unsl.pattern!r} and its callback", dump, None, f"map image 0x{b:02x}")
    ctx.floor("R13.2", "escaped bytes with map images", n, 150)
    raw = set(range(256)) - ESC
    ctx.ob("R13.2", "backslash never raw", 0x5C not in raw, "backslash is in the escape class, so no raw byte can start an escape sequence in the parser", dump, None, "backslash raw")
    R.report()

    # ---- R13.3 -----------------------------------------------------
    ft_at = _inside(ft_node, dump)
    edge = "succeeds" if RAW else "fails"
    test_txt = f"{nq_name}.{kind}({show(subject)})"
    if subject == V:
        subject_kind = "str"
    elif utf8_bytes_of(subject, V):
        subject_kind = "utf8"
    else:
        root, ch = H.chain(subject)
        if root == V and ch and all(c[0] in ("strip", "lstrip", "rstrip", "lower", "upper", "title", "casefold", "capitalize", "swapcase", "replace", "[]") for c in ch):
            subject_kind = ""  # a different string is tested than the one emitted
        else:
            raise AnalysisError(f"dump_cookie: the fast-path test `{test_txt}` is not applied to the value or its UTF-8 bytes")
    if subject_kind and isinstance(nq.pattern, bytes) != (subject_kind == "utf8"):
        raise AnalysisError(f"dump_cookie: `{test_txt}` applies a {'bytes' if isinstance(nq.pattern, bytes) else 'str'} pattern to a {'bytes' if subject_kind == 'utf8' else 'str'} subject")
    pat_txt = f"pattern {nq.pattern!r} flags={nq.flags}"
    if subject_kind:
        fp = FastPath(nq, kind, subject_kind, RAW)
        beyond, high, low = fp.beyond_fullmatch(), fp.raw_with(True), fp.raw_with(False)
        anchors = f" with anchors {' '.join(fp.used.anchors)}" if fp.used.anchors else ""
        if not RAW:
            span_fact = f"the value is emitted raw when `{test_txt}` finds nothing; every position of the value is tried by {kind}"
        elif beyond is None:
            span_fact = f"`{test_txt}`{anchors} ({pat_txt}) accepts exactly the values that the pattern spans from the first to the last character"
        else:
            span_fact = f"`{test_txt}`{anchors} ({pat_txt}) accepts {beyond!r}, which the pattern does not span (fullmatch rejects it): that value is emitted raw"
        ctx.ob("R13.3", "the fast-path test constrains the whole value (what it accepts is what a fullmatch of the pattern accepts)", beyond is None, span_fact, qf, ft_at, "fast path match kind")
        ctx.ob("R13.3", "no value with a non-ASCII character takes the fast path", high is None, f"value for which `{test_txt}` {edge}: " + ("every character is ASCII" if high is None else f"e.g. {high!r} ({pat_txt})"), qf, ft_at, "fast path ascii")
        ctx.ob("R13.3", "no ASCII value with a character outside the cookie-octets takes the fast path", low is None, f"value for which `{test_txt}` {edge}: " + ("every character is a cookie-octet" if low is None else f"e.g. {low!r}, emitted raw ({pat_txt})"), qf, ft_at, "fast path subset")
    else:
        ctx.ob("R13.3", "the fast-path test constrains the whole value (what it accepts is what a fullmatch of the pattern accepts)", False, f"`{test_txt}` tests a transformed copy, the value itself is emitted", qf, ft_at, "fast path match kind")
    esc_ok = all(q is not None for q in qterms)
    ctx.ob("R13.3", "a value that does not take the fast path is escaped and quoted", esc_ok, f"`{test_txt}` {'fails' if RAW else 'succeeds'}: emitted as {[show(q)[:100] if q is not None else h.skeleton.replace(HOLE, '{}') for q, h in zip(qterms, h_esc)]}", qf, ft_at, "fast path polarity")
    ctx.ob("R13.3", "a value that takes the fast path is emitted unchanged", raw_ok, f"`{test_txt}` {edge}: header {[show_header(h) for h in h_raw]}", qf, ft_at, "fast path passes value through")

    # ---- R13.4 -----------------------------------------------------
    hi = [b for b in range(0x80, 0x100) if b not in ESC]
    ctx.ob("R13.4", "high bytes escaped", not hi, f"{len(hi)} bytes >= 0x80 outside {esc_name}", dump, None, "high bytes")
    enc_ok = utf8_bytes_of(esc_subject, V) and not esc_extra
    ctx.ob("R13.4", "substitution runs over UTF-8 bytes of the value", bool(enc_ok), f"`{show(esc_subject)}`", qf, sub_node, "utf8 encode")
    wrapped_ok = bool(qterms)
    for q in qterms:
        q = unfmt(q)
        ok = isinstance(q, Sym) and q.op == "method" and q.args[1] == "decode" and q.args[0] == sub_term
        if ok:
            a, kw = H.call_args(q)
            codec = a[0] if a else kw.get("encoding", "utf-8")
            # every byte >= 0x80 is escaped ("high bytes escaped" above), so any ASCII-compatible codec decodes the same text
            ok = isinstance(codec, str) and codec.lower().replace("_", "-") in ("ascii", "us-ascii", "utf-8", "utf8", "latin-1", "latin1", "iso-8859-1") and not hi
        wrapped_ok = wrapped_ok and bool(ok)
    ctx.ob("R13.4", "escaped value is decoded as ASCII and wrapped in double quotes", wrapped_ok, f"{[show_header(h)[:160] for h in h_esc]}", qf, sub_node, "ascii decode and quote wrap")

    # ---- R13.5 -----------------------------------------------------
    pair_first = all(h.skeleton.startswith(f"{HOLE}={HOLE}") and params_in(h.holes[0]) == {"key"} and h.holes[1] == V for h in h_raw)
    ctx.ob("R13.5", "pair emitted first as key=value", pair_first, f"plain call returns {[show_header(h) for h in h_raw]}", dump, dump.node, "pair first")

    all_set = W.raw(domain=param("domain", "str"), expires=param("expires", "datetime"), max_age=param("max_age", "int"), secure=True, httponly=True, path=param("path", "str"), samesite="Lax", partitioned=True)
    full = W.headers(all_set)
    no_full = "" if full else f"dump_cookie does not return with every attribute set: {sorted({'raises ' + str(o.exc) for o in all_set})}; "
    want_items = [f"Domain={HOLE}", f"Expires={HOLE}", f"Max-Age={HOLE}", "Secure", "HttpOnly", f"Path={HOLE}", "SameSite=Lax", "Partitioned"]
    names_ok = join_ok = form_ok = wiring_ok = bool(full)
    want_roots = [{"key"}, {"value"}, {"domain"}, {"expires"}, {"max_age"}, {"path"}]
    for h in full:
        _pair, items = _attrs_of(h)
        names = [it.split("=", 1)[0] for it in items]
        names_ok = names_ok and names == ATTR_ORDER
        join_ok = join_ok and h.skeleton.split("; ")[1:] == items and not any(";" in it for it in h.skeleton.split("; "))
        form_ok = form_ok and items == want_items
        wiring_ok = wiring_ok and [params_in(x) for x in h.holes] == want_roots
    shown = [show_header(h)[:400] for h in full]
    for flag, tail in (("secure", "; Secure"), ("httponly", "; HttpOnly")):
        hs = W.headers(W.raw(**{flag: True}))
        got = sorted({h.skeleton for h in hs})
        if got != [f"{HOLE}={HOLE}{tail}"]:
            wiring_ok = False
            shown.append(f"{flag}=True alone: {[g.replace(HOLE, '{}') for g in got]}")
    ctx.ob("R13.5", "attribute names and order", names_ok, f"{no_full}every attribute set: {[[it.replace(HOLE, '{}') for it in _attrs_of(h)[1]] for h in full]}", dump, dump.node, "attribute tuple")
    ctx.ob("R13.5", "attribute values wired to their parameters", wiring_ok, f"{shown}", dump, dump.node, "attribute wiring")
    ctx.ob("R13.5", "attributes joined with '; '", join_ok, f"{[h.skeleton.replace(HOLE, '{}') for h in full]}", dump, dump.node, "join")

    # emission table: None / False omitted, True bare, anything else name=value
    table: list[tuple[str, dict[str, t.Any], str]] = [
        ("None", dict(secure=None, httponly=None, partitioned=None), ""),
        ("False", dict(), ""),
        ("True", dict(secure=True, httponly=True, partitioned=True), "; Secure; HttpOnly; Partitioned"),
        ("0", dict(max_age=0), "; Max-Age=0"),
        ("1", dict(max_age=1), "; Max-Age=1"),
    ]
    facts = []
    table_ok = form_ok
    for label, over, tail in table:
        hs = W.headers(W.raw(**over))
        got = sorted({h.skeleton[len(f"{HOLE}={HOLE}"):] if h.skeleton.startswith(f"{HOLE}={HOLE}") else h.skeleton for h in hs})
        facts.append(f"{label}: {got}")
        table_ok = table_ok and got == [tail]
    facts.append(f"other: {[[it.replace(HOLE, '{}') for it in _attrs_of(h)[1]] for h in full]}")
    ctx.ob("R13.5", "loop body emits bare name / name=value", table_ok, "; ".join(facts), dump, dump.node, "attribute loop body")

    # SameSite: title-cased, validated
    ss_ok = True
    ss_facts = []
    for s_in in ["strict", "Strict", "STRICT", "lax", "LAX", "none", "None", "NONE", "", "foo", "lax ", "Lax; Secure", "strict,", "no ne"]:
        outs = W.raw(samesite=s_in)
        valid = s_in.title() in ("Strict", "Lax", "None")
        for o in outs:
            if valid:
                h = header_of(o.value) if o.kind == "return" else None
                good = h is not None and h.skeleton == f"{HOLE}={HOLE}; SameSite={s_in.title()}"
                got = show_header(h) if h is not None else f"raises {o.exc}"
            else:
                good = o.kind == "raise" and o.exc == "ValueError"
                got = f"raises {o.exc}" if o.kind == "raise" else show(o.value)
            if not good:
                ss_ok = False
                ss_facts.append(f"samesite={s_in!r}: {got}")
    ctx.ob("R13.5", "SameSite normalised and validated before use", ss_ok, "; ".join(ss_facts) or "Strict/Lax/None in any case emitted title-cased; every other string raises ValueError", dump, dump.node, "samesite check")

    # path, domain, max_age, expires, partitioned
    def hole_for(name: str, outs: list[Header]) -> list[t.Any]:
        res = []
        for h in outs:
            _p, items = _attrs_of(h)
            k = 2
            found = None
            for it in items:
                if HOLE in it:
                    if it.split("=", 1)[0] == name:
                        found = h.holes[k] if k < len(h.holes) else None
                    k += it.count(HOLE)
            res.append(unfmt(found))
        return res

    def emitted(name: str, **over: t.Any) -> tuple[list[t.Any], str]:
        """what follows `name=` in the header when only that attribute is given (one entry per returning path)"""
        outs = W.raw(**over)
        hs = W.headers(outs)
        if not hs:
            return [None], f"dump_cookie does not return: {sorted({'raises ' + str(o.exc) for o in outs})}; "
        return hole_for(name, hs), ""

    P = param("path", "str")
    p_ok, p_fact = True, ""
    xs, why = emitted("Path", path=P)
    for x in xs:
        good = isinstance(x, Sym) and x.op == "call" and isinstance(x.args[0], Ref) and x.args[0].fq in ("urllib.parse.quote",) and x.args[1][:1] == (P,)
        if good:
            a, kw = H.call_args(x)
            safe = a[1] if len(a) > 1 else kw.get("safe", "/")
            if not isinstance(safe, str):
                raise AnalysisError("dump_cookie: the safe set of the path quoting is not a constant")
            bad = sorted(set(safe) & set('; "\\\t\r\n'))
            nonascii = [c for c in safe if not (0x21 <= ord(c) <= 0x7E)]
            good = not bad and not nonascii and not (set(kw) - {"safe"})
            p_fact = f"safe={safe!r} bad={bad + nonascii}"
        else:
            p_fact = f"{why}Path emitted as `{show(x)[:100]}`"
        p_ok = p_ok and good
    ctx.ob("R13.5", "path safe set excludes ';' and separators", p_ok, p_fact, dump, dump.node, "path quote")
    D = param("domain", "str")
    d_ok, d_fact = True, ""
    xs, why = emitted("Domain", domain=D)
    for x in xs:
        root, ch = H.chain(x)
        names_ = [c[0] for c in ch]
        good = root == D and len(ch) >= 2 and names_[-2:] == ["encode", "decode"] and ch[-2][1][:1] == ("idna",) and ch[-1][1][:1] == ("ascii",)
        d_fact = f"{why}Domain emitted as `{show(x)[:140]}`"
        d_ok = d_ok and good
    ctx.ob("R13.5", "domain IDNA-encoded to ASCII", d_ok, d_fact, dump, dump.node, "domain idna")
    MA = param("max_age", "timedelta")
    ma_ok, ma_fact = True, ""
    xs, why = emitted("Max-Age", max_age=MA)
    for x in xs:
        good = isinstance(x, Sym) and x.op == "call" and x.args[0] == H.Builtin("int") and len(x.args[1]) == 1 and isinstance(x.args[1][0], Sym) and x.args[1][0].op == "method" and x.args[1][0].args[:2] == (MA, "total_seconds")
        ma_fact = f"{why}Max-Age of a timedelta emitted as `{show(x)[:100]}`"
        ma_ok = ma_ok and good
    ctx.ob("R13.5", "timedelta max_age -> int seconds", ma_ok, ma_fact, dump, dump.node, "max_age")
    ps_outs = W.raw(partitioned=True, secure=False)
    ps = W.headers(ps_outs)
    ps_ok = bool(ps) and all(h.skeleton == f"{HOLE}={HOLE}; Secure; Partitioned" for h in ps)
    ctx.ob("R13.5", "partitioned implies secure", ps_ok, f"partitioned=True, secure=False: {[show_header(h) for h in ps] or sorted({'raises ' + str(o.exc) for o in ps_outs})}", dump, dump.node, "partitioned secure")
    E = param("expires", "datetime")
    ex_ok, ex_fact = True, ""
    xs, why = emitted("Expires", expires=E)
    for x in xs:
        good = isinstance(x, Sym) and x.op == "call" and isinstance(x.args[0], Ref) and x.args[0].fq == "werkzeug.http.http_date" and x.args[1] == (E,)
        ex_fact = f"{why}Expires of a datetime emitted as `{show(x)[:100]}`"
        ex_ok = ex_ok and good
    ctx.ob("R13.5", "non-str expires formatted by http_date", ex_ok, ex_fact, dump, dump.node, "expires")

    # ---- R13.6 -----------------------------------------------------
    _delegation_rules(ctx, folder)
    _client_rules(ctx, folder, 0x3B in ESC)


def show_header(h: Header | None) -> str:
    if h is None:
        return "?"
    it = iter(h.holes)
    return "".join("{" + show(next(it)) + "}" if c == HOLE else c for c in h.skeleton)


# ---------------------------------------------------------------------
# the sans-io parser


class Reader:
    # (raw value as captured by the pair regex; None = the value group did not take part)
    VALUES: list[str | None] = [None, "", "x", " x ", '"', '""', '"a"', ' "a" ', '"a', 'a"', '"a"b', 'a"b"', '"\\073"', '"\\""', '"é"', "a b", '"a b"', "'a'", '" "']

    def __init__(self, ctx: Ctx, folder: Folder):
        self.ctx = ctx
        self.folder = folder
        self.fi = ctx.repo.func("sansio.http.parse_cookie")
        ctx.saw(self.fi)
        for p in ("cookie", "cls"):
            if p not in self.fi.params:
                raise AnalysisError(f"sansio.http.parse_cookie has no parameter {p}")
        self.unsl: RegexConst = None  # type: ignore[assignment]
        self.unsl_repl: t.Any = None
        self.rows: list[tuple[str | None, str, Outcome]] = []
        self.pair_re: RegexConst | None = None
        self.sequence: tuple[bool, str] = (True, "")

    def _stored(self, key: str, raw: str | None) -> list[Outcome]:
        return self._stored_many([(key, raw)])

    def _stored_many(self, captured: list[tuple[str, str | None]]) -> list[Outcome]:
        """the parser evaluated on a header in which the pair regex captures exactly these (key, value) groups"""
        me = self

        def hook(s: Sym) -> list | None:
            if s.op == "method" and isinstance(s.args[0], RegexConst) and s.args[1] in ("findall", "finditer"):
                rx = s.args[0]
                if group_count(rx) != 2:
                    raise AnalysisError("sansio.http.parse_cookie: the pair regex does not have two groups")
                me.pair_re = rx
                if s.args[1] == "findall":
                    return [(key, raw if raw is not None else "") for key, raw in captured]
                names = dict(re.compile(rx.pattern, rx.flags).groupindex)
                return [H.FakeMatch((key, raw), None, names) for key, raw in captured]
            return None

        def oracle(s: Sym) -> bool | None:
            return True if s.op == "param" else None

        return explore(self.ctx.repo, self.folder, self.fi, lambda: dict(cookie=param("cookie", "str"), cls=Ref("<cls>")), oracle, hook, self.ctx.saw, atoms=ATOMS)

    @staticmethod
    def _pairs(o: Outcome) -> list | None:
        """the (key, value) pairs handed to the result class: cls(<list>) or cls() followed by .add(key, value)"""
        v = o.value
        if isinstance(v, Sym) and v.op == "call" and v.args[0] == Ref("<cls>") and not v.args[2]:
            if len(v.args[1]) == 1 and isinstance(v.args[1][0], (list, tuple)):
                return list(v.args[1][0])
            if not v.args[1]:
                adds = [e for e in o.effects if e.op == "method" and e.args[0] is v]
                if all(e.args[1] == "add" and len(e.args[2]) == 2 and not e.args[3] for e in adds):
                    return [tuple(e.args[2]) for e in adds]
        return None

    def analyse(self) -> None:
        subs = []
        for i, raw in enumerate(self.VALUES):
            key = f"k{i}"
            for o in self._stored(key, raw):
                if o.forks:
                    # the value is a constant here: a test the interpreter cannot decide would make the table below
                    # speak about paths that no input takes
                    raise AnalysisError(f"sansio.http.parse_cookie: cannot evaluate `{show(o.forks[0][0])[:80]}` for the captured value {raw!r}")
                self.rows.append((raw, key, o))
                if o.kind == "return":
                    if self._pairs(o) is None:
                        raise AnalysisError(f"sansio.http.parse_cookie returns `{show(o.value)[:80]}`, not cls(<list of pairs>)")
                    for s in H.walk_terms(self._pairs(o)):
                        rs = H.as_regex_sub(s)
                        if rs is not None and isinstance(rs[0].pattern, bytes):
                            subs.append(rs)
        if self.pair_re is None:
            raise AnalysisError("sansio.http.parse_cookie: no findall / finditer over a two-group regex (pair splitting slot)")
        if not subs:
            # the substitution is applied but its result is not what gets stored: still the unslash slot (the table below reports it)
            for _raw, _key, o in self.rows:
                for s in o.effects:
                    rs = H.as_regex_sub(s)
                    if rs is not None and isinstance(rs[0].pattern, bytes):
                        subs.append(rs)
        if not subs:
            raise AnalysisError("sansio.http.parse_cookie: no <bytes regex>.sub(...) reaches a stored value (unslash slot)")
        # a header with all the pairs at once stores what the pairs store one at a time, in order (nothing leaks from one
        # iteration into the next, nothing but empty keys is skipped)
        if all(o.kind == "return" for _r, _k, o in self.rows):
            singles: list = []
            for _r, _k, o in self.rows:
                singles.extend(self._pairs(o) or [])
            many = [(f"k{i}", raw) for i, raw in enumerate(self.VALUES)]
            many.insert(3, ("", "dropped"))
            many.insert(9, ("  ", '"dropped"'))
            bad = []
            for o in self._stored_many(many):
                got = self._pairs(o) if o.kind == "return" else None
                if o.forks or got is None or show(got) != show(singles):
                    bad.append(f"raises {o.exc}" if o.kind == "raise" else f"stored {show(got)[:200]}")
            self.sequence = (not bad, "; ".join(bad[:2]) or f"{len(many)} captured pairs, two of them with an empty key: {len(singles)} stored, each as when parsed alone")
        # the unescape is the innermost substitution (the one applied to the captured text)
        inner = [rs for rs in subs if not any(H.as_regex_sub(y) is not None for y in H.walk_terms(rs[2]))]
        if not inner or len({(rs[0].pattern, rs[0].flags) for rs in inner}) != 1:
            raise AnalysisError("sansio.http.parse_cookie: cannot identify the unslash substitution")
        self.unsl, self.unsl_repl = inner[0][0], inner[0][1]

    def report(self) -> None:
        ctx, fi = self.ctx, self.fi
        quoted_only: list[str] = []
        between: list[str] = []
        single: list[str] = []
        utf8: list[str] = []
        exact: list[str] = []
        n_q = 0
        at: ast.AST | None = None
        for raw, key, o in self.rows:
            s = (raw or "").strip()
            quoted = len(s) >= 2 and s[0] == s[-1] == '"'
            tag = f"value {raw!r}"
            if o.kind != "return":
                exact.append(f"{tag}: the parser raises {o.exc}")
                continue
            pairs = self._pairs(o) or []
            if len(pairs) != 1 or not isinstance(pairs[0], tuple) or len(pairs[0]) != 2 or pairs[0][0] != key:
                exact.append(f"{tag}: stored pairs {show(pairs)[:80]}")
                continue
            sv = pairs[0][1]
            inner_subs = [x for x in H.walk_terms(sv) if H.as_regex_sub(x) is not None]
            if not quoted:
                if inner_subs:
                    quoted_only.append(f"{tag} is unescaped although it is not quoted")
                elif sv != s or H.has_opaque(sv):
                    exact.append(f"{tag}: stored as {show(sv)[:60]}, expected {s!r}")
                continue
            n_q += 1
            if not inner_subs:
                quoted_only.append(f"{tag} is quoted but stored as {show(sv)[:60]}")
                continue
            if len(inner_subs) != 1:
                single.append(f"{tag}: {len(inner_subs)} substitutions: {show(sv)[:120]}")
            # innermost substitution = the unescape
            st = [x for x in inner_subs if not any(H.as_regex_sub(y) is not None for y in H.walk_terms(H.as_regex_sub(x)[2]))][0]  # type: ignore[index]
            at = at or _inside(st.node, fi)
            rx, _repl, subj, extra = H.as_regex_sub(st)  # type: ignore[misc]
            if (rx.pattern, rx.flags) != (self.unsl.pattern, self.unsl.flags) or extra:
                single.append(f"{tag}: substitution {show(st)[:100]}")
            want = s[1:-1].encode("utf-8")
            if subj != want or H.has_opaque(subj):
                between.append(f"{tag}: substitution runs over {show(subj)[:60]}, expected {want!r}")
            # decode(sub) is what must be stored
            dec = [x for x in H.walk_terms(sv) if x.op == "method" and x.args[1] == "decode" and x.args[0] == (inner_subs[0] if len(inner_subs) == 1 else st)]
            good_dec = False
            for d in dec:
                a, kw = H.call_args(d)
                codec = a[0] if a else kw.get("encoding", "utf-8")
                good_dec = good_dec or codec in ("utf-8", "utf8")
            if not good_dec:
                utf8.append(f"{tag}: stored {show(sv)[:100]}")
            if not (dec and sv == dec[0]) and len(inner_subs) == 1:
                exact.append(f"{tag}: stored {show(sv)[:120]} is not the decoded substitution itself")
        if n_q < 6:
            raise AnalysisError("sansio.http.parse_cookie: quoted representatives were not evaluated")
        unsl_name = H.const_name(fi.module, self.folder, self.unsl)
        ctx.ob("R13.2", "the parser unescapes exactly the text between the surrounding quotes", not between, "; ".join(between) or f"{unsl_name}.sub runs over value[1:-1] encoded as UTF-8 for every quoted representative", fi, at, "unslash argument")
        ctx.ob("R13.2", "the parser unescapes in a single pass", not single, "; ".join(single) or "one regex substitution between the captured text and the stored value", fi, at, "single unescape pass")
        ctx.ob("R13.2", "parser decodes unescaped bytes as UTF-8", not utf8, "; ".join(utf8) or "unslash result .decode() with default/utf-8 codec", fi, at, "parser decode")
        ctx.ob("R13.2", "the parser unescapes quoted values only (length >= 2, first and last character a double quote)", not quoted_only, "; ".join(quoted_only) or f"representatives {[v for v in self.VALUES]}: unescaped iff quoted", fi, at, "unescape quoted only")
        ctx.ob("R13.2", "every pair with a non-empty key is stored, in order, independently of the other pairs", self.sequence[0], self.sequence[1], fi, fi.node, "pairs stored in order")
        ctx.ob("R13.2", "parsed value is stored exactly as unescaped", not exact, "; ".join(exact) or "quoted: the decoded substitution is stored as is; unquoted: the stripped text is stored", fi, at, "value stored as unescaped")


# ---------------------------------------------------------------------
# R13.6


def _returns_call_to(outs: list[Outcome], fqs: tuple[str, ...]) -> tuple[bool, str]:
    rets = [o for o in outs if o.kind == "return"]
    bad = [show(o.value)[:80] for o in rets if not any(H.is_call_to(o.value, fq) for fq in fqs)]
    return bool(rets) and not bad, (f"{len(rets)} returning path(s)" + (f"; not a parser call: {bad}" if bad else ""))


def _delegation_rules(ctx: Ctx, folder: Folder) -> None:
    repo = ctx.repo

    def oracle(s: Sym) -> bool | None:
        return None

    hp = repo.func("http.parse_cookie")
    ctx.saw(hp)
    first = hp.params[0] if hp.params else None
    if first is None:
        raise AnalysisError("http.parse_cookie has no parameter")
    outs: list[Outcome] = []
    for typ in ("str", "dict"):
        args = {first: param(first, typ)}
        if "cls" in hp.params:
            args["cls"] = Ref("<cls>")
        outs += explore(repo, folder, hp, lambda a=args: dict(a), oracle, None, ctx.saw, atoms=ATOMS)
    ok, fact = _returns_call_to(outs, ("werkzeug.sansio.http.parse_cookie",))
    ctx.ob("R13.6", "http.parse_cookie delegates to the sans-io parser", ok, fact, hp, hp.node, "delegation")

    rq = repo.func("sansio.request.Request.cookies")
    ctx.saw(rq)
    outs = explore(repo, folder, rq, lambda: dict(self=param("self")), oracle, None, ctx.saw, atoms=ATOMS)
    ok, fact = _returns_call_to(outs, ("werkzeug.http.parse_cookie", "werkzeug.sansio.http.parse_cookie"))
    ctx.ob("R13.6", "Request.cookies parses with parse_cookie", ok, fact, rq, rq.node, "request cookies")

    sc = repo.func("sansio.response.Response.set_cookie")
    ctx.saw(sc)
    dump = repo.func("http.dump_cookie")
    want = ["key", "value", "max_age", "expires", "path", "domain", "secure", "httponly", "samesite", "partitioned"]
    missing_p = [w for w in want if w not in sc.params]
    if missing_p:
        ctx.ob("R13.6", "set_cookie forwards every attribute", False, f"set_cookie has no parameter(s) {missing_p}", sc, sc.node, "set_cookie forwarding")
        return
    args = {p: param(p) for p in sc.params}
    outs = explore(repo, folder, sc, lambda: dict(args), oracle, None, ctx.saw, atoms=ATOMS)
    fwd_ok = bool(outs)
    fact = ""
    for o in outs:
        if o.kind != "return":
            continue
        dcalls = [e for e in o.effects if H.is_call_to(e, "werkzeug.http.dump_cookie")]
        if len(dcalls) != 1:
            fwd_ok = False
            fact = f"{len(dcalls)} dump_cookie call(s) on a path"
            continue
        a, kw = H.call_args(dcalls[0])
        bound = H.bind_call(dump, a, kw)
        wrong = [w for w in want if bound.get(w) != param(w)]
        added = [e for e in o.effects if e.op == "method" and e.args[1] == "add" and e.args[2][:1] == ("Set-Cookie",) and e.args[2][1:2] == (dcalls[0],) and isinstance(e.args[0], Sym) and e.args[0].op == "attr" and e.args[0].args == (param("self"), "headers")]
        if wrong or len(added) != 1:
            fwd_ok = False
        fact = f"missing/incorrect keywords: {wrong}; self.headers.add('Set-Cookie', <dump_cookie result>): {len(added)}"
    ctx.ob("R13.6", "set_cookie forwards every attribute", fwd_ok, fact, sc, sc.node, "set_cookie forwarding")


def _client_rules(ctx: Ctx, folder: Folder, semicolon_escaped: bool) -> None:
    repo = ctx.repo
    tc = repo.func("test.Cookie._from_response_header")
    ctx.saw(tc)
    need = ["server_name", "path", "header"]
    if any(p not in tc.params for p in need):
        raise AnalysisError(f"test.Cookie._from_response_header: expected parameters {need}")
    self_name = tc.params[0]
    CLS = Ref("<Cookie>")

    def run(header: str) -> list[Outcome]:
        def oracle(s: Sym) -> bool | None:
            return True if s.op == "param" else None

        return explore(repo, folder, tc, lambda: {self_name: CLS, "server_name": param("server_name", "str"), "path": param("path", "str"), "header": header}, oracle, None, ctx.saw, atoms=ATOMS)

    fields = [st.target.id for st in tc.cls.node.body if isinstance(st, ast.AnnAssign) and isinstance(st.target, ast.Name)] if tc.cls is not None else []

    def built(o: Outcome) -> dict[str, t.Any] | None:
        """field -> value of the Cookie that is returned (positional arguments follow the dataclass field order)"""
        v = o.value
        if o.kind == "return" and isinstance(v, Sym) and v.op == "call" and v.args[0] == CLS and len(v.args[1]) <= len(fields):
            return {**dict(zip(fields, v.args[1])), **dict(v.args[2])}
        return None

    PARSERS = ("werkzeug.http.parse_cookie", "werkzeug.sansio.http.parse_cookie")
    cut_facts: list[str] = []
    for header in ['k="a\\073b"; Domain=example.com; Path=/p; Max-Age=5; Secure', "k=v", 'k="x=y"; Path=/']:
        pair = header.partition(";")[0]
        for o in run(header):
            kw = built(o)
            if kw is None:
                if o.kind == "return":
                    raise AnalysisError(f"test.Cookie._from_response_header returns `{show(o.value)[:80]}`, not cls(<keywords>)")
                cut_facts.append(f"{header!r}: raises {o.exc}")
                continue
            pcs = [e for e in o.effects if any(H.is_call_to(e, fq) for fq in PARSERS)]
            arg = None
            if len(pcs) == 1:
                a, k2 = H.call_args(pcs[0])
                arg = a[0] if a else (k2.get("header") if "header" in k2 else k2.get("cookie"))
            if not (isinstance(arg, str) and arg.strip() == pair.strip()):
                cut_facts.append(f"{header!r}: parse_cookie gets {show(arg)[:60]}, the pair is {pair!r}")
            if "key" not in kw or "value" not in kw:
                raise AnalysisError("test.Cookie._from_response_header: cls(...) without key= / value=")
            if kw["key"] != pair.partition("=")[0].strip() or kw["value"] != pair.partition("=")[2].strip():
                cut_facts.append(f"{header!r}: key/value {show(kw['key'])}/{show(kw['value'])}")
            dv = kw.get("decoded_value")
            if not (isinstance(dv, Sym) and pcs and any(x == pcs[0] for x in H.walk_terms(dv))):
                cut_facts.append(f"{header!r}: decoded_value {show(dv)[:60]} does not come from parse_cookie")
    ctx.ob("R13.6", "test client cuts the pair at the first ';' (safe because ';' is escaped) and parses only that pair", not cut_facts and semicolon_escaped, "; ".join(cut_facts) or f"parse_cookie gets exactly the text before the first ';'; 0x3b escaped: {semicolon_escaped}", tc, tc.node, "client split")

    # the cookie's own name never acts as an attribute
    def attrs_of(header: str) -> list[str]:
        res = []
        for o in run(header):
            kw = built(o)
            if kw is None:
                res.append(f"raises {o.exc}" if o.kind == "raise" else show(o.value)[:60])
            else:
                res.append(show({k: v for k, v in sorted(kw.items()) if k not in ("key", "value", "decoded_key", "decoded_value")}))
        return sorted(res)

    ph_facts: list[str] = []
    for rest in ["", "; Secure", "; Path=/p; Max-Age=3"]:
        base = attrs_of("k=v" + rest)
        for name in ["domain", "Domain", "path", "max-age", "Max-Age", "expires", "secure", "httponly", "samesite"]:
            got = attrs_of(f"{name}=v{rest}")
            if got != base:
                ph_facts.append(f"header {name + '=v' + rest!r}: attributes {got[0][:160]} differ from those of {'k=v' + rest!r}")
    ctx.ob("R13.6", "test client reads attributes from the part after the pair only", not ph_facts, "; ".join(ph_facts[:3]) or "a cookie named like an attribute gets the same attributes as any other cookie", tc, tc.node, "client attributes source")
