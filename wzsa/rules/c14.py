"""C14 - untrusted paths and filenames cannot escape the trusted directory (structural clauses)."""

from __future__ import annotations

import ast
import re
import typing as t

from .. import astq
from ..cfg import Node
from ..dataflow import Def, bound_in_enclosing_comp
from ..fold import Folder, RegexConst, single_class
from ..loader import AnalysisError, FuncInfo, dotted, norm
from ..report import Ctx
from ._c14_helpers import J_, JOIN, T_, X_, Atom, _derived, _loop_altsep, Nulls, Prov, Summary, Unit, ancestor_conds, const_fact, empty_test, growth_args, harmless_const, held_elements, helper_atoms, implied, join_kind, nested_defs, own_nodes, parse_atom, position

LEVEL_TEXT = (
    "Static decision of structural clauses of C14 on /repo's current source (POSIX path semantics). (R14.1) in "
    "security.safe_join every component that enters the result is an element of the untrusted *pathnames (all of "
    "them are traversed); on every path on which it enters it has passed, after posixpath.normpath (the empty "
    "string excepted), reject tests that together cover the three escaping shapes of a normalised POSIX path - "
    "starts with '/', equals '..', starts with '../' - plus the alternative-separator test; for the two '..' shapes the "
    "tested value is the normalised one (reaching definitions; a leading '/' or a separator character is unaffected "
    "by normpath and may be tested on either), each reject edge ends in `return None`, and the result is a join of the "
    "trusted directory (or its '' -> '.' replacement) with the survivors only. Decided on what is computed, not on its "
    "spelling: the components may be *pathnames or a sequence derived from it element by element (a comprehension "
    "that normalises, list / tuple copies; a slice or a filtered comprehension no longer has all of them); the "
    "traversal a for loop over it, over enumerate(...) or over range(len(...)) with an indexed read; the components "
    "enter the result by growing a list that is joined (append / extend / += / `[*L, x]` / `L + [x]`), by joining "
    "incrementally (`r = join(r, x)`) or as the whole sequence (`join(directory, *components)`) after a completed "
    "check of every component - a checking traversal that can only be left through its exhausted head, or an "
    "any(...) / all(...) test over the sequence; a reject edge may reach `return None` through a flag set on it and "
    "tested later (constants are propagated along the path). Where no single reject test stands in front of a place at "
    "which a value enters the result, that place is decided under the facts of each path of the iteration that reaches "
    "it: equality / membership / emptiness guards (`x == ''`, `not x`, `len(x) == 0`, `x in ('', '.')`) pin a value to "
    "finitely many constants on one edge and exclude them on the other, copies share the fact, a constant assignment "
    "makes one, any other binding forgets it; a path is settled when it crosses the pass edge of a covering reject "
    "test, when the value that arrives is pinned to constants none of which has the shape (a constant is judged as "
    "it is joined: no leading '/', no '..' segment, no separator character), or when it is known from the holding edge "
    "of a startswith test to begin with a prefix no string of the shape begins with; a literal string appended "
    "directly is judged the same way; only the tests whose reject edge never reaches that place owe the `return None`. "
    "Steps of the iteration may live in module-level helpers: a "
    "normaliser (returns normpath of its argument, the empty string excepted, on every path) counts as the normpath "
    "step; a component filter (returns None or its argument) is judged like one iteration - the four shapes before "
    "each `return <component>`, reject edges ending in its `return None` - and the caller must test its result for "
    "None before the component enters the result, the None edge ending in `return None`. The reject tests are read through their structure: "
    "an or-chain, a flag variable assigned in the same iteration, a module-level predicate helper called with the "
    "component, summarised one level on the helper's CFG (a predicate on the parameter counts when its edge leads only to "
    "constant returns of one truthiness and no path to the helper's exit avoids it - `return a or b`, sequential early "
    "returns, an explicit loop over the alternative separators and the negated polarity give the same summary), "
    "startswith with a tuple, `x[:n] == c`, `x.partition('/')[0] == '..'` / `x.split('/')[0] == '..'` (first segment); "
    "`(x + '/').startswith('../')` (first segment again); a part of the component bound to a local first (`first = "
    "x.partition('/')[0]`, by index, by unpacking, by a walrus inside the test) is read as that part, evaluated where it "
    "was bound, provided no path from a binding of the component to the test avoids that binding; the "
    "alternative-separator test may be an explicit inner loop over the separators inside the iteration (every "
    "separator reaches the test, passed = that loop exhausted); "
    "`normpath unless empty` may be a statement or a conditional expression / `x and normpath(x)`. The whole sequence "
    "may also enter the joined list in one step (`L.extend(S)`, `L += S`, `[*L, *S]`, `L + S`) behind a completed check "
    "of every component, and a list that starts as `[directory, *components]` may have its slots overwritten "
    "(`L[i] = x` under `enumerate(<components>, start=1)`, x that iteration's component raw or normalised: another "
    "value or another slot is a violation, any other in-place change of such a list an analysis error); the sequence "
    "may come out of a module-level helper that returns a sequence derived element by element or is a generator "
    "yielding each element exactly once, raw or normalised. (R14.2) every "
    "filesystem sink (open, os.path.isfile/getmtime/getsize/exists/isdir, os.stat, send_file, open_resource, and "
    "pass-through helpers such as _opener) reached from utils.send_from_directory and SharedDataMiddleware - their "
    "nested callables and closures (every parameter request-derived, free variables looked up in the enclosing "
    "function) and the same-module functions / same-class methods they call, whose parameters get the join of what "
    "the call sites (functools.partial included) pass - receives a value built only from trusted configuration and "
    "safe_join(<trusted base>, ...) results, never the raw request-derived name. The origin of a value is a set over the "
    "arms of conditional expressions and and/or chains and over reaching definitions, each arm judged under the "
    "condition that selects it (the condition itself does not flow into the value; an arm that is a name known to be "
    "None / falsy there carries no path; a followed helper's call stands for what it returns). A safe_join result keeps "
    "its standing only while it is copied, selected or joined by os.path.join / posixpath.join with trusted operands: "
    "any other call, method call, concatenation, formatting or slicing applied to it AFTER the containment check "
    "(unquote, normpath, expandvars, replace ...) may re-open the escape and makes the value untrusted for every sink "
    "it reaches. A list / tuple display merely holds its elements: indexing it, iterating over it or spreading it with "
    "`*` into os.path.join gives the held values back, and whatever is put into it in place (append / insert / extend / "
    "item or slice store, anywhere in the function) is part of what it holds. A function defined locally and only ever "
    "called by its name is followed like a module-level helper (parameters = what the calls pass). A filesystem "
    "function used as a value (a table of probes) makes the sinks un-enumerable (analysis error), and so does "
    "safe_join used as a value (functools.partial(safe_join, base), an alias) for the containment checks. (R14.3) the None of a refusing safe_join call never arrives where the result is used as a value: for "
    "every use, every path from a definition that may hold the None (through copies, conditional arms, walrus "
    "bindings, a helper that hands the result or its refusal on, a parameter a caller binds to it) passes the "
    "not-None edge of a test about that value - `is None` / `is not None` / truthiness / isinstance, merged or split "
    "conditions, a flag computed from it, a conditional expression or `x is not None and f(x)` around the use, a test "
    "of the copied original - and the None edge of each such test ends (while the variable stays None) in NotFound / "
    "a returned None / (None, None), also when that value or exception was bound to a name first, when a `raise E` "
    "inside a try is translated by the `except E` clause of that try, or - for a candidate taken from a list of "
    "candidates in a loop - in turning to the next candidate (a return whose value is read out of a local container "
    "is not understood: analysis error); "
    "SharedDataMiddleware calls the opener that came out of a loader only where it cannot be None (also when the call "
    "sits in a followed helper that received it) and the None edge of the deciding test falls through to the "
    "wrapped app. (R14.4) the value returned by utils.secure_filename has passed a character filter - a regex "
    "substitution (method or re.sub spelling), applied to the whole string or to every piece of its split, or a "
    "`''.join(ch for ch in x if <keep>)` comprehension (inline or bound to a local; keep conditions: regex match, "
    "membership in a constant, str character-class methods, and / or / not of these) - whose kept "
    "alphabet is ASCII without '/', '\\\\' and whitespace, and a strip() of a set containing '.' is applied after every "
    "operation that can delete characters; later edits only add non-dot leading characters from that alphabet. "
    "(R14.5) a safe_join result is contained in the BASE (first argument) of that call and in nothing narrower - each "
    "further argument is normalised as one string, so a directory name that reached such an argument in one string with "
    "request data is ordinary text there and the request's '..' segments consume it. At every safe_join call (same "
    "units as R14.2) that has a request-derived component argument, the history of that argument - backwards through "
    "reaching definitions, conditional arms, list / tuple holders and what is appended to them, parameters of followed "
    "helpers (their call sites) and results of followed helpers (their returns) - contains no place where a path is "
    "put together (os.path.join / posixpath.join, `+`, `+=`, `%`, f-string, `<const>.join([...])`, str.format, pathlib "
    "`/` / joinpath) from a request-derived operand and a trusted operand that is not constant text (a parameter, "
    "configuration, a closure variable, a safe_join result); literals, module-level names and locals bound only to "
    "such are constant text, and a trusted value passed as a component argument of its own is checked on its own. In "
    "send_from_directory (and the helpers it calls) the base of every such call depends on the `directory` parameter "
    "on every reaching definition and every arm of a selection (within one expression: some operand does). Not "
    "decided: that a constant prefix joined to the request data (`'css/' + path`) was meant as part of the trusted "
    "directory; which configuration value SharedDataMiddleware's loaders are meant to be contained in beyond the base "
    "being trusted; posixpath.normpath's contract ('..' survives only as leading segments - trusted), symlinks, Windows "
    "drive / UNC forms, that SharedDataMiddleware hands loaders only the suffix after the export prefix (not needed "
    "for containment), that no component is dropped on a non-refusing path of safe_join's loop (a functional, not a "
    "containment property), the NFKD / ASCII-fold quality of secure_filename, and idempotence of secure_filename as "
    "a law (it follows from the output being a fixed point of each step; not checked)."
)
TRUSTED = [
    "CPython ast and re._parser",
    "posixpath.normpath contract: the result is '.', or has no '.', '' or inner '..' segments; '..' only as leading segments; leading '/' or '//' kept",
    "posixpath.join(a, *rel) with every rel not starting with '/' stays textually under a",
    "str.strip(S) removes every leading character that is in S",
]
ASSUMPTIONS = [
    "POSIX host (os.sep == '/', os.path.altsep is None), as the property states",
    "constructor arguments of SharedDataMiddleware and the `directory` argument of send_from_directory / safe_join are trusted configuration",
    "the trusted directory contains no symlinks leading outside",
]

SINK_FQ = {
    "builtins.open", "io.open", "os.open", "os.stat", "os.lstat", "os.listdir", "os.scandir",
    "os.path.isfile", "os.path.isdir", "os.path.exists", "os.path.getmtime", "os.path.getsize",
    "werkzeug.utils.send_file",
}
SINK_ATTRS = {"open_resource"}
NORMPATH = {"posixpath.normpath", "os.path.normpath"}


# =====================================================================
# R14.1


def _unit_of(ctx: Ctx, fi: FuncInfo, **kw) -> Unit:
    ctx.saw(fi)
    return Unit(ctx.repo, fi, fi.node, fi.qualname, **kw)


def _norm_arg(u: Unit, value: ast.AST | None) -> ast.Name | None:
    """`posixpath.normpath(<Name>)` -> that Name."""
    if isinstance(value, ast.Call) and u.resolve(value.func) in NORMPATH and len(value.args) == 1 and not value.keywords and isinstance(value.args[0], ast.Name):
        return value.args[0]
    return None


def _roots(u: Unit, name: str, node: Node, depth: int = 0) -> tuple[set[Def], set[Def], set[Def]]:
    """(root definitions, normalising definitions on the way, raw definitions that reach `node` un-normalised)
    of variable `name` as seen by expressions evaluated in `node`; a root is any definition whose value is not one
    of the value forms of `_value_form` (copy, normpath, `normpath unless empty` selection)."""
    roots: set[Def] = set()
    norms: set[Def] = set()
    raw: set[Def] = set()
    for d in u.rd.reaching(node, name):
        f = None
        if d.kind in ("assign", "walrus") and d.index is None and d.value is not None and d.node is not None and depth < 4:
            f = _value_form(u, d.value, d, depth + 1)
        if f is None:
            roots.add(d)
            raw.add(d)
        else:
            roots |= f[0]
            norms |= f[1]
            raw |= f[2]
    return roots, norms, raw


def _value_form(u: Unit, e: ast.AST, d: Def, depth: int) -> tuple[set[Def], set[Def], set[Def]] | None:
    """the right-hand side of definition `d` read as a value derived from other names:
        y                                  plain copy
        normpath(y)                        normalised by d
        A if <test> else B  /  y and A     selection; a branch that is `y` under a test that makes y == "" is the
                                           empty string (needs no normalisation); any other raw value flowing through
                                           the selection makes d itself a raw definition
        ""                                 the empty string
    None: not such a form (d is a root)."""
    assert d.node is not None
    if isinstance(e, ast.Name):
        return _roots(u, e.id, d.node, depth)
    a = _norm_arg(u, e)
    if a is None and isinstance(e, ast.Call) and len(e.args) == 1 and not e.keywords and isinstance(e.args[0], ast.Name) and _is_normaliser(u, e):
        a = e.args[0]  # a module-level helper that returns normpath(<its argument>), the empty string excepted
    if a is not None:
        r, n, _ = _roots(u, a.id, d.node, depth)
        return r, n | {d}, set()
    if isinstance(e, ast.Constant) and e.value == "":
        return set(), set(), set()
    if isinstance(e, ast.BoolOp) and isinstance(e.op, ast.And) and len(e.values) == 2 and isinstance(e.values[0], ast.Name):
        # `y and A`  ==  `A if y else y`
        e = ast.IfExp(test=e.values[0], body=e.values[1], orelse=e.values[0])
    if isinstance(e, ast.IfExp):
        emp = empty_test(e.test)
        roots: set[Def] = set()
        norms: set[Def] = set()
        leak = False
        for branch, taken in ((e.body, True), (e.orelse, False)):
            if emp is not None and emp[1] == taken and isinstance(branch, ast.Name) and branch.id == emp[0].id:
                r, n, _ = _roots(u, branch.id, d.node, depth)  # the value is ""
                roots |= r
                norms |= n | {d}
                continue
            f = _value_form(u, branch, d, depth + 1) if depth < 6 else None
            if f is None:
                return None
            roots |= f[0]
            norms |= f[1]
            leak = leak or bool(f[2])
        return roots, norms, ({d} if leak else set())
    return None


def _module_helper(u: Unit, c: ast.Call) -> FuncInfo | None:
    """the module-level function of the unit's module that a call `f(...)` runs."""
    if not isinstance(c.func, ast.Name):
        return None
    h = u.module.functions.get(c.func.id)
    if h is None or u.resolve(c.func) != f"{u.module.name}.{c.func.id}" or h.node is u.node:
        return None
    return h


def _is_normaliser(u: Unit, c: ast.Call) -> bool:
    """does the called module-level helper return, on every path, its (single) parameter normalised by
    posixpath.normpath - the empty string excepted?  (the `normpath unless empty` step extracted into a function)"""
    h = _module_helper(u, c)
    if h is None:
        return False
    cached = getattr(h, "_c14_normaliser", None)
    if cached is not None:
        return cached
    h._c14_normaliser = False  # type: ignore[attr-defined]  # recursion guard
    a = h.node.args  # type: ignore[attr-defined]
    pos = a.posonlyargs + a.args
    rets = astq.returns_of(h.node)
    ok = len(pos) == 1 and not a.vararg and not a.kwarg and bool(rets)
    if ok:
        hu = Unit(u.repo, h, h.node, h.qualname)
        pdef = next(d for d in hu.rd.param_defs if d.name == pos[0].arg)
        for r in rets:
            rn = hu.cfg.node_of(r)
            if r.value is None or rn is None:
                ok = False
                break
            f = _value_form(hu, r.value, Def("<return>", "assign", r.value, rn, None, None, r), 1)
            if f is None or f[0] != {pdef}:
                ok = False
                break
            if f[2]:
                # the raw parameter may arrive only as the empty string
                reach = hu.cfg.reach([hu.cfg.entry], avoid_nodes=[d.node for d in f[1] if d.node is not None and d.node is not rn], avoid_edges=_empty_edges(hu, pdef))
                if f[2] != {pdef} or rn.id in reach:
                    ok = False
                    break
    h._c14_normaliser = ok  # type: ignore[attr-defined]
    return ok


def _empty_edges(u: Unit, root: Def) -> list[tuple[Node, str]]:
    """edges on which the raw loop element (under any name that is a plain copy of it) is known to be ''."""
    out = []
    for tn in u.cfg.tests():
        if tn.kind != "test":
            continue
        r = empty_test(tn.ast)
        if r is None:
            continue
        roots, norms, raw = _roots(u, r[0].id, tn)
        if roots == {root} and not norms and raw == {root}:
            out.append((tn, "T" if r[1] else "F"))
    return out


class _Seq(t.NamedTuple):
    """a sequence of path components derived element by element from *pathnames."""

    all: bool  # every element of *pathnames, in order
    normal: bool  # every element is normpath(<component>) or the empty string
    text: str


class _Pass(t.NamedTuple):
    """one traversal of the components: a for loop whose iteration handles one element."""

    loop: ast.For
    head: Node
    seq: _Seq
    roots: frozenset  # the definitions that bind the current element (loop target / `x = seq[i]`)


class _SafeJoin:
    """R14.1 decided on what the function computes, not on how the traversal is spelled.

    * the components: *pathnames, or a sequence built from it element by element (`[normpath(p) if p else p for p
      in pathnames]`, list(...), tuple(...)); a slice or a filtered comprehension no longer has all of them;
    * a traversal: `for x in <components>`, `for i, x in enumerate(<components>)`, `for i in range(len(<components>))`
      with `x = <components>[i]`;
    * how components reach the result: grown into a list (`L.append(x)`, `L += [x]`, `L.extend([x])`, `L = [*L, x]`,
      `L = L + [x]`) that is joined, joined incrementally (`r = join(r, x)`), or the whole sequence joined at once
      (`join(directory, *components)`) after a checking traversal / an `any(...)` / `all(...)` test over it;
    * the reject tests: see `_atoms_of_test`; a reject edge must end in `return None` - directly, or through a flag
      that is set on the edge and tested after the loop (constants are propagated along the path)."""

    SHAPES = (("abs", "starts with '/' (absolute)", False), ("dotdot", "equals '..'", True), ("dotdot/", "starts with '../'", True), ("altsep", "contains an alternative separator (Windows hosts)", False))

    def __init__(self, ctx: Ctx, helper: FuncInfo | None = None):
        self.ctx = ctx
        self.helper = helper
        self.fi = helper or ctx.repo.func("security.safe_join")
        self.u = _unit_of(ctx, self.fi)
        self.fn = self.fi.node
        self.cfg, self.rd = self.u.cfg, self.u.rd
        a = self.fn.args
        if helper is None and (a.vararg is None or not (a.posonlyargs + a.args)):
            raise AnalysisError("safe_join: expected signature (directory, *pathnames)")
        self.vararg = a.vararg.arg if a.vararg is not None else None
        self.dirparam = (a.posonlyargs + a.args)[0].arg if helper is None else None
        self._filters: dict[int, bool] = {}
        self.none_rets = [n for n in (self.cfg.node_of(r) for r in astq.returns_of(self.fn) if r.value is None or astq.is_none(r.value)) if n is not None]
        self.n_atoms = self.n_shapes = self.n_join = self.n_growth = 0
        self._pass_atoms: dict[int, tuple[list[Atom], list[str], list[str]]] = {}
        self._pass_blind: dict[int, list[Node]] = {}  # tests on the component that could not be interpreted

    # -- values ----------------------------------------------------------------
    def trusted_dir(self, e: ast.AST, node: Node | None, depth: int = 0) -> bool:
        """the trusted base directory, possibly with its `"" -> "."` replacement."""
        if depth > 4 or node is None:
            return False
        if isinstance(e, ast.Constant):
            return isinstance(e.value, str) and not e.value.startswith(("/", ".."))
        if isinstance(e, ast.BoolOp) and isinstance(e.op, ast.Or):
            return all(self.trusted_dir(v, node, depth + 1) for v in e.values)
        if isinstance(e, ast.IfExp):
            return self.trusted_dir(e.body, node, depth + 1) and self.trusted_dir(e.orelse, node, depth + 1)
        if isinstance(e, ast.Call) and len(e.args) == 1 and not e.keywords and self.u.resolve(e.func) in ("os.fspath", "builtins.str"):
            return self.trusted_dir(e.args[0], node, depth + 1)  # the same text
        if isinstance(e, ast.Name):
            defs = self.rd.reaching(node, e.id)
            if not defs:
                return False
            for d in defs:
                if d.kind == "param" and d.name == self.dirparam:
                    continue
                if d.kind in ("assign", "walrus") and d.index is None and d.value is not None and d.node is not None and self.trusted_dir(d.value, d.node, depth + 1):
                    continue
                return False
            return True
        return False

    def comp_form(self, e: ast.AST, var: str, depth: int = 0) -> str | None:
        """element expression of a comprehension over the components: 'raw' (the element itself), 'normal'
        (normpath of it, the empty string excepted) or None (something else)."""
        if depth > 4:
            return None
        if isinstance(e, ast.Name):
            return "raw" if e.id == var else None
        if isinstance(e, ast.Constant) and e.value == "":
            return "normal"
        a = _norm_arg(self.u, e)
        if a is not None:
            return "normal" if a.id == var else None
        if isinstance(e, ast.BoolOp) and isinstance(e.op, ast.And) and len(e.values) == 2 and isinstance(e.values[0], ast.Name):
            e = ast.IfExp(test=e.values[0], body=e.values[1], orelse=e.values[0])
        if isinstance(e, ast.IfExp):
            emp = empty_test(e.test)
            out = "normal"
            for branch, taken in ((e.body, True), (e.orelse, False)):
                if emp is not None and emp[0].id == var and emp[1] == taken and ((isinstance(branch, ast.Name) and branch.id == var) or (isinstance(branch, ast.Constant) and branch.value == "")):
                    continue
                f = self.comp_form(branch, var, depth + 1)
                if f is None:
                    return None
                if f == "raw":
                    out = "raw"
            return out
        return None

    def seq_of(self, e: ast.AST, node: Node | None, depth: int = 0) -> _Seq | None:
        if depth > 5 or node is None:
            return None
        if isinstance(e, ast.Name):
            defs = self.rd.reaching(node, e.id)
            if e.id == self.vararg and defs and all(d.kind == "param" for d in defs):
                return _Seq(True, False, e.id)
            if len(defs) == 1:
                d = next(iter(defs))
                if d.kind in ("assign", "walrus") and d.index is None and d.value is not None and d.node is not None:
                    s = self.seq_of(d.value, d.node, depth + 1)
                    return s._replace(text=f"{e.id} = {s.text}") if s is not None else None
            return None
        if isinstance(e, ast.Call) and not e.keywords and len(e.args) == 1 and self.u.resolve(e.func) in ("builtins.list", "builtins.tuple", "builtins.iter"):
            return self.seq_of(e.args[0], node, depth + 1)
        if isinstance(e, ast.Call) and not e.keywords and len(e.args) == 2 and self.u.resolve(e.func) == "builtins.map" and not any(isinstance(a, ast.Starred) for a in e.args):
            # map(f, S): element by element, like the comprehension (f(x) for x in S)
            inner = self.seq_of(e.args[1], node, depth + 1)
            probe = ast.Call(func=e.args[0], args=[ast.Name(id="x", ctx=ast.Load())], keywords=[])
            if inner is not None and self.u.resolve(e.args[0]) in ("builtins.str", "os.fspath"):
                return inner._replace(text=norm(e)[:70])
            if inner is not None and _is_normaliser(self.u, probe):
                return _Seq(inner.all, True, norm(e)[:70])
            return None
        if isinstance(e, (ast.ListComp, ast.GeneratorExp)) and len(e.generators) == 1 and isinstance(e.generators[0].target, ast.Name) and not e.generators[0].is_async:
            g = e.generators[0]
            inner = self.seq_of(g.iter, node, depth + 1)
            form = self.comp_form(e.elt, g.target.id)
            if inner is None or form is None:
                return None
            return _Seq(inner.all and not g.ifs, inner.normal or form == "normal", norm(e)[:70])
        if isinstance(e, ast.Call) and not e.keywords and len(e.args) == 1 and not isinstance(e.args[0], ast.Starred):
            hs = self.helper_seq(e)
            inner = self.seq_of(e.args[0], node, depth + 1) if hs is not None else None
            if hs is not None and inner is not None:
                return _Seq(inner.all and hs.all, inner.normal or hs.normal, norm(e)[:70])
        if isinstance(e, ast.Subscript) and isinstance(e.slice, ast.Slice):
            inner = self.seq_of(e.value, node, depth + 1)
            whole = e.slice.lower is None and e.slice.upper is None and e.slice.step is None
            return inner._replace(all=inner.all and whole, text=norm(e)) if inner is not None else None
        return None

    def helper_seq(self, c: ast.Call) -> _Seq | None:
        """a module-level helper that hands its (single) sequence parameter on element by element: it returns a
        sequence derived from the parameter (`return [normpath(p) if p else p for p in names]`), or it is a generator
        whose one loop over the parameter yields, as the last thing of every iteration, that iteration's element - raw
        or normalised.  -> what the result is relative to the argument."""
        h = _module_helper(self.u, c)
        if h is None or self.helper is not None:
            return None
        cached = getattr(h, "_c14_seq", False)
        if cached is not False:
            return cached
        h._c14_seq = None  # type: ignore[attr-defined]
        a = h.node.args  # type: ignore[attr-defined]
        pos = a.posonlyargs + a.args
        if len(pos) != 1 or a.vararg or a.kwarg or a.kwonlyargs:
            return None
        sub = _SafeJoin(self.ctx, h)
        sub.vararg = pos[0].arg
        out: _Seq | None = None
        yields = [n for n in own_nodes(h.node, through_lambdas=False) if isinstance(n, (ast.Yield, ast.YieldFrom))]
        rets = astq.returns_of(h.node)
        if yields:
            loops = [st for st in h.node.body if isinstance(st, ast.For)]  # type: ignore[attr-defined]
            y = yields[0]
            last = loops[0].body[-1] if len(loops) == 1 and loops[0].body else None
            ps = sub.pass_of(loops[0]) if len(loops) == 1 else None
            leaves = [n for n in ast.walk(loops[0]) if isinstance(n, (ast.Break, ast.Continue, ast.Return))] if len(loops) == 1 else [None]
            if len(yields) == 1 and isinstance(y, ast.Yield) and ps is not None and isinstance(ps.head.ast, ast.For) and not loops[0].orelse and not leaves and not any(r.value is not None for r in rets) and isinstance(last, ast.Expr) and last.value is y and isinstance(y.value, ast.Name):
                yn = sub.cfg.node_of(last)
                roots, norms, raw = _roots(sub.u, y.value.id, yn) if yn is not None else (set(), set(), set())
                if yn is not None and len(roots) == 1 and roots <= ps.roots:
                    root = next(iter(roots))
                    normal = not raw
                    if raw == {root} and norms:
                        r = sub.cfg.reach([ps.head], avoid_nodes=[d.node for d in norms if d.node is not None], avoid_edges=_empty_edges(sub.u, root) + [(ps.head, "F")])
                        normal = yn.id not in r
                    out = _Seq(ps.seq.all, ps.seq.normal or normal, f"{h.name}(...)")
        elif len(rets) == 1 and rets[0].value is not None:
            rn = sub.cfg.node_of(rets[0])
            sq = sub.seq_of(rets[0].value, rn) if rn is not None else None
            if sq is not None:
                out = sq._replace(text=f"{h.name}(...)")
        if out is not None:
            self.ctx.saw(h)
        h._c14_seq = out  # type: ignore[attr-defined]
        return out

    def pass_of(self, loop: ast.AST | None) -> _Pass | None:
        """the traversal a for loop performs, or None when it does not range over the components."""
        if not isinstance(loop, ast.For):
            return None
        head = self.cfg.node_of(loop)
        if head is None:
            return None
        it, tg = loop.iter, loop.target
        loopdefs = [d for d in self.rd.gen[head.id] if d.kind == "for"]
        if isinstance(tg, ast.Name):
            s = self.seq_of(it, head)
            if s is not None:
                return _Pass(loop, head, s, frozenset(d for d in loopdefs if d.name == tg.id))
            # for i in range(len(S)): x = S[i]
            if isinstance(it, ast.Call) and self.u.resolve(it.func) == "builtins.range" and len(it.args) in (1, 2) and not it.keywords:
                ln = it.args[-1]
                from_start = len(it.args) == 1 or (isinstance(it.args[0], ast.Constant) and it.args[0].value == 0)
                if isinstance(ln, ast.Call) and self.u.resolve(ln.func) == "builtins.len" and len(ln.args) == 1:
                    s = self.seq_of(ln.args[0], head)
                    if s is not None:
                        roots = set()
                        for ds in self.rd.gen.values():
                            for d in ds:
                                v = d.value
                                if d.kind == "assign" and d.index is None and d.node is not None and self.u.inside(d.stmt, loop) and isinstance(v, ast.Subscript) and astq.is_name(v.slice, tg.id) and norm(v.value) == norm(ln.args[0]) and self.rd.reaching(d.node, tg.id) == frozenset(loopdefs):
                                    roots.add(d)
                        if roots:
                            return _Pass(loop, head, s._replace(all=s.all and from_start), frozenset(roots))
            return None
        if isinstance(tg, ast.Tuple) and len(tg.elts) == 2 and isinstance(tg.elts[1], ast.Name) and isinstance(it, ast.Call) and self.u.resolve(it.func) == "builtins.enumerate" and it.args:
            s = self.seq_of(it.args[0], head)
            if s is not None:
                return _Pass(loop, head, s, frozenset(d for d in loopdefs if d.name == tg.elts[1].id and d.index == 1))
        return None

    # -- reject tests of one traversal ---------------------------------------------
    def atoms_of_pass(self, p: _Pass) -> tuple[list[Atom], list[str], list[str]]:
        if id(p.loop) in self._pass_atoms:
            return self._pass_atoms[id(p.loop)]
        u, cfg = self.u, self.cfg
        atoms: list[Atom] = []
        unknown: list[str] = []
        rawtests: list[str] = []
        for tn in cfg.tests():
            if tn.kind != "test" or not u.inside(tn.ast, p.loop):
                continue
            via: Node | None = None
            la = _loop_altsep(u, tn)
            if la is not None and la[4] is not p.loop and u.inside(la[4], p.loop):
                # `for sep in <alternative separators>: if sep in x: <reject>` inside the iteration: the explicit-loop
                # spelling of any(sep in x for sep in ...); passed = the inner loop exhausted
                ih = cfg.node_of(la[4])
                if ih is not None and self.every_alternative_tested(la[4], ih, tn, la[2]):
                    cands, complete, via = [(la[0], la[1], la[2], la[3], f"{norm(tn.ast)} for {norm(la[4].target)} in {norm(la[4].iter)}", tn)], True, ih
                else:
                    cands, complete = None, True
            else:
                cands, complete = _atoms_of_test(self.ctx, u, tn, p.head)
            if cands is None:
                if const_fact(u, tn.ast) is None and any(isinstance(x, ast.Name) and isinstance(x.ctx, ast.Load) and 0 < len(_roots(u, x.id, tn)[0]) and _roots(u, x.id, tn)[0] <= p.roots for x in ast.walk(tn.ast)):
                    unknown.append(norm(tn.ast))
                    self._pass_blind.setdefault(id(p.loop), []).append(tn)
                continue
            if not complete:
                unknown.append(norm(tn.ast))
                self._pass_blind.setdefault(id(p.loop), []).append(tn)
            for kind, consts, lab, var, text, en in cands:
                roots, norms, raw = _roots(u, var.id, en)
                if len(roots) != 1 or not roots <= p.roots:
                    continue  # a test about something else
                root = next(iter(roots))
                # normalised on every path of this iteration? the raw element may arrive only as ""
                normal = True
                if raw and not p.seq.normal:
                    if raw != {root}:
                        normal = False
                    else:
                        r = cfg.reach([p.head], avoid_nodes=[d.node for d in norms if d.node is not None], avoid_edges=_empty_edges(u, root) + ([(p.head, "F")] if p.head.kind == "loop" else []))
                        normal = bool(norms) and en.id not in r
                if kind in ("eq", "in") and set(consts) == {""}:
                    continue  # emptiness test, not a reject atom
                if not normal:
                    rawtests.append(text)
                atoms.append(Atom(tn, lab, kind, consts, var, text, normal, en, via))
        self.n_atoms += len(atoms)
        self._pass_atoms[id(p.loop)] = (atoms, unknown, rawtests)
        return atoms, unknown, rawtests

    def every_alternative_tested(self, loop: ast.For, ih: Node, tn: Node, holds: str) -> bool:
        """inner loop `loop` (head `ih`) applies test `tn` to every element of its table: each of its iterations
        reaches the test (nothing leaves the loop or starts the next round before it), and on the edge on which
        the test does not hold the only way on is back to the head (no break / return that would skip the rest).
        An `else` clause belongs to the exhausted edge and is fine."""
        cfg, u = self.cfg, self.u
        body = {id(x) for st in loop.body for x in ast.walk(st)}

        def in_body(n: Node) -> bool:
            return n is tn or (n.ast is not None and id(n.ast) in body)

        by_id = {n.id: n for n in cfg.nodes}
        first = [s for s in cfg.succ(ih, "T") if s is not tn]
        before = cfg.reach(first, avoid_nodes=[tn, ih]) if first else set()
        if ih.id in before or not all(in_body(by_id[i]) for i in before):
            return False
        passlab = "F" if holds == "T" else "T"
        nxt = [s for s in cfg.succ(tn, passlab) if s is not ih]
        after = cfg.reach(nxt, avoid_nodes=[ih]) if nxt else set()
        return all(in_body(by_id[i]) for i in after)

    def refuses(self, test: Node, label: str, stop: list[Node]) -> bool:
        """does every path that leaves `test` on `label` end in `return None` - without coming back to a node in
        `stop` (the loop head: the next component; the place where the component is used), raising or returning a
        path?  Constants assigned on the way (`refused = True; break`) decide later tests of that flag."""
        cfg = self.cfg
        goals = {n.id for n in self.none_rets}
        if not goals:
            return False
        bad = {cfg.exit.id, cfg.raise_exit.id} | {n.id for n in stop}
        stack: list[tuple[Node, tuple[tuple[str, object], ...]]] = [(s, ()) for s in cfg.succ(test, label)]
        seen: set[tuple[int, tuple]] = set()
        while stack:
            n, env = stack.pop()
            if n.id in goals or (n.id, env) in seen:
                continue
            seen.add((n.id, env))
            if n.id in bad:
                return False
            known = dict(env)
            for d in self.rd.gen[n.id]:
                if d.kind == "assign" and d.index is None and isinstance(d.value, ast.Constant):
                    known[d.name] = d.value.value
                else:
                    known.pop(d.name, None)
            env2 = tuple(sorted(known.items(), key=lambda kv: kv[0]))
            only = None
            if n.kind == "test":
                only = _const_truth(n.ast, known)
            for s2, lab in n.succs:
                if lab == "exc" or (only is not None and lab in ("T", "F") and lab != ("T" if only else "F")):
                    continue
                stack.append((s2, env2))
        return True

    # -- obligations ------------------------------------------------------------------
    def shapes_in_pass(self, p: _Pass, sn: Node, site: ast.AST, w_roots: set[Def] | None, where: str, arg: ast.AST | None = None) -> None:
        """the four escaping shapes are rejected on every path of the iteration that reaches `sn` (the place where the
        component enters the result; the loop head itself for a pure checking traversal).  `arg`: the expression
        whose value enters the result there (decides the value class of the site: see `by_value_class`)."""
        u, cfg, ctx, fi = self.u, self.cfg, self.ctx, self.fi
        atoms, unknown, rawtests = self.atoms_of_pass(p)
        starts = cfg.succ(p.head, "T") if p.head.kind == "loop" else [x for x, _ in p.head.succs]
        stops = [p.head] + ([sn] if sn is not p.head else [])
        for what, desc, need_norm in self.SHAPES:
            cover = [a for a in atoms if a.covers(what)]
            guarding = []
            usable_ = []
            for a in cover:
                dom = sn.id not in cfg.reach(starts, avoid_edges=[a.pass_edge])
                same = w_roots is None or _roots(u, a.var.id, a.evalnode)[0] == w_roots
                if same and (a.normal or not need_norm):
                    usable_.append(a)
                    if dom:
                        guarding.append(a)
            cross = [] if guarding or p.head.kind != "loop" else self.cross_guards(what, need_norm, p.head, exclude=p)
            classes: list[str] | None = None
            if not guarding and not cross and arg is not None and sn is not p.head:
                # no single test stands before this site on every path: decide the site under the facts of each
                # path that reaches it (constants pinned by equality guards, reject tests passed on the way)
                hints = [a for a in atoms if a.kind == "prefix" and a.evalnode is a.node and (a.normal or not need_norm) and (w_roots is None or _roots(u, a.var.id, a.evalnode)[0] == w_roots)]
                classes = self.by_value_class(p, sn, arg, starts, usable_, what, hints)
                if classes is not None:
                    # the tests that finally turn a component away (their reject edge never comes to this site)
                    # owe the `return None`; a test whose reject edge goes on to further tests is only a case split
                    guarding = [
                        a for a in usable_
                        if sn.id in cfg.reach(cfg.succ(*a.pass_edge), avoid_nodes=[p.head]) and sn.id not in cfg.reach(cfg.succ(a.node, a.reject), avoid_nodes=[p.head])
                    ]
            ok = bool(guarding or cross or classes is not None)
            self.n_shapes += 1
            blind = [tn for tn in self._pass_blind.get(id(p.loop), []) if sn.id in cfg.reach([tn], avoid_nodes=[p.head])]
            if not ok and unknown and (not cover or blind):
                # a test about the component that was not understood stands before this place: it may be the guard
                raise AnalysisError(f"safe_join: cannot interpret test(s) {unknown} on the component; shape '{what}' undecided")
            if classes is not None:
                fact = f"decided per path to {where}: " + (f"where no reject test has been passed the value is one of / begins with {', '.join(classes)}, which excludes a value that {desc}" if classes else "every path passes a reject test") + (f"; the other paths pass {[a.text for a in guarding]}" if guarding else "")
            elif guarding:
                fact = f"rejected by {[a.text for a in guarding]} on {'the normalised ' if guarding[0].normal else ''}`{guarding[0].var.id}` before {where}"
            elif cross:
                fact = f"rejected by an earlier check of every component: {cross} before {where}"
            else:
                usable = [a.text for a in cover if a.normal or not need_norm]
                fact = (
                    f"no reject test {'on the normalised component ' if need_norm else ''}covers it before {where}; tests on the normalised value: {[a.text for a in atoms if a.normal]}; "
                    f"tests reading the un-normalised value: {rawtests}" + (f"; covering tests that do not guard it: {usable}" if usable else "")
                )
            ctx.ob("R14.1", f"a normalised component that {desc} is never appended", ok, fact, fi, cover[0].node.ast if cover else site, f"safe_join reject {what}")
            for a in guarding:
                okr = self.refuses(a.node, a.reject, stops)
                ctx.ob("R14.1", f"the reject edge of `{a.text}` ends in `return None`", okr, "every path from the edge reaches `return None`" if okr else "a path from the reject edge continues the loop, raises or returns a path", fi, a.node.ast, f"safe_join refuse {what} {a.kind}")

    def by_value_class(self, p: _Pass, sn: Node, arg: ast.AST, starts: list[Node], tests: list[Atom], what: str, hints: t.Sequence[Atom] = ()) -> list[str] | None:
        """the obligation of a place where a value enters the result is about the *values* that can arrive there, not
        about the tests in front of it: walk every path of one iteration from its start to `sn`, carrying what the
        path says about the values held by local names - `x == c` / `x in (c1, c2)` / emptiness guards pin a value to
        finitely many constants on one edge and exclude them on the other, `y = x` makes y hold the same value (a
        fact learnt about either afterwards holds for both), `y = "c"` makes a constant, any other binding a new
        unknown value.  A path is settled when it crosses the pass edge of a reject test that covers the shape
        (`tests`: there the value does not have it), or arrives at `sn` with every alternative of `arg` pinned to
        constants that do not have the shape - or known, from the holding edge of a startswith test (`hints`), to
        begin with a prefix no string of the shape begins with.  -> the constants / prefixes met at `sn` (sorted)
        when every path is settled, None when one is not."""
        cfg, rd, u = self.cfg, self.rd, self.u
        settle = {(a.pass_edge[0].id, a.pass_edge[1]) for a in tests}
        begins = {(a.node.id, a.reject): a for a in hints}
        arms = _selected_arms(arg)
        if arms is None:
            return None
        ends = {cfg.exit.id, cfg.raise_exit.id}
        met: set[str] = set()
        State = tuple[tuple[tuple[str, str], ...], tuple[tuple[str, tuple[str, ...]], ...]]
        stack: list[tuple[Node, State]] = [(s, ((), ())) for s in starts]
        seen: set[tuple[int, State]] = set()

        def tok(names: dict[str, str], name: str) -> str:
            return names.get(name, "0:" + name)  # "0:x": the value x holds when the iteration starts

        while stack:
            n, st = stack.pop()
            if (n.id, st) in seen:
                continue
            seen.add((n.id, st))
            if len(seen) > 20000:
                raise AnalysisError(f"safe_join: too many path states while deciding `{norm(arg)[:40]}` per path")
            names, facts = dict(st[0]), dict(st[1])
            if n is sn:
                for a in arms:
                    cs = (a.value,) if isinstance(a, ast.Constant) else facts.get(tok(names, a.id))
                    if cs is not None and all(harmless_const(c, what) for c in cs):
                        met.update(repr(c) for c in cs)
                        continue
                    pre = facts.get(tok(names, a.id) + "^") if isinstance(a, ast.Name) and cs is None else None
                    if pre is not None and all(_prefix_excludes(q, what) for q in pre):
                        met.update(f"{q!r}..." for q in pre)
                        continue
                    return None
                continue
            if n is p.head or n.id in ends:
                continue
            names0, facts0 = dict(names), dict(facts)
            for d in rd.gen[n.id]:
                v = d.value
                if d.kind in ("assign", "walrus") and d.index is None and isinstance(v, ast.Name):
                    names[d.name] = tok(names0, v.id)
                    continue
                new = f"{n.id}:{d.name}"
                for other, tk in list(names.items()):
                    if tk == new and other != d.name:
                        names[other] = "!"  # held the value of an earlier execution of this binding: unknown for good
                facts.pop(new, None)
                facts.pop(new + "^", None)
                if d.kind in ("assign", "walrus") and d.index is None and isinstance(v, ast.Constant) and isinstance(v.value, str):
                    facts[new] = (v.value,)
                names[d.name] = new
            fact = const_fact(u, n.ast) if n.kind == "test" and n.ast is not None else None
            for s2, lab in n.succs:
                if (n.id, lab) in settle:
                    continue
                nm2, f2 = names, facts
                if lab == "exc":
                    # the bindings of this node may not have happened: keep what is the same either way
                    nm2 = {k: v for k, v in names.items() if names0.get(k, "0:" + k) == v}
                    for k in names:
                        if k not in nm2:
                            nm2[k] = "!"
                    f2 = {k: v for k, v in facts.items() if facts0.get(k) == v}
                elif fact is not None and lab in ("T", "F"):
                    name, consts, holds = fact
                    tk = tok(names, name)
                    if tk != "!":
                        cur = facts.get(tk)
                        if lab == holds:
                            now = consts if cur is None else tuple(c for c in cur if c in consts)
                        else:
                            now = None if cur is None else tuple(c for c in cur if c not in consts)
                        if now is not None and not now:
                            continue  # no value takes this edge on this path
                        f2 = dict(facts)
                        if now is None:
                            f2.pop(tk, None)
                        else:
                            f2[tk] = tuple(sorted(set(now)))
                h = begins.get((n.id, lab))
                if h is not None and tok(nm2, h.var.id) != "!":
                    f2 = dict(f2)
                    f2[tok(nm2, h.var.id) + "^"] = tuple(sorted(h.consts))
                stack.append((s2, (tuple(sorted(nm2.items())), tuple(sorted(f2.items())))))
        return sorted(met)

    def cross_guards(self, what: str, need_norm: bool, target: Node, exclude: _Pass | None = None) -> list[str]:
        """checks of *every* component that are complete before `target` is reached: a checking traversal whose every
        iteration passes the pass edge of a covering test and that can only be left through its exhausted head, or an
        `any(<reject condition> for x in <components>)` / `all(...)` test whose pass edge dominates `target`."""
        u, cfg = self.u, self.cfg
        out: list[str] = []
        for loop in (n for n in own_nodes(self.fn) if isinstance(n, ast.For)):
            p = self.pass_of(loop)
            if p is None or not p.seq.all or (exclude is not None and p.loop is exclude.loop) or (target.ast is not None and u.inside(target.ast, loop)):
                continue
            atoms, _unknown, _raw = self.atoms_of_pass(p)
            starts = cfg.succ(p.head, "T")
            rej = [(a.node, a.reject) for a in atoms]
            # the target lies behind the loop: reachable only through the head, and from inside the loop only by
            # finishing the iteration (or on a reject edge, which is judged separately)
            if target.id in cfg.reach(avoid_nodes=[p.head]) or target.id in cfg.reach(starts, avoid_nodes=[p.head], avoid_edges=rej):
                continue
            for a in atoms:
                if a.covers(what) and (a.normal or not need_norm) and p.head.id not in cfg.reach(starts, avoid_edges=[a.pass_edge]) and self.refuses(a.node, a.reject, [p.head, target]):
                    out.append(f"{a.text} (for {norm(loop.target)} in {norm(loop.iter)[:40]})")
        for tn in cfg.tests():
            if tn.kind != "test" or not isinstance(tn.ast, ast.Call) or self.u.resolve(tn.ast.func) not in ("builtins.any", "builtins.all") or len(tn.ast.args) != 1:
                continue
            g = tn.ast.args[0]
            if not isinstance(g, (ast.GeneratorExp, ast.ListComp)) or len(g.generators) != 1 or g.generators[0].ifs or not isinstance(g.generators[0].target, ast.Name):
                continue
            seq = self.seq_of(g.generators[0].iter, tn)
            if seq is None or not seq.all:
                continue
            is_any = self.u.resolve(tn.ast.func) == "builtins.any"
            var = g.generators[0].target.id
            # any(c(x)): one element with c true makes the test true; all(c(x)): one element with c false makes it false
            cands, _complete = _implied(self.ctx, u, g.elt, is_any, tn)
            reject, passlab = ("T", "F") if is_any else ("F", "T")
            if target.id in cfg.reach(avoid_edges=[(tn, passlab)]):
                continue
            for kind, consts, _lab, v, text, _at in cands:
                if v.id != var or (kind in ("eq", "in") and set(consts) == {""}):
                    continue
                a = Atom(tn, reject, kind, consts, v, text, seq.normal, tn)
                if a.covers(what) and (a.normal or not need_norm) and self.refuses(tn, reject, [target]):
                    out.append(f"{text} (for every {var} in {seq.text[:40]})")
        return out

    def shapes_at(self, target: Node, site: ast.AST, where: str) -> None:
        """the whole sequence enters the result at `target`: every shape must be rejected by a completed check."""
        for what, desc, need_norm in self.SHAPES:
            cross = self.cross_guards(what, need_norm, target)
            self.n_shapes += 1
            fact = f"rejected by a check of every component: {cross} before {where}" if cross else f"no completed check of every {'normalised ' if need_norm else ''}component covers it before {where}"
            self.ctx.ob("R14.1", f"a normalised component that {desc} is never appended", bool(cross), fact, self.fi, site, f"safe_join reject {what}")

    # -- how components enter the result -------------------------------------------------
    def growth_of(self, st: ast.AST, names: set[str]) -> tuple[str, ast.AST | None] | None:
        """(list name, added element) when the statement / call grows one of the lists by exactly one element;
        element None = a growth that cannot be interpreted."""

        def single(e: ast.AST) -> ast.AST | None:
            return e.elts[0] if isinstance(e, (ast.List, ast.Tuple)) and len(e.elts) == 1 and not isinstance(e.elts[0], ast.Starred) else None

        if isinstance(st, ast.Call) and isinstance(st.func, ast.Attribute) and isinstance(st.func.value, ast.Name) and st.func.value.id in names:
            m = st.func.attr
            if m == "append" and len(st.args) == 1 and not st.keywords:
                return st.func.value.id, st.args[0]
            if m == "extend" and len(st.args) == 1 and not st.keywords:
                return st.func.value.id, single(st.args[0])
            if m in ("insert", "__iadd__", "__setitem__"):
                return st.func.value.id, None
            return None
        if isinstance(st, ast.AugAssign) and isinstance(st.target, ast.Name) and st.target.id in names:
            return st.target.id, single(st.value) if isinstance(st.op, ast.Add) else None
        if isinstance(st, ast.Assign) and len(st.targets) == 1 and isinstance(st.targets[0], ast.Name) and st.targets[0].id in names:
            nm, v = st.targets[0].id, st.value
            if isinstance(v, ast.List) and len(v.elts) == 2 and isinstance(v.elts[0], ast.Starred) and astq.is_name(v.elts[0].value, nm) and not isinstance(v.elts[1], ast.Starred):
                return nm, v.elts[1]
            if isinstance(v, ast.BinOp) and isinstance(v.op, ast.Add) and astq.is_name(v.left, nm):
                return nm, single(v.right)
            if isinstance(v, ast.Call) and self.u.resolve(v.func) in JOIN and len(v.args) == 2 and not v.keywords and astq.is_name(v.args[0], nm) and not isinstance(v.args[1], ast.Starred):
                return nm, v.args[1]  # r = join(r, x): the incremental spelling of the same growth
            if self.whole_of(st, nm) is not None:
                return nm, None  # `[*L, *S]`: a whole sequence added (see `accumulator`)
            return None
        if isinstance(st, ast.Subscript) and isinstance(st.ctx, ast.Store) and isinstance(st.value, ast.Name) and st.value.id in names:
            return st.value.id, None
        return None

    def whole_of(self, st: ast.AST, name: str) -> ast.AST | None:
        """the sequence a growth step adds as a whole: `L.extend(S)`, `L += S`, `L = [*L, *S]`, `L = L + S` (S possibly
        wrapped in list(...) / tuple(...), which `seq_of` reads through)."""
        if isinstance(st, ast.Call) and isinstance(st.func, ast.Attribute) and st.func.attr == "extend" and astq.is_name(st.func.value, name) and len(st.args) == 1 and not st.keywords and not isinstance(st.args[0], ast.Starred):
            return st.args[0]
        if isinstance(st, ast.AugAssign) and isinstance(st.op, ast.Add) and astq.is_name(st.target, name):
            return st.value
        if isinstance(st, ast.Assign) and len(st.targets) == 1 and astq.is_name(st.targets[0], name):
            v = st.value
            if isinstance(v, ast.List) and len(v.elts) == 2 and all(isinstance(x, ast.Starred) for x in v.elts) and astq.is_name(v.elts[0].value, name):  # type: ignore[attr-defined]
                return v.elts[1].value  # type: ignore[attr-defined]
            if isinstance(v, ast.BinOp) and isinstance(v.op, ast.Add) and astq.is_name(v.left, name):
                return v.right
        return None

    def filter_helper(self, h: FuncInfo) -> bool:
        """is the module-level helper a component filter - it returns None (refusal) or its single parameter, raw
        or normalised?  If so its body is judged like one iteration of the traversal: the four shapes must be
        rejected before each `return <component>`, and the reject edges must end in `return None`."""
        if id(h.node) in self._filters:
            return self._filters[id(h.node)]
        self._filters[id(h.node)] = False
        a = h.node.args  # type: ignore[attr-defined]
        pos = a.posonlyargs + a.args
        if len(pos) != 1 or a.vararg or a.kwarg or a.kwonlyargs:
            return False
        sub = _SafeJoin(self.ctx, h)
        pdef = next(d for d in sub.rd.param_defs if d.name == pos[0].arg)
        sites = []
        for r in astq.returns_of(h.node):
            rn = sub.cfg.node_of(r)
            if r.value is None or astq.is_none(r.value):
                continue
            if rn is None or not isinstance(r.value, ast.Name) or _roots(sub.u, r.value.id, rn)[0] != {pdef}:
                return False
            sites.append((r, rn))
        if not sites or not sub.none_rets:
            return False
        p = _Pass(h.node, sub.cfg.entry, _Seq(True, False, pos[0].arg), frozenset([pdef]))  # type: ignore[arg-type]
        for r, rn in sites:
            sub.shapes_in_pass(p, rn, r, {pdef}, f"`{norm(r)}` in {h.qualname}", r.value)
        self.n_shapes += sub.n_shapes
        self.n_atoms += sub.n_atoms
        self._filters[id(h.node)] = True
        return True

    def through_filter(self, p: _Pass, arg: ast.Name, sn: Node, site: ast.AST) -> bool:
        """the appended value is what a component filter helper returned for the loop's component: then the
        helper's refusal (None) must be detected before the value is used, and lead to `return None`."""
        u, ctx, fi = self.u, self.ctx, self.fi
        defs = self.rd.reaching(sn, arg.id)
        calls = []
        for d in defs:
            v = d.value
            while isinstance(v, ast.NamedExpr):
                v = v.value
            if d.kind not in ("assign", "walrus") or d.index is not None or d.node is None or not isinstance(v, ast.Call) or len(v.args) != 1 or v.keywords or not isinstance(v.args[0], ast.Name):
                return False
            h = _module_helper(u, v)
            roots = _roots(u, v.args[0].id, d.node)[0]
            if h is None or len(roots) != 1 or not roots <= p.roots:
                return False
            calls.append((d, v, h))
        if not calls or not all(self.filter_helper(h) for _d, _v, h in calls):
            return False
        ids = {id(v) for _d, v, _h in calls}
        nulls = Nulls(u, lambda c: id(c) in ids)
        live = nulls.origins(arg, sn, ancestor_conds(u, arg))
        ctx.ob("R14.1", "a component the filter helper refused (None) is never appended", not live, f"`{norm(site)[:60]}`: " + ("every path from the helper call passes a not-None test of its result" if not live else "the helper's None can reach it"), fi, site, "safe_join filter result tested")
        for d, _v, _h in calls:
            for tn, lab, _var in nulls.tests_of(d):
                okr = self.refuses(tn, "F" if lab == "T" else "T", [p.head, sn])
                ctx.ob("R14.1", f"the reject edge of `{norm(tn.ast)}` ends in `return None`", okr, "every path from the edge reaches `return None`" if okr else "a path from the reject edge continues the loop, raises or returns a path", fi, tn.ast, "safe_join refuse filter result")
        return True

    def accumulator(self, nm: ast.Name, rn: Node, r: ast.Return, with_dir: bool) -> None:
        """`nm` accumulates the result (a list that is joined, or the incrementally joined path): it starts from the
        trusted directory (or empty, when the directory is passed to join separately) and grows only by checked
        components."""
        u, cfg, rd, ctx, fi = self.u, self.cfg, self.rd, self.ctx, self.fi
        names = {nm.id}
        sites: list[tuple[ast.AST, ast.AST | None]] = []
        growth_stmts: set[int] = set()
        for n in own_nodes(self.fn):
            g = self.growth_of(n, names)
            if g is not None:
                sites.append((n, g[1]))
                growth_stmts.add(id(n))
        # initial contents: every definition that is not itself a growth step
        seen: set[int] = set()
        work = list(rd.reaching(rn, nm.id))
        while work:
            d = work.pop()
            if id(d) in seen:
                continue
            seen.add(id(d))
            if d.stmt is not None and id(d.stmt) in growth_stmts and d.node is not None:
                work += list(rd.reaching(d.node, nm.id))
                continue
            v = d.value
            if isinstance(v, ast.Call) and len(v.args) == 1 and not v.keywords and self.u.resolve(v.func) in ("builtins.list", "collections.deque") and isinstance(v.args[0], (ast.List, ast.Tuple)):
                v = ast.List(elts=v.args[0].elts, ctx=ast.Load())  # list((directory,)) / deque([directory])
            if d.kind == "assign" and d.index is None and d.node is not None and isinstance(v, ast.List):
                okd = all(self.trusted_dir(e, d.node) for e in v.elts) and bool(v.elts) == with_dir
                if not okd and v.elts and bool(v.elts) == with_dir and not any(isinstance(x, ast.Name) and (x.id == self.vararg or (x.id != self.dirparam and self.u._is_local(x.id) and not self.trusted_dir(x, d.node))) for e in v.elts for x in ast.walk(e)):
                    # built from the directory parameter and constants only, by an operation that is not modelled
                    raise AnalysisError(f"safe_join: cannot interpret the initial contents `{norm(d.stmt)[:70]}` of the joined list (derived from the trusted directory by an unknown operation)")
            elif d.kind == "assign" and d.index is None and d.node is not None and v is not None and with_dir:
                okd = self.trusted_dir(v, d.node)
            else:
                okd = False
            ctx.ob("R14.1", "the joined list starts from the trusted directory only", okd, f"`{norm(d.stmt) if d.stmt is not None else d.kind}`", fi, d.stmt, f"safe_join list init {d.kind}")
        self.n_growth += len(sites)
        ctx.floor("R14.1", "append sites of the joined list", len(sites), 1)
        for site, arg in sites:
            sn = cfg.node_of(site)
            arms_ = _selected_arms(arg) if arg is not None else None
            if arms_ is None and sn is not None:
                # the whole sequence of components added in one step (`L.extend(S)`, `L += S`, `[*L, *S]`): like
                # `join(directory, *S)` it needs a completed check of every component in front of it
                whole = self.whole_of(site, nm.id)
                wseq = self.seq_of(whole, sn) if whole is not None else None
                if wseq is not None:
                    ctx.ob("R14.1", "the checking loop ranges over all of *pathnames", wseq.all, f"`{norm(site)[:60]}` adds {wseq.text}", fi, site, f"safe_join loop over {norm(whole)[:40]}")
                    self.shapes_at(sn, site, f"`{norm(site)[:60]}`")
                    continue
            if arms_ is None or sn is None:
                raise AnalysisError(f"safe_join: cannot interpret list growth `{norm(site)[:80]}` (expected one component added per step)")
            names_ = [a for a in arms_ if isinstance(a, ast.Name)]
            for c in (a for a in arms_ if isinstance(a, ast.Constant)):
                # a literal component: judged on its text (it is what it is on every path)
                bad = [desc for what, desc, _nn in self.SHAPES if not harmless_const(c.value, what)]
                self.n_shapes += 1
                ctx.ob("R14.1", "a constant that enters the result has none of the escaping shapes", not bad, f"`{norm(site)[:60]}`: the constant {c.value!r}" + (f" {' / '.join(bad)}" if bad else " does not start with '/', has no '..' segment and no separator character"), fi, site, f"safe_join appended constant {c.value!r}")
            if not names_:
                continue
            loop = astq.enclosing(site, (ast.For, ast.AsyncFor, ast.While))
            if isinstance(loop, ast.While):
                raise AnalysisError(f"safe_join: cannot interpret the while loop around `{norm(site)[:60]}` as a traversal of the components")
            if not isinstance(loop, ast.For):
                ctx.ob("R14.1", "components are appended inside a loop over *pathnames", False, f"`{norm(site)}` is not inside `for <name> in {self.vararg}`", fi, site, "safe_join append outside loop")
                continue
            p = self.pass_of(loop)
            if p is None:
                raise AnalysisError(f"safe_join: cannot interpret loop iterable `{norm(loop.iter)}`")
            ctx.ob("R14.1", "the checking loop ranges over all of *pathnames", p.seq.all, f"for {norm(loop.target)} in {norm(loop.iter)}" + (f" ({p.seq.text})" if p.seq.text != norm(loop.iter) else ""), fi, loop, f"safe_join loop over {norm(loop.iter)}")
            w_roots: set[Def] = set()
            for nm_ in names_:
                w_roots |= _roots(u, nm_.id, sn)[0]
            okw = len(w_roots) == 1 and w_roots <= p.roots
            if not okw and isinstance(arg, ast.Name) and self.through_filter(p, arg, sn, site):
                ctx.ob("R14.1", "the appended value is the loop's component (raw or normalised)", True, f"`{norm(site)[:70]}`: `{arg.id}` is what a component filter helper returned for the loop's component", fi, site, "safe_join appended value origin")
                continue
            ctx.ob("R14.1", "the appended value is the loop's component (raw or normalised)", okw, f"`{norm(site)[:70]}`: `{norm(arg)[:40]}` originates from {sorted(_ddesc(d) for d in w_roots)}", fi, site, "safe_join appended value origin")
            self.shapes_in_pass(p, sn, site, w_roots, f"`{norm(site)[:60]}`", arg)

    _LIST_MUTATORS = {"append", "extend", "insert", "pop", "remove", "clear", "sort", "reverse", "__setitem__", "__delitem__", "__iadd__", "appendleft", "extendleft", "popleft", "rotate"}

    def inplace_changes(self, q: ast.Name, lead: int) -> None:
        """the list `q` holds the whole sequence of components (behind `lead` trusted elements) and is joined as a
        whole: whatever is done to it in place is part of what is joined.  Understood: `q[i] = x` inside a traversal
        `for i, x in enumerate(<components>, start=lead)` where x is that traversal's component, raw or normalised -
        the slot of a component is overwritten by (a normal form of) the same component.  Any other store is a
        violation when it is of that form with another value or another slot, otherwise not understood."""
        u, ctx, fi = self.u, self.ctx, self.fi
        for n in own_nodes(self.fn):
            if isinstance(n, ast.Call) and isinstance(n.func, ast.Attribute) and astq.is_name(n.func.value, q.id) and n.func.attr in self._LIST_MUTATORS:
                raise AnalysisError(f"safe_join: cannot interpret `{norm(n)[:70]}`: the list `{q.id}` holds the whole sequence of components and is changed in place")
            if isinstance(n, (ast.AugAssign, ast.Delete)) and any(isinstance(x, ast.Name) and x.id == q.id for tg in ([n.target] if isinstance(n, ast.AugAssign) else n.targets) for x in ast.walk(tg)):
                raise AnalysisError(f"safe_join: cannot interpret `{norm(n)[:70]}`: the list `{q.id}` holds the whole sequence of components and is changed in place")
            if not (isinstance(n, ast.Subscript) and isinstance(n.ctx, ast.Store) and astq.is_name(n.value, q.id)):
                continue
            st = astq.parent(n)
            sn = self.cfg.node_of(st) if st is not None else None
            loop = astq.enclosing(n, (ast.For, ast.AsyncFor, ast.While))
            ps = self.pass_of(loop) if isinstance(loop, ast.For) else None
            if not (isinstance(st, ast.Assign) and len(st.targets) == 1 and st.targets[0] is n and sn is not None and ps is not None and isinstance(loop, ast.For) and isinstance(loop.target, ast.Tuple) and isinstance(loop.iter, ast.Call)):
                raise AnalysisError(f"safe_join: cannot interpret the store `{norm(st)[:70] if st is not None else norm(n)}` into the list of components `{q.id}`")
            it = loop.iter
            start = it.args[1] if len(it.args) == 2 else astq.kwarg(it, "start")
            startv = start.value if isinstance(start, ast.Constant) else (0 if start is None else None)
            idx = loop.target.elts[0]
            own_slot = (
                isinstance(idx, ast.Name) and isinstance(n.slice, ast.Name) and n.slice.id == idx.id and startv == lead and ps.seq.all
                and all(d.kind == "for" and d.node is ps.head for d in self.rd.reaching(sn, idx.id))
            )
            roots = _roots(u, st.value.id, sn)[0] if isinstance(st.value, ast.Name) else set()
            same = len(roots) == 1 and roots <= ps.roots
            ctx.ob("R14.1", "what is stored in place into the joined list of components is the traversal's component, in its own slot", bool(own_slot and same), f"`{norm(st)[:70]}`: " + ("slot and value belong to the same component of " + ps.seq.text[:40] if own_slot and same else ("the value is not the component the traversal is at" if own_slot else "the slot is not the one the traversal's component came from")), fi, st, "safe_join slot store")

    def run(self) -> None:
        u, cfg, ctx, fi, fn = self.u, self.cfg, self.ctx, self.fi, self.fn
        for r in astq.returns_of(fn):
            rn = cfg.node_of(r)
            if r.value is None or astq.is_none(r.value) or rn is None:
                continue
            v: ast.AST = r.value
            vn = rn
            hops = 0
            while isinstance(v, ast.Name) and hops < 3:
                # the result bound to a local and returned
                defs = self.rd.reaching(vn, v.id)
                d = next(iter(defs)) if len(defs) == 1 else None
                if d is None or d.kind != "assign" or d.index is not None or d.value is None or d.node is None or self.growth_of(d.stmt, {v.id}) is not None:
                    break
                if not (isinstance(d.value, ast.Call) or isinstance(d.value, ast.Name)):
                    break
                v, vn = d.value, d.node
                hops += 1
            self.n_join += 1
            cons = f"safe_join result {norm(v.func) if isinstance(v, ast.Call) else type(v).__name__}"
            what = "safe_join returns None or the join of the trusted directory with the checked components"
            if isinstance(v, ast.Name):
                # incremental join: r = directory; r = join(r, x)
                ctx.ob("R14.1", what, True, f"`{v.id}` is joined component by component", fi, r, cons)
                self.accumulator(v, vn, r, with_dir=True)
                continue
            is_join = isinstance(v, ast.Call) and u.resolve(v.func) in JOIN and not v.keywords and bool(v.args)
            is_strjoin = isinstance(v, ast.Call) and isinstance(v.func, ast.Attribute) and v.func.attr == "join" and isinstance(v.func.value, ast.Constant) and v.func.value.value == "/" and len(v.args) == 1 and not v.keywords
            if not (is_join or is_strjoin):
                if isinstance(v, ast.Call) and not any(isinstance(x, ast.Name) and x.id == self.vararg for x in ast.walk(v)):
                    # some other way of assembling the path (PurePosixPath(*parts), reduce(join, parts), ...): what
                    # it does with the collected components is not known
                    raise AnalysisError(f"safe_join: cannot interpret how `{norm(v)[:70]}` assembles the returned path")
                ctx.ob("R14.1", what, False, norm(v), fi, r, cons)
                continue
            assert isinstance(v, ast.Call)
            args = list(v.args)
            if is_strjoin and not isinstance(args[0], ast.Starred):
                args = [ast.Starred(value=args[0], ctx=ast.Load())]
            starred = [a for a in args if isinstance(a, ast.Starred)]
            plain = [a for a in args if not isinstance(a, ast.Starred)]
            ok = len(starred) == 1 and args[-1] is starred[0] and isinstance(starred[0].value, ast.Name) and len(plain) <= 1
            fact = norm(v)
            if ok and plain and not self.trusted_dir(plain[0], vn):
                ok = False
            if not ok:
                bad = next((a for a in plain if not self.trusted_dir(a, vn)), None) or (plain[1] if len(plain) > 1 else None)
                if bad is not None:
                    fact = f"`{norm(bad)}` joined without having passed the reject test"
                ctx.ob("R14.1", what, False, fact, fi, r, cons)
            else:
                ctx.ob("R14.1", what, True, fact, fi, r, cons)
            q = next((a.value for a in starred if isinstance(a.value, ast.Name)), None)
            if q is None:
                continue
            seq = self.seq_of(q, vn)
            if seq is None and not plain:
                # join(*L) with L = [directory, *components] / [directory] + components
                ds = self.rd.reaching(vn, q.id)
                d0 = next(iter(ds)) if len(ds) == 1 else None
                if d0 is not None and d0.kind == "assign" and d0.index is None and d0.node is not None and d0.value is not None:
                    e0, rest = d0.value, None
                    if isinstance(e0, ast.List) and len(e0.elts) == 2 and not isinstance(e0.elts[0], ast.Starred) and isinstance(e0.elts[1], ast.Starred):
                        rest, first = e0.elts[1].value, e0.elts[0]
                    elif isinstance(e0, ast.BinOp) and isinstance(e0.op, ast.Add) and isinstance(e0.left, ast.List) and len(e0.left.elts) == 1:
                        rest, first = e0.right, e0.left.elts[0]
                    if rest is not None and self.trusted_dir(first, d0.node) and self.seq_of(rest, d0.node) is not None:
                        seq, plain = self.seq_of(rest, d0.node), [first]
            if seq is not None:
                # what is done to that list in place belongs to what is joined
                self.inplace_changes(q, 1 if (plain and not [a for a in args if not isinstance(a, ast.Starred)]) else 0)
                # the whole sequence is joined at once
                ctx.ob("R14.1", "the checking loop ranges over all of *pathnames", seq.all and bool(plain), f"join({norm(plain[0]) if plain else ''}, *{q.id}) with {q.id}: {seq.text}", fi, r, f"safe_join loop over {q.id}")
                self.n_growth += 1
                self.shapes_at(rn, r, f"`{norm(v)[:60]}`")  # the value is not used before it is returned
            else:
                self.accumulator(q, vn, r, with_dir=not plain)
        ctx.floor("R14.1", "joined results", self.n_join, 1)
        ctx.floor("R14.1", "places where components enter the result", self.n_growth, 1)
        ctx.floor("R14.1", "escape-shape obligations (4 per place)", self.n_shapes, 4)
        ctx.note(f"R14.1: {self.n_atoms} reject test(s) on the component interpreted")


def _prefix_excludes(q: str, what: str) -> bool:
    """no string that begins with `q` has the escaping shape `what`."""
    if what == "abs":
        return q != "" and not q.startswith("/")
    if what == "dotdot":
        return not "..".startswith(q)
    if what == "dotdot/":
        return not ("../".startswith(q) or q.startswith("../"))
    return False


def _selected_arms(e: ast.AST) -> list[ast.Name | ast.Constant] | None:
    """the alternatives one of which is the value of e: a name or a string constant, or a conditional expression /
    and-or chain of such."""
    if isinstance(e, ast.Name) or (isinstance(e, ast.Constant) and isinstance(e.value, str)):
        return [e]
    arms = [e.body, e.orelse] if isinstance(e, ast.IfExp) else list(e.values) if isinstance(e, ast.BoolOp) else None
    if arms is None:
        return None
    out: list[ast.Name | ast.Constant] = []
    for a in arms:
        sub = _selected_arms(a)
        if sub is None:
            return None
        out += sub
    return out


def _const_truth(e: ast.AST, known: dict[str, object]) -> bool | None:
    """truth value of a condition atom under constants known on the path (a flag set on the reject edge)."""
    if isinstance(e, ast.Name) and e.id in known:
        return bool(known[e.id])
    if isinstance(e, ast.Compare) and len(e.ops) == 1 and isinstance(e.left, ast.Name) and e.left.id in known and isinstance(e.comparators[0], ast.Constant):
        a, b, op = known[e.left.id], e.comparators[0].value, e.ops[0]
        if isinstance(op, ast.Is):
            return a is b or (a == b and isinstance(a, (bool, type(None))))
        if isinstance(op, ast.IsNot):
            return not (a is b or (a == b and isinstance(a, (bool, type(None)))))
        if isinstance(op, ast.Eq):
            return a == b
        if isinstance(op, ast.NotEq):
            return a != b
    return None


def _safe_join_rule(ctx: Ctx) -> None:
    _SafeJoin(ctx).run()


def _ddesc(d: Def) -> str:
    if d.kind == "param":
        return f"parameter {d.name}"
    return f"{d.kind} `{norm(d.stmt)[:60]}`" if d.stmt is not None and d.kind != "for" else f"{d.kind} {d.name}"


def _atoms_of_test(ctx: Ctx, u: Unit, tn: Node, head: Node):
    """reject-atom candidates decided by CFG test node tn (inside the loop with head `head`):
    ([(kind, consts, label on which it holds, Name, text, node in which the predicate is evaluated)] | None, complete);
    None when the shape is unknown; complete=False when only a part of the condition could be interpreted.
      * a direct predicate on a name (parse_atom);
      * a call of a module-level predicate helper `f(.., x, ..)`: summarised one level on the helper's CFG
        (helper_atoms): each predicate on the parameter that forces the helper's result gives an atom on the
        call's true / false edge;
      * a flag variable `bad = <condition over the above>` ... `if bad:` whose single definition is executed in
        every iteration before the test: the predicates that force the condition true / false (De Morgan)."""
    e = tn.ast
    if isinstance(e, ast.Name):
        defs = u.rd.reaching(tn, e.id)
        d = next(iter(defs)) if len(defs) == 1 else None
        if d is None or d.kind not in ("assign", "walrus") or d.index is not None or d.node is None or d.value is None:
            return None, True
        if tn.id in u.cfg.reach([head], avoid_nodes=[d.node]):
            return None, True  # the flag may stem from an earlier iteration
        out = []
        complete = True
        for v in (True, False):
            cands, comp = _implied(ctx, u, d.value, v, d.node)
            complete = complete and comp
            out += [(kind, consts, "T" if v else "F", var, text, at) for kind, consts, _lab, var, text, at in cands]
        return (out or None), complete
    return _leaf_atoms(ctx, u, e, tn)


def _implied(ctx: Ctx, u: Unit, e: ast.AST, v: bool, at: Node):
    """atoms A with  A holds => bool(e) == v  (each single A suffices), helper calls included."""
    if isinstance(e, ast.UnaryOp) and isinstance(e.op, ast.Not):
        return _implied(ctx, u, e.operand, not v, at)
    if isinstance(e, ast.BoolOp):
        one_suffices = isinstance(e.op, ast.Or) if v else isinstance(e.op, ast.And)
        out = []
        complete = True
        for x in e.values:
            cands, comp = _implied(ctx, u, x, v, at)
            complete = complete and comp
            out += cands
        return (out if one_suffices or len(e.values) == 1 else []), complete
    cands, complete = _leaf_atoms(ctx, u, e, at)
    if cands is None:
        return [], False
    return [c for c in cands if (c[2] == "T") == v], complete


def _predicate_table(u: Unit, e: ast.AST, at: Node) -> list[ast.AST] | None:
    """`any(check(x) for check in (f, g, lambda n: ...))` - an or-chain written as a table of predicates - unrolled
    into the conditions f(x), g(x), <lambda body with n := x>; None when e is not of that form."""
    if not (isinstance(e, ast.Call) and u.resolve(e.func) == "builtins.any" and len(e.args) == 1 and not e.keywords and isinstance(e.args[0], (ast.GeneratorExp, ast.ListComp))):
        return None
    g = e.args[0]
    if len(g.generators) != 1 or g.generators[0].ifs or not isinstance(g.generators[0].target, ast.Name):
        return None
    var = g.generators[0].target.id
    c = g.elt
    if not (isinstance(c, ast.Call) and astq.is_name(c.func, var) and len(c.args) == 1 and not c.keywords and isinstance(c.args[0], ast.Name)):
        return None
    table: ast.AST | None = g.generators[0].iter
    if isinstance(table, ast.Name):
        defs = u.rd.reaching(at, table.id)
        d = next(iter(defs)) if len(defs) == 1 else None
        if d is not None and d.kind == "assign" and d.index is None:
            table = d.value
        elif not defs and not u._is_local(table.id):
            vals = u.module.assigns.get(table.id) or []
            table = vals[0] if len(vals) == 1 else None
        else:
            table = None
    if not isinstance(table, (ast.Tuple, ast.List)) or not table.elts:
        return None
    x = c.args[0]
    out: list[ast.AST] = []
    for f in table.elts:
        if isinstance(f, ast.Lambda):
            a = f.args
            if len(a.args) != 1 or a.posonlyargs or a.kwonlyargs or a.vararg or a.kwarg or a.defaults:
                return None
            out.append(_subst(f.body, a.args[0].arg, x))
        elif isinstance(f, (ast.Name, ast.Attribute)):
            out.append(ast.copy_location(ast.Call(func=f, args=[x], keywords=[]), c))
        else:
            return None
    return out


def _subst(body: ast.AST, param: str, arg: ast.Name) -> ast.AST:
    """a copy of the lambda body in which the parameter is replaced by the argument name (the call site's own Name
    node, so that its reaching definitions are those of the call site)."""

    def clone(n: t.Any) -> t.Any:
        if isinstance(n, list):
            return [clone(x) for x in n]
        if not isinstance(n, ast.AST):
            return n
        if isinstance(n, ast.Name) and n.id == param and isinstance(n.ctx, ast.Load):
            return arg
        if isinstance(n, ast.Lambda):
            return n  # an inner lambda may rebind the name: left alone
        new = type(n)(**{f: clone(getattr(n, f, None)) for f in n._fields})
        return ast.copy_location(new, n) if hasattr(n, "lineno") else new

    return clone(body)


def _through_local(u: Unit, e: ast.AST, at: Node) -> tuple[ast.AST, Node] | None:
    """`first = x.partition("/")[0]` ... `first == ".."`: a comparison about a local that holds a part of the
    component (first segment / leading slice, see `_derived`) is the comparison about that part, evaluated where the
    local was bound - provided the binding is the one of this very value: no path from a definition of `x` to the
    test avoids it (a part taken in an earlier iteration, or before `x` was bound again, says nothing).
    -> (the comparison with the part written out, node of the binding)."""
    if not (isinstance(e, ast.Compare) and len(e.ops) == 1):
        return None
    for side in ("left", "right"):
        nm = e.left if side == "left" else e.comparators[0]
        if not isinstance(nm, ast.Name) or not u._is_local(nm.id):
            continue
        defs = u.rd.reaching(at, nm.id)
        d = next(iter(defs)) if len(defs) == 1 else None
        if d is None or d.node is None or d.value is None:
            continue
        v: ast.AST | None = None
        if d.kind in ("assign", "walrus") and d.index is None:
            v = d.value
            while isinstance(v, ast.NamedExpr):
                v = v.value
        elif d.kind == "unpack" and d.index == 0 and isinstance(d.target, ast.Name) and isinstance(d.value, ast.Call):
            tgt = astq.parent(d.target)
            if isinstance(tgt, (ast.Tuple, ast.List)) and not any(isinstance(x, ast.Starred) for x in tgt.elts):
                v = ast.copy_location(ast.Subscript(value=d.value, slice=ast.Constant(value=0), ctx=ast.Load()), d.value)
        der = _derived(v) if v is not None else None
        if der is None:
            continue
        x = der[1]
        starts = [dx.node if dx.node is not None else u.cfg.entry for dx in u.rd.reaching(d.node, x.id)]
        if not starts or at.id in u.cfg.reach(starts, avoid_nodes=[d.node]):
            continue
        e2 = ast.copy_location(ast.Compare(left=v if side == "left" else e.left, ops=e.ops, comparators=[v] if side == "right" else e.comparators), e)
        return e2, d.node
    return None


def _leaf_atoms(ctx: Ctx, u: Unit, e: ast.AST, at: Node):
    sub = _through_local(u, e, at)
    if sub is not None:
        p = parse_atom(u, sub[0])
        if p is not None:
            return [(p[0], p[1], p[2], p[3], norm(sub[0]), sub[1])], True
    p = parse_atom(u, e)
    if p is not None:
        return [(p[0], p[1], p[2], p[3], norm(e), at)], True
    tab = _predicate_table(u, e, at)
    if tab is not None:
        out, complete = [], True
        for x in tab:
            cands, comp = _implied(ctx, u, x, True, at)  # each predicate that holds makes any(...) true
            complete = complete and comp
            out += cands
        return (out or None), complete
    if isinstance(e, ast.Call) and isinstance(e.func, ast.Name) and e.args and not e.keywords and not any(isinstance(a, ast.Starred) for a in e.args):
        h = u.module.functions.get(e.func.id)
        pos = [x.arg for x in h.node.args.posonlyargs + h.node.args.args] if h is not None else []
        if h is not None and u.resolve(e.func) == f"{u.module.name}.{e.func.id}" and len(e.args) <= len(pos):
            ctx.saw(h)
            hu = Unit(ctx.repo, h, h.node, h.qualname)
            out = []
            complete = True
            for i, a in enumerate(e.args):
                if not isinstance(a, ast.Name):
                    continue
                atoms, comp = helper_atoms(hu, pos[i])
                complete = complete and comp
                for v, kind, consts, text in atoms:
                    out.append((kind, consts, "T" if v else "F", a, f"{e.func.id}: {text}", at))
            return (out or None), complete
    return None, True


# =====================================================================
# R14.2 / R14.3


class _Flow:
    """the analysis units of R14.2 / R14.3 and what flows between them.

    Roots: utils.send_from_directory (path, environ untrusted), every method of SharedDataMiddleware (environ
    untrusted) and the callables nested in them (every parameter untrusted: they are invoked later with the
    request path).  Helpers: a same-module function or same-class method that a unit calls is analysed too; the kind
    (trusted / safejoined / unsafe) and the possible None-ness of each of its parameters is the join over the
    arguments its call sites pass, and its call expression stands for what it returns (fixpoint)."""

    def __init__(self, ctx: Ctx):
        self.ctx = ctx
        self.repo = ctx.repo
        self.units: list[Unit] = []
        self.by_func: dict[int, Unit] = {}
        self.summaries: dict[int, Summary] = {}
        self.sdm = self.repo.cls("middleware.shared_data.SharedDataMiddleware")
        sfd = self.repo.func("utils.send_from_directory")
        for need in ("path", "directory"):
            if need not in sfd.params:
                raise AnalysisError(f"send_from_directory: parameter `{need}` missing")
        self.sfd = self._add(_unit_of(ctx, sfd, untrusted={"path", "environ"}, refusal="raise"))
        for _name, m in sorted(self.sdm.methods.items()):
            self._add(_unit_of(ctx, m, untrusted={"environ"} & set(m.params), refusal="none"))
        self.pass_through = _sink_summaries(ctx, self.units)
        self._solve()

    def _add(self, u: Unit) -> Unit:
        self.units.append(u)
        if u.node is u.owner.node:
            self.by_func[id(u.node)] = u
        for nd in nested_defs(u.node):
            # a callable built by a factory is later invoked with the request path: all its parameters are untrusted
            a = nd.args
            ps = [x.arg for x in a.posonlyargs + a.args + a.kwonlyargs]
            inner = u.label.removeprefix(u.owner.qualname)
            self._add(Unit(self.repo, u.owner, nd, f"{u.owner.qualname}{inner}.<{nd.name}>", untrusted=ps, refusal="none" if u.refusal == "none" else "either", enclosing=u))
        return u

    # -- helpers -----------------------------------------------------------
    def target_of(self, u: Unit, c: ast.Call) -> tuple[FuncInfo, int] | None:
        """the function a call runs when it is a helper we follow: (function, number of leading parameters bound
        implicitly)."""
        return self.target_of_func(u, c.func)

    def deferred(self, u: Unit, c: ast.Call) -> tuple[FuncInfo, int, ast.Call] | None:
        """functools.partial(<followed helper>, bound...): the helper is invoked later - with request data in the
        parameters that are not bound here."""
        if u.resolve(c.func) == "functools.partial" and c.args and not isinstance(c.args[0], ast.Starred):
            tg = self.target_of_func(u, c.args[0])
            if tg is not None:
                inner = ast.Call(func=c.args[0], args=c.args[1:], keywords=c.keywords)
                return tg[0], tg[1], inner
        return None

    def local_helper(self, u: Unit, f: ast.AST) -> Unit | None:
        """a function defined inside `u` (or an enclosing unit) that is only ever *called* there by its name: then
        its parameters are what those calls pass, not request data handed to an escaping callable."""
        if not isinstance(f, ast.Name):
            return None
        host: Unit | None = u
        while host is not None:
            nd = next((d for d in nested_defs(host.node) if d.name == f.id and astq.enclosing(d, (ast.FunctionDef, ast.AsyncFunctionDef, ast.Lambda)) is host.node), None)
            if nd is not None:
                break
            if host._is_local(f.id):
                return None
            host = host.enclosing
        if host is None or nd is None or nd is u.node:
            return None
        binds = [d for ds in host.rd.gen.values() for d in ds if d.name == f.id]
        if len(binds) != 1 or f.id in host.params:
            return None  # rebound somewhere: which function runs is not known
        for scope in [x for x in self.units if x is host or self._within(x, host)]:
            for n in own_nodes(scope.node):
                if isinstance(n, ast.Name) and n.id == f.id and isinstance(n.ctx, ast.Load):
                    par = astq.parent(n)
                    if not (isinstance(par, ast.Call) and par.func is n):
                        return None  # the function object escapes (returned, stored, passed on)
        return next((x for x in self.units if x.node is nd), None)

    @staticmethod
    def _within(x: Unit, host: Unit) -> bool:
        e = x.enclosing
        while e is not None:
            if e is host:
                return True
            e = e.enclosing
        return False

    def target_of_func(self, u: Unit, f: ast.AST) -> tuple[FuncInfo, int] | None:
        cls = u.owner.cls
        fi: FuncInfo | None = None
        off = 0
        lu = self.local_helper(u, f)
        if lu is not None:
            if id(lu.node) not in self.by_func:
                # first sight: its parameters are bound by the local calls only
                self.by_func[id(lu.node)] = lu
                lu.param_kind = {p_: T_ for p_ in lu.params}
            return _LocalFn(lu.node), 0  # type: ignore[return-value]
        if isinstance(f, ast.Attribute) and isinstance(f.value, ast.Name) and cls is not None:
            first = u.owner.params[0] if u.owner.params else None
            if f.value.id == first and "staticmethod" not in u.owner.decorators and f.attr in cls.methods:
                fi = cls.methods[f.attr]
                off = 0 if "staticmethod" in fi.decorators else 1
        if fi is None:
            fq = u.resolve(f)
            if fq is None or not fq.startswith(u.module.name + "."):
                return None
            fi = self.repo.try_func(fq)
            if fi is None:
                return None
            off = 1 if "classmethod" in fi.decorators else 0
        if fi.module is not u.module or fi.fq == "werkzeug.security.safe_join" or fi.fq in SINK_FQ:
            return None
        if fi.node is u.owner.node and u.node is u.owner.node:
            return None  # direct recursion
        return fi, off

    def sites_of(self, hu: Unit) -> list[tuple[Unit, ast.Call, int]]:
        """the direct call sites of a followed helper: (calling unit, call, implicit leading parameters)."""
        out = []
        for u in self.units:
            for c in (n for n in own_nodes(u.node) if isinstance(n, ast.Call)):
                tg = self.target_of(u, c)
                if tg is not None and tg[0].node is hu.node:
                    out.append((u, c, tg[1]))
        return out

    def helper_unit(self, fi: FuncInfo, caller: Unit) -> tuple[Unit, bool]:
        u = self.by_func.get(id(fi.node))
        if u is not None:
            new = not u.helper
            u.helper = True
            return u, new
        hu = _unit_of(self.ctx, fi, refusal="none" if caller.refusal == "none" else "either")
        hu.helper = True
        self._add(hu)
        return hu, True

    @staticmethod
    def bind(hu: Unit, off: int, c: ast.Call) -> list[tuple[str, ast.AST]]:
        """(parameter, argument expression) pairs of a call; with * / ** arguments every parameter may receive any
        argument."""
        a = hu.node.args  # type: ignore[attr-defined]
        pos = [x.arg for x in a.posonlyargs + a.args][off:]
        named = set(pos) | {x.arg for x in a.kwonlyargs}
        out: list[tuple[str, ast.AST]] = []
        if any(isinstance(x, ast.Starred) for x in c.args) or any(k.arg is None for k in c.keywords):
            vals = [x.value if isinstance(x, ast.Starred) else x for x in c.args] + [k.value for k in c.keywords]
            return [(p, v) for p in hu.params[off:] for v in vals]
        for i, x in enumerate(c.args):
            if i < len(pos):
                out.append((pos[i], x))
            elif a.vararg is not None:
                out.append((a.vararg.arg, x))
        for k in c.keywords:
            if k.arg in named:
                out.append((k.arg, k.value))
            elif a.kwarg is not None:
                out.append((a.kwarg.arg, k.value))
        return out

    def follow(self, u: Unit, c: ast.Call) -> Summary | None:
        tg = self.target_of(u, c)
        if tg is None:
            return None
        return self.summaries.get(id(tg[0].node), Summary())

    def prov(self, u: Unit) -> Prov:
        return Prov(u, _is_safe_join, _is_primitive_sink, self.follow)

    def is_source(self, u: Unit) -> t.Callable[[ast.Call], bool]:
        """calls whose result may be None as a refusal: safe_join, and a followed helper that passes a safe_join
        result (or its refusal) on."""
        def f(c: ast.Call) -> bool:
            if _is_safe_join(u, c):
                return True
            s = self.follow(u, c)
            return s is not None and s.nullable and s.kind == J_

        return f

    def nulls(self, u: Unit) -> Nulls:
        return Nulls(u, self.is_source(u), u.null_params)

    def passes(self, u: Unit) -> t.Callable[[ast.Call, ast.AST], bool]:
        return lambda c, a: self.target_of(u, c) is not None and (any(a is x for x in c.args) or any(a is k.value for k in c.keywords))

    def _summary(self, hu: Unit) -> Summary:
        prov, nulls = self.prov(hu), self.nulls(hu)
        cfg = hu.cfg
        rets = [r for r in astq.returns_of(hu.node)]
        kind, why = T_, ""
        nullable = any(n.kind not in ("entry",) and not isinstance(n.ast, ast.Return) for n, _ in cfg.exit.preds) and bool(rets)
        tuples: list[list[tuple[str, str]]] = []
        uniform = bool(rets)
        for r in rets:
            rn = cfg.node_of(r)
            if r.value is None:
                nullable = True
                uniform = False
                continue
            if nulls.origins(r.value, rn):
                nullable = True
            if isinstance(r.value, ast.Tuple) and not any(isinstance(x, ast.Starred) for x in r.value.elts):
                el = [prov.kind(x, rn, 0, ancestor_conds(hu, x)) for x in r.value.elts]
                tuples.append(el)
                for k, w in el:
                    if _worse(k, kind):
                        kind, why = k, w
                continue
            uniform = False
            k, w = prov.kind(r.value, rn)
            if _worse(k, kind):
                kind, why = k, w
        elems = None
        if uniform and tuples and len({len(x) for x in tuples}) == 1:
            merged = []
            for i in range(len(tuples[0])):
                ek, ew = T_, ""
                for el in tuples:
                    if _worse(el[i][0], ek):
                        ek, ew = el[i]
                merged.append((ek, ew))
            elems = tuple(merged)
        return Summary(kind, why, elems, nullable)

    def _solve(self) -> None:
        for _round in range(10):
            changed = False
            for u in list(self.units):
                prov, nulls = self.prov(u), self.nulls(u)
                for c in [n for n in own_nodes(u.node) if isinstance(n, ast.Call)]:
                    tg = self.target_of(u, c)
                    later = self.deferred(u, c) if tg is None else None
                    if tg is None and later is None:
                        continue
                    hu, new = self.helper_unit((tg or later)[0], u)  # type: ignore[index]
                    changed = changed or new
                    node = u.cfg.node_of(c)
                    pairs = self.bind(hu, tg[1], c) if tg is not None else self.bind(hu, later[1], later[2])  # type: ignore[index]
                    if later is not None:
                        bound = {p for p, _ in pairs}
                        for p in hu.params[later[1] :]:
                            if p not in bound and hu.param_kind.get(p) != X_:
                                hu.param_kind[p] = X_
                                changed = True
                    for pname, arg in pairs:
                        conds = ancestor_conds(u, arg)
                        k = join_kind(hu.param_kind.get(pname, T_), prov.kind(arg, node, 0, conds)[0])
                        if k != hu.param_kind.get(pname):
                            hu.param_kind[pname] = k
                            changed = True
                        if pname not in hu.null_params and any(not isinstance(o, ast.Constant) for o in nulls.origins(arg, node, conds)):
                            hu.null_params.add(pname)
                            changed = True
            for hu in list(self.by_func.values()):
                s = self._summary(hu)
                if s != self.summaries.get(id(hu.node)):
                    self.summaries[id(hu.node)] = s
                    changed = True
            if not changed:
                return
        raise AnalysisError("R14.2: the provenance of helper parameters / results does not reach a fixpoint")


class _LocalFn:
    """stands in for the FuncInfo of a locally defined helper (only the definition node is looked at)."""

    def __init__(self, node: ast.AST):
        self.node = node


def _worse(a: str, b: str) -> bool:
    return join_kind(a, b) == a and a != b


def _sink_summaries(ctx: Ctx, units: list[Unit]) -> dict[str, str]:
    """one level: a method of SharedDataMiddleware whose own parameter is handed to a primitive sink is itself a
    sink in that argument (`self._opener(filename)`): method name -> parameter name."""
    out: dict[str, str] = {}
    for u in units:
        if u.node is not u.owner.node or u.owner.cls is None:
            continue
        ps = [p for p in u.params if p != "self"]
        for c in (n for n in own_nodes(u.node) if isinstance(n, ast.Call)):
            if not _is_primitive_sink(u, c) or not c.args:
                continue
            node = u.cfg.node_of(c)
            for nm in (x for x in ast.walk(c.args[0]) if isinstance(x, ast.Name)):
                if nm.id in ps and node is not None and any(d.kind == "param" for d in u.rd.reaching(node, nm.id)):
                    out[u.owner.name] = nm.id
    return out


def _is_primitive_sink(u: Unit, c: ast.Call) -> bool:
    if isinstance(c.func, ast.Attribute) and c.func.attr in SINK_ATTRS:
        return True
    fq = u.resolve(c.func)
    return fq in SINK_FQ


def _is_safe_join(u: Unit, c: ast.Call) -> bool:
    return u.resolve(c.func) == "werkzeug.security.safe_join"


def _is_safe_join_call(u: Unit) -> t.Callable[[ast.Call], bool]:
    return lambda c: _is_safe_join(u, c)


def _sinks_rule(ctx: Ctx) -> None:
    flow = _Flow(ctx)
    summ = flow.pass_through
    n_sinks = {"send_from_directory": 0, "SharedDataMiddleware": 0}
    n_sj = n_none = n_use = 0
    for u in flow.units:
        is_sj = _is_safe_join_call(u)
        prov = flow.prov(u)
        cfg, rd = u.cfg, u.rd
        group = "SharedDataMiddleware" if u.owner.cls is flow.sdm or u.owner.module is flow.sdm.module else "send_from_directory"
        for c in sorted((n for n in own_nodes(u.node) if isinstance(n, ast.Call)), key=lambda n: (n.lineno, n.col_offset)):
            node = cfg.node_of(c)
            # ---- sinks
            arg = None
            what = None
            if _is_primitive_sink(u, c):
                arg = c.args[0] if c.args and not isinstance(c.args[0], ast.Starred) else None
                what = norm(c.func)
                if arg is None:
                    arg = astq.kwarg(c, "file") or astq.kwarg(c, "path") or astq.kwarg(c, "path_or_file")
                if arg is None:
                    raise AnalysisError(f"{u.label}: cannot find the path argument of `{norm(c)}`")
            elif isinstance(c.func, ast.Attribute) and astq.is_name(c.func.value, "self") and c.func.attr in summ and u.owner.cls is not None:
                m = u.owner.cls.methods.get(c.func.attr)
                hu = flow.by_func.get(id(m.node)) if m is not None else None
                if hu is None or any(isinstance(a, ast.Starred) for a in c.args) or any(k.arg is None for k in c.keywords):
                    raise AnalysisError(f"{u.label}: cannot find the path argument of `{norm(c)}`")
                arg = next((a for pn, a in flow.bind(hu, 0 if "staticmethod" in m.decorators else 1, c) if pn == summ[c.func.attr]), None)
                what = f"self.{c.func.attr} (passes its argument to a filesystem call)"
            if arg is not None:
                n_sinks[group] += 1
                # inside a pass-through helper its own parameter is judged at the call sites
                if u.owner.name in summ and u.node is u.owner.node and isinstance(arg, ast.Name) and arg.id in u.params and node is not None and all(d.kind == "param" for d in rd.reaching(node, arg.id)):
                    ctx.ob("R14.2", f"{u.label}: {what}({norm(arg)})", True, "parameter of a pass-through helper; every call site is checked as a sink", u.owner, c, f"{u.label} sink {norm(c.func)} param")
                else:
                    ok, why = prov.safe(arg, node)
                    ctx.ob("R14.2", f"{u.label}: {what} receives only trusted configuration or a safe_join result", ok, f"`{norm(arg)}`" + (f": {why}" if why else " is built from trusted names / safe_join results"), u.owner, c, f"{u.label} sink {norm(c.func)}({norm(arg)})")
            # ---- safe_join call sites
            if is_sj(c):
                n_sj += 1
                ok, why = prov.safe(c.args[0] if c.args and not isinstance(c.args[0], ast.Starred) else None, node) if c.args else (False, "no base directory")
                ctx.ob("R14.2", f"{u.label}: safe_join's base directory is trusted", ok, f"`{norm(c)}`" + (f": {why}" if why else ""), u.owner, c, f"{u.label} safe_join base")
        # a filesystem function handed around as a value (a table of probes, a default argument) is called somewhere
        # this rule does not see: the sinks cannot be enumerated
        for n in own_nodes(u.node):
            if isinstance(n, (ast.Attribute, ast.Name)) and isinstance(getattr(n, "ctx", None), ast.Load) and u.resolve(n) in SINK_FQ:
                par = astq.parent(n)
                if not (isinstance(par, ast.Call) and par.func is n) and not (isinstance(par, ast.Attribute) and par.value is n):
                    raise AnalysisError(f"{u.label}: the filesystem function `{norm(n)}` is used as a value (`{norm(par)[:60]}`): its call sites cannot be enumerated")
            if isinstance(n, (ast.Attribute, ast.Name)) and isinstance(getattr(n, "ctx", None), ast.Load) and u.resolve(n) == "werkzeug.security.safe_join":
                par = astq.parent(n)
                if not (isinstance(par, ast.Call) and par.func is n):
                    # `join_in = partial(safe_join, directory)`, an alias, a table entry: the containment check is
                    # called somewhere under another name - which calls are checks is not known
                    raise AnalysisError(f"{u.label}: safe_join is used as a value (`{norm(par)[:60]}`): the calls that perform the containment check cannot be enumerated")
        a, b = _null_rule(ctx, flow, u)
        n_none += a
        n_use += b
    for group, n in n_sinks.items():
        ctx.floor("R14.2", f"filesystem sinks reached from {group}", n, 1)
    ctx.floor("R14.2", "safe_join call sites", n_sj, 1)
    ctx.floor("R14.3", "safe_join results examined for a None test", n_sj, 1)
    helpers = sorted(u.label for u in flow.units if u.helper)
    ctx.note(f"R14.2: {sum(n_sinks.values())} sink(s) in {len(flow.units)} unit(s)" + (f"; helpers followed: {helpers}" if helpers else ""))
    ctx.note(f"R14.3: {n_none} None test(s), {n_use} use(s) of possibly-None results examined")
    _fallthrough_rule(ctx, flow)
    _base_side_rule(ctx, flow)


# =====================================================================
# R14.5: which directory a safe_join result is contained in


class _Side:
    """what stands on the *untrusted side* of a safe_join call.

    safe_join(B, c1, ..., cn) contains its result in B - and in nothing narrower: every ci is normalised as one
    string, so a directory name that was put into ci together with request data (`join(directory, path)`) is
    ordinary text there and `..` segments of the request consume it.  The walk goes backwards from a component
    argument through reaching definitions, conditional arms, containers, parameters of followed helpers (their call
    sites) and results of followed helpers (their returns), and looks at every place where a path is put together:
    os.path.join / posixpath.join, `+`, `%`, f-strings, `sep.join([...])`, `str.format`, `+=`."""

    def __init__(self, flow: _Flow):
        self.flow = flow
        self._busy: set[tuple[int, int]] = set()

    # -- constants ---------------------------------------------------------
    def is_const(self, u: Unit, e: ast.AST | None, node: Node | None, depth: int = 0) -> bool:
        """text that does not depend on configuration or the request: literals, module-level names (os.sep, a
        module constant), locals bound to such values only."""
        if e is None:
            return True
        if depth > 6:
            return False
        if isinstance(e, ast.Constant):
            return True
        if isinstance(e, ast.Name):
            if u.lambda_param(e) or bound_in_comp(e, u.node):
                return False
            host: Unit | None = u
            defs: list[Def] | None = None
            if node is not None and u._is_local(e.id):
                defs = list(u.rd.reaching(node, e.id))
            else:
                host = u.enclosing
                while host is not None and not host._is_local(e.id):
                    host = host.enclosing
                if host is None:
                    return True  # module-level name
                defs = [x for ds in host.rd.gen.values() for x in ds if x.name == e.id] + [x for x in host.rd.param_defs if x.name == e.id]
            return bool(defs) and all(d.kind in ("assign", "walrus") and d.index is None and d.value is not None and self.is_const(host, d.value, d.node, depth + 1) for d in defs)  # type: ignore[arg-type]
        if isinstance(e, ast.Attribute):
            return self.is_const(u, e.value, node, depth + 1)  # os.sep: a module; self.x / kwargs.y: configuration
        if isinstance(e, ast.Call):
            parts = [e.func] + [a.value if isinstance(a, ast.Starred) else a for a in e.args] + [k.value for k in e.keywords]
            return all(self.is_const(u, c, node, depth + 1) for c in parts)
        return all(self.is_const(u, c, node, depth + 1) for c in ast.iter_child_nodes(e) if isinstance(c, ast.expr))

    # -- places where a path is put together ------------------------------------------
    def operands(self, u: Unit, e: ast.AST, node: Node | None) -> list[ast.AST] | None:
        ops: list[ast.AST] | None = None
        if isinstance(e, ast.Call) and u.resolve(e.func) in JOIN:
            ops = list(e.args) + [k.value for k in e.keywords]
        elif isinstance(e, ast.BinOp) and isinstance(e.op, ast.Add):
            ops = [e.left, e.right]
        elif isinstance(e, ast.BinOp) and isinstance(e.op, ast.Mod):
            ops = [e.left] + (list(e.right.elts) if isinstance(e.right, ast.Tuple) else list(e.right.values) if isinstance(e.right, ast.Dict) else [e.right])
        elif isinstance(e, ast.JoinedStr):
            ops = [v.value for v in e.values if isinstance(v, ast.FormattedValue)]
        elif isinstance(e, ast.Call) and isinstance(e.func, ast.Attribute) and e.func.attr == "join" and len(e.args) == 1 and not e.keywords and self.is_const(u, e.func.value, node):
            ops = [e.args[0]]
        elif isinstance(e, ast.Call) and isinstance(e.func, ast.Attribute) and e.func.attr in ("format", "format_map") and self.is_const(u, e.func.value, node):
            ops = list(e.args) + [k.value for k in e.keywords]
        elif isinstance(e, ast.Call) and isinstance(e.func, ast.Attribute) and e.func.attr in ("joinpath", "with_name", "with_segments") and not e.keywords:
            ops = [e.func.value] + list(e.args)  # pathlib spelling of the join
        elif isinstance(e, ast.BinOp) and isinstance(e.op, ast.Div):
            ops = [e.left, e.right]  # pathlib `/`
        if ops is None:
            return None
        out: list[ast.AST] = []
        for o in ops:
            out += self.spread(u, o.value if isinstance(o, ast.Starred) else o, node)
        return out

    def spread(self, u: Unit, e: ast.AST, node: Node | None, depth: int = 0) -> list[ast.AST]:
        """a list / tuple that merely holds path values stands for its elements (display, list(...), a local name
        bound to one, what is appended to it)."""
        if depth > 4:
            return [e]
        el = held_elements(e)
        if el is not None:
            return [y for x in el for y in self.spread(u, x, node, depth + 1)]
        if isinstance(e, (ast.ListComp, ast.GeneratorExp)):
            return [e.elt] + [g.iter for g in e.generators]
        if isinstance(e, ast.Name) and node is not None and u._is_local(e.id) and e.id not in u.params:
            defs = u.rd.reaching(node, e.id)
            if defs and all(d.kind in ("assign", "walrus") and d.index is None and d.node is not None and held_elements(d.value) is not None for d in defs):
                out: list[ast.AST] = []
                for d in sorted(defs, key=lambda d: getattr(d.stmt, "lineno", 0)):
                    for x in held_elements(d.value) or []:
                        out += self.spread(u, x, d.node, depth + 1)
                for st, v, _seq in growth_args(u.node, e.id):
                    out += self.spread(u, v, u.cfg.node_of(st), depth + 1)
                return out
        return [e]

    def judge(self, u: Unit, e: ast.AST, ops: list[ast.AST], node: Node | None) -> str | None:
        prov = self.flow.prov(u)
        tainted = None
        trusted = None
        for o in ops:
            on = self._node_of(u, o, node)
            k, _ = prov.kind(o, on, 0, ancestor_conds(u, o))
            if k == X_:
                tainted = tainted or o
            elif not self.is_const(u, o, on):
                trusted = trusted or o
        if tainted is not None and trusted is not None:
            return f"`{norm(e)[:80]}` puts the trusted `{norm(trusted)[:40]}` and the request-derived `{norm(tainted)[:40]}` into one string"
        return None

    @staticmethod
    def _node_of(u: Unit, e: ast.AST, fallback: Node | None) -> Node | None:
        """the CFG node of the statement an expression belongs to (elements of a container bound earlier are
        evaluated there, not at the place that spreads the container)."""
        cur: ast.AST | None = e
        while cur is not None and cur is not u.node:
            if isinstance(cur, ast.stmt):
                n = u.cfg.node_of(cur)
                return n if n is not None else fallback
            cur = astq.parent(cur)
        return fallback

    # -- the walk ----------------------------------------------------------------
    def mixed(self, u: Unit, e: ast.AST | None, node: Node | None, depth: int = 0) -> str | None:
        """a description of the first place in the history of `e` where trusted, non-constant text and
        request-derived data are put into one string; None when there is none."""
        if e is None or isinstance(e, ast.Constant) or depth > 12:
            return None
        key = (id(u), id(e))
        if key in self._busy:
            return None
        self._busy.add(key)
        try:
            return self._mixed(u, e, node, depth)
        finally:
            self._busy.discard(key)

    def _mixed(self, u: Unit, e: ast.AST, node: Node | None, depth: int) -> str | None:
        flow = self.flow
        if isinstance(e, ast.Call) and _is_safe_join(u, e):
            return None  # a containment check of its own, judged at its own call site
        ops = self.operands(u, e, node)
        if ops is not None:
            r = self.judge(u, e, ops, node)
            if r is not None:
                return r
            for o in ops:
                r = self.mixed(u, o, self._node_of(u, o, node), depth + 1)
                if r is not None:
                    return r
            return None
        if isinstance(e, ast.Name):
            if u.lambda_param(e):
                return None
            g = bound_in_comp(e, u.node)
            if g is not None:
                return self.mixed(u, g.iter, node, depth + 1)
            if node is not None and u._is_local(e.id):
                defs = list(u.rd.reaching(node, e.id))
                host = u
            else:
                host = u.enclosing  # type: ignore[assignment]
                while host is not None and not host._is_local(e.id):
                    host = host.enclosing  # type: ignore[assignment]
                if host is None:
                    return None
                defs = [x for ds in host.rd.gen.values() for x in ds if x.name == e.id] + [x for x in host.rd.param_defs if x.name == e.id]
            for d in sorted(defs, key=lambda d: getattr(d.stmt, "lineno", 0)):
                r = self.mixed_def(host, d, depth + 1)
                if r is not None:
                    return r
            for st, v, _seq in growth_args(host.node, e.id):
                r = self.mixed(host, v, host.cfg.node_of(st), depth + 1)
                if r is not None:
                    return r
            return None
        if isinstance(e, ast.IfExp):
            return self.mixed(u, e.body, node, depth + 1) or self.mixed(u, e.orelse, node, depth + 1)
        if isinstance(e, ast.Lambda):
            return self.mixed(u, e.body, node, depth + 1)
        if isinstance(e, ast.Call):
            tg = flow.target_of(u, e)
            if tg is not None:
                hu = flow.by_func.get(id(tg[0].node))
                if hu is not None:
                    for r_ in astq.returns_of(hu.node):
                        r = self.mixed(hu, r_.value, hu.cfg.node_of(r_), depth + 1)
                        if r is not None:
                            return r
        for ch in ast.iter_child_nodes(e):
            if isinstance(ch, ast.expr):
                r = self.mixed(u, ch, node, depth + 1)
                if r is not None:
                    return r
            elif isinstance(ch, (ast.comprehension, ast.keyword)):
                for sub in ast.iter_child_nodes(ch):
                    if isinstance(sub, ast.expr) and not (isinstance(sub, ast.Name) and isinstance(sub.ctx, ast.Store)):
                        r = self.mixed(u, sub, node, depth + 1)
                        if r is not None:
                            return r
        return None

    def mixed_def(self, u: Unit, d: Def, depth: int) -> str | None:
        flow = self.flow
        if d.kind == "param":
            if not u.helper:
                return None  # a root: its parameters are what the framework / the request hands in
            for cu, c, off in flow.sites_of(u):
                for pname, arg in flow.bind(u, off, c):
                    if pname == d.name:
                        r = self.mixed(cu, arg, cu.cfg.node_of(c), depth + 1)
                        if r is not None:
                            return r
            return None
        if d.value is None or d.kind in ("import", "def", "except", "del"):
            return None
        v = d.value
        if d.kind == "unpack" and isinstance(v, (ast.Tuple, ast.List)) and d.index is not None and d.index < len(v.elts) and not any(isinstance(x, ast.Starred) for x in v.elts):
            v = v.elts[d.index]
        if d.kind == "aug" and d.node is not None:
            prov = flow.prov(u)
            prior = [p for p in u.rd.reaching(d.node, d.name) if p is not d]
            pk = T_
            for p in prior:
                pk = join_kind(pk, prov._def(p, 0)[0])
            vk = prov.kind(v, d.node, 0, ancestor_conds(u, v))[0]
            prior_const = all(p.kind in ("assign", "walrus") and p.index is None and self.is_const(u, p.value, p.node) for p in prior)
            if (pk == X_ and vk != X_ and not self.is_const(u, v, d.node)) or (vk == X_ and pk != X_ and not prior_const):
                return f"`{norm(d.stmt)[:80]}` puts trusted text and request-derived data into one string"
            for p in prior:
                r = self.mixed_def(u, p, depth + 1)
                if r is not None:
                    return r
        return self.mixed(u, v, d.node, depth + 1)

    # -- the base ----------------------------------------------------------------
    def from_param(self, u: Unit, e: ast.AST | None, node: Node | None, root: Unit, pname: str, depth: int = 0) -> bool:
        """does the value of `e` depend on parameter `pname` of `root` - on every reaching definition and every
        arm of a selection (within an expression: some operand does)?"""
        if e is None or depth > 12 or isinstance(e, ast.Constant):
            return False
        if isinstance(e, ast.Name):
            if u.lambda_param(e):
                return False
            if node is not None and u._is_local(e.id):
                defs = list(u.rd.reaching(node, e.id))
                host = u
            else:
                host = u.enclosing  # type: ignore[assignment]
                while host is not None and not host._is_local(e.id):
                    host = host.enclosing  # type: ignore[assignment]
                if host is None:
                    return False
                defs = [x for ds in host.rd.gen.values() for x in ds if x.name == e.id] + [x for x in host.rd.param_defs if x.name == e.id]
            return bool(defs) and all(self._def_from_param(host, d, root, pname, depth + 1) for d in defs)
        if isinstance(e, ast.IfExp):
            return self.from_param(u, e.body, node, root, pname, depth + 1) and self.from_param(u, e.orelse, node, root, pname, depth + 1)
        if isinstance(e, ast.BoolOp):
            # `directory or "."`: a constant arm replaces a falsy value only
            vals = [v for v in e.values if not isinstance(v, ast.Constant)]
            if isinstance(e.op, ast.And):
                vals = vals[-1:]
            return bool(vals) and all(self.from_param(u, v, node, root, pname, depth + 1) for v in vals)
        if isinstance(e, ast.NamedExpr):
            return self.from_param(u, e.value, node, root, pname, depth + 1)
        if isinstance(e, ast.Call):
            tg = self.flow.target_of(u, e)
            hu = self.flow.by_func.get(id(tg[0].node)) if tg is not None else None
            if hu is not None:
                rets = [r for r in astq.returns_of(hu.node) if r.value is not None and not astq.is_none(r.value)]
                return bool(rets) and all(self.from_param(hu, r.value, hu.cfg.node_of(r), root, pname, depth + 1) for r in rets)
        # any other expression (a call, a method call, formatting, an operator) depends on what its operands depend on
        kids: list[ast.AST] = []
        for ch in ast.iter_child_nodes(e):
            if isinstance(ch, ast.keyword):
                kids.append(ch.value)
            elif isinstance(ch, ast.expr) and not (isinstance(e, ast.Call) and ch is e.func and isinstance(ch, ast.Name)):
                kids.append(ch)
        return any(self.from_param(u, ch, node, root, pname, depth + 1) for ch in kids)

    def _def_from_param(self, u: Unit, d: Def, root: Unit, pname: str, depth: int) -> bool:
        if d.kind == "param":
            if u is root:
                return d.name == pname
            sites = [(cu, c, off) for cu, c, off in self.flow.sites_of(u)]
            args = [(cu, c, a) for cu, c, off in sites for p, a in self.flow.bind(u, off, c) if p == d.name]
            return bool(args) and all(self.from_param(cu, a, cu.cfg.node_of(c), root, pname, depth + 1) for cu, c, a in args)
        if d.value is None or d.node is None or d.kind in ("import", "def", "except", "del"):
            return False
        v = d.value
        if d.kind == "unpack" and isinstance(v, (ast.Tuple, ast.List)) and d.index is not None and d.index < len(v.elts) and not any(isinstance(x, ast.Starred) for x in v.elts):
            v = v.elts[d.index]
        if d.kind == "aug":
            prior = [p for p in u.rd.reaching(d.node, d.name) if p is not d]
            if prior and all(self._def_from_param(u, p, root, pname, depth + 1) for p in prior):
                return True
        return self.from_param(u, v, d.node, root, pname, depth + 1)


def bound_in_comp(e: ast.Name, stop: ast.AST) -> ast.comprehension | None:
    return bound_in_enclosing_comp(e, stop)


def _base_side_rule(ctx: Ctx, flow: _Flow) -> None:
    """R14.5: at every safe_join call whose components carry request data, no component has trusted non-constant
    text joined into it, and - in send_from_directory - the base is built from the `directory` parameter."""
    side = _Side(flow)
    n_calls = n_dir = 0
    sfd = flow.sfd
    for u in flow.units:
        prov = flow.prov(u)
        in_sfd = not (u.owner.cls is flow.sdm or u.owner.module is flow.sdm.module)
        for c in sorted((n for n in own_nodes(u.node) if isinstance(n, ast.Call) and _is_safe_join(u, n)), key=lambda n: (n.lineno, n.col_offset)):
            node = u.cfg.node_of(c)
            if not c.args or isinstance(c.args[0], ast.Starred):
                continue  # R14.2 reports the missing base
            comps = [a.value if isinstance(a, ast.Starred) else a for a in c.args[1:]] + [k.value for k in c.keywords]
            hot = [a for a in comps if prov.kind(a, node, 0, ancestor_conds(u, a))[0] == X_]
            if not hot:
                continue  # nothing request-derived is joined here
            n_calls += 1
            why = None
            for a in hot:
                why = side.mixed(u, a, node)
                if why is not None:
                    break
            ctx.ob("R14.5", f"{u.label}: the request-derived component(s) of `{norm(c)[:70]}` carry no trusted directory name", why is None, why or f"{', '.join('`' + norm(a)[:40] + '`' for a in hot)}: request data and constants only - every trusted name of the served path stands in the base `{norm(c.args[0])[:50]}`, which is what the check contains the result in", u.owner, c, f"{u.label} safe_join components")
            if in_sfd:
                n_dir += 1
                ok = side.from_param(u, c.args[0], node, sfd, "directory")
                ctx.ob("R14.5", f"{u.label}: the base of `{norm(c)[:70]}` is built from send_from_directory's `directory`", ok, f"base `{norm(c.args[0])[:60]}`" + (" depends on the `directory` parameter on every path" if ok else " does not (on some path) depend on the `directory` parameter: the result is contained in something else than the directory the caller named"), u.owner, c, f"{u.label} safe_join base from directory")
    ctx.floor("R14.5", "safe_join calls with request-derived components", n_calls, 2)
    ctx.floor("R14.5", "safe_join calls reached from send_from_directory", n_dir, 1)


def _local_value(u: Unit, e: ast.AST | None, node: Node | None, hops: int = 3) -> ast.AST | None:
    """the expression a local alias stands for: a name with a single plain definition (`exc = NotFound()`,
    `nothing = None, None`, `app = self.app`) or a module-level constant is replaced by its value."""
    while isinstance(e, ast.Name) and node is not None and hops > 0:
        defs = u.rd.reaching(node, e.id)
        if not defs and not u._is_local(e.id):
            vals = u.module.assigns.get(e.id) or []
            if len(vals) != 1:
                return e
            return vals[0]
        d = next(iter(defs)) if len(defs) == 1 else None
        if d is None or d.kind != "assign" or d.index is not None or d.value is None or d.node is None:
            return e
        e, node = d.value, d.node
        hops -= 1
    return e


def _refusal_nodes(u: Unit, kind: str) -> list[Node]:
    out = []
    for n in own_nodes(u.node, through_lambdas=False):
        cn = u.cfg.node_of(n) if isinstance(n, (ast.Raise, ast.Return)) else None
        if cn is None:
            continue
        if kind in ("raise", "either") and isinstance(n, ast.Raise):
            exc = _local_value(u, n.exc, cn)
            if isinstance(exc, ast.Call):
                exc = exc.func
            d = dotted(exc) if exc is not None else None
            if d is not None and d.rsplit(".", 1)[-1] == "NotFound":
                out.append(cn)
        elif kind in ("none", "either") and isinstance(n, ast.Return) and _refusal_value(_local_value(u, n.value, cn)):
            out.append(cn)
        elif kind == "app" and isinstance(n, ast.Return):
            v = _local_value(u, n.value, cn)
            f = _local_value(u, v.func, cn) if isinstance(v, ast.Call) else None
            if isinstance(f, ast.Attribute) and astq.is_self_attr(f, "app"):
                out.append(cn)
    return out


def _opaque_returns(u: Unit) -> list[Node]:
    """returns whose value is taken out of a local list / dict (`return found["name"], found["opener"]`): what they
    hand back depends on what was stored there, which the refusal rule does not track."""
    out = []
    for n in own_nodes(u.node, through_lambdas=False):
        if not isinstance(n, ast.Return) or n.value is None:
            continue
        cn = u.cfg.node_of(n)
        v = _local_value(u, n.value, cn)
        parts = list(v.elts) if isinstance(v, ast.Tuple) else [v]
        if cn is not None and any(isinstance(x, ast.Subscript) and isinstance(x.value, ast.Name) and u._is_local(x.value.id) and x.value.id not in u.params for x in parts):
            out.append(cn)
    return out


def _refusal_value(v: ast.AST | None) -> bool:
    return v is None or astq.is_none(v) or (isinstance(v, ast.Tuple) and bool(v.elts) and all(astq.is_none(x) for x in v.elts))


def _all_paths_refuse(u: Unit, nulls: Nulls, test: Node, label: str, name: str, kind: str) -> bool:
    return nulls.none_paths_end_in(test, label, name, _refusal_nodes(u, kind))


def _null_rule(ctx: Ctx, flow: _Flow, u: Unit) -> tuple[int, int]:
    """R14.3 for one unit: every possibly-None result of safe_join (or of a helper that hands a safe_join result on,
    or a parameter a caller binds to one) is known not to be None wherever it is used as a value."""
    cfg, rd = u.cfg, u.rd
    nulls = flow.nulls(u)
    passes = flow.passes(u)
    is_sj = _is_safe_join_call(u)
    want = {"raise": "raise NotFound", "none": "return None / (None, None)", "either": "raise NotFound / return None"}[u.refusal]
    sources: list[tuple[ast.AST, str]] = []
    for c in sorted((n for n in own_nodes(u.node) if isinstance(n, ast.Call) and nulls.is_source(n)), key=lambda n: (n.lineno, n.col_offset)):
        sources.append((c, "safe_join result" if is_sj(c) else f"result of `{norm(c.func)}` (hands a safe_join result or its refusal on)"))
    for p, a in nulls.param_src.items():
        sources.append((a, f"parameter `{p}` (bound to a possibly-None safe_join result by a caller)"))
    if not sources:
        return 0, 0
    all_defs = [d for ds in rd.gen.values() for d in ds] + list(rd.param_defs)
    loads = [nm for nm in own_nodes(u.node) if isinstance(nm, ast.Name) and isinstance(nm.ctx, ast.Load) and not u.lambda_param(nm)]
    handed_on: frozenset[ast.AST] = frozenset()  # still possibly None where it is returned / passed to a followed helper
    if u.helper:
        for r in astq.returns_of(u.node):
            handed_on |= nulls.origins(r.value, cfg.node_of(r))
    for c in (n for n in own_nodes(u.node) if isinstance(n, ast.Call) and flow.target_of(u, n) is not None):
        for a in list(c.args) + [k.value for k in c.keywords]:
            handed_on |= nulls.origins(a, cfg.node_of(c), ancestor_conds(u, a))
    n_tests = n_use = 0
    refusals_done: set[tuple[int, str]] = set()
    for src, what in sources:
        tag = "safe_join" if isinstance(src, ast.Call) and is_sj(src) else (f"helper {norm(src.func)}" if isinstance(src, ast.Call) else f"param {src.arg}")  # type: ignore[attr-defined]
        if isinstance(src, ast.Call):
            pos = position(u, src, passes)
            if pos == "use" or (pos == "return" and not u.helper):
                st = astq.parent(src)
                ctx.ob("R14.3", f"{u.label}: the {what} is bound to a name and tested for None", False, f"`{norm(src)}` is used directly in `{norm(st)[:80]}`", u.owner, src, f"{u.label} {tag} unbound")
                continue
        carriers = [d for d in all_defs if src in nulls.def_origins(d)]
        names = sorted({d.name for d in carriers})
        # ---- tests
        tests: list[tuple[Node, str, str]] = []
        for d in carriers:
            tests += [e for e in nulls.tests_of(d) if e not in tests]
        expr_tests: list[tuple[ast.AST, bool]] = []
        for e in own_nodes(u.node):
            if isinstance(e, (ast.IfExp, ast.BoolOp)) and not _in_cfg_condition(e):
                en = cfg.node_of(e)
                if en is None:
                    continue
                for tst, arms in ([(e.test, (True, False))] if isinstance(e, ast.IfExp) else [(v, (isinstance(e.op, ast.And),)) for v in e.values[:-1]]):
                    for v in arms:
                        if any(implied(u, tst, v, nm, en) == "nonnull" and any(d.name == nm and (d in rd.reaching(en, nm) or (d.kind == "walrus" and d.node is en and any(x is d.stmt for x in ast.walk(tst)))) for d in carriers) for nm in names):
                            expr_tests.append((e, v))
        if not (src in handed_on and not tests and not expr_tests):  # whoever receives it is obliged instead
            n_tests += len(tests) + len(expr_tests)
            ctx.ob("R14.3", f"{u.label}: the {what} `{'/'.join(names) or norm(src)[:40]}` is tested for None", bool(tests or expr_tests), f"{[norm(tn.ast) for tn, _, _ in tests] + [norm(e)[:50] for e, _ in expr_tests]}", u.owner, src, f"{u.label} {tag} none test")
        # ---- uses
        for nm in loads:
            un = cfg.node_of(nm)
            if un is None or src not in nulls.origins(nm, un, (), guarded=False):
                continue
            pos = position(u, nm, passes)
            if pos in ("test", "bind", "pass", "discard") or (pos == "return" and u.helper):
                continue
            n_use += 1
            conds = ancestor_conds(u, nm)
            ok = src not in nulls.origins(nm, un, conds)
            wit = ""
            if not ok:
                for d in rd.reaching(un, nm.id):
                    if src in nulls.def_origins(d) and nulls.unguarded(d, un):
                        pth = nulls.witness(d, un)
                        wit = " reachable from the definition without passing a not-None edge: " + (cfg.fmt_path(pth) if pth else "?")
                        break
            ctx.ob("R14.3", f"{u.label}: `{nm.id}` is used only after its `is None` test", ok, f"use in `{un.text()[:70]}`" + wit, u.owner, nm, f"{u.label} use of {tag} result in {un.text()[:60]}")
        # ---- the None edge refuses
        for tn, lab, var in tests:
            refuse = "F" if lab == "T" else "T"
            if (tn.id, refuse) in refusals_done:
                continue
            refusals_done.add((tn.id, refuse))
            # a candidate taken from a list of candidates: turning to the next one is how this one is refused
            heads = [d.node for d in carriers if d.kind == "for" and d.name == var and d.node is not None and d in rd.reaching(tn, var)]
            goals = _refusal_nodes(u, u.refusal) + heads
            ok = nulls.none_paths_end_in(tn, refuse, var, goals)
            if not ok:
                opaque = _opaque_returns(u)
                if opaque and nulls.none_paths_end_in(tn, refuse, var, goals + opaque):
                    raise AnalysisError(f"{u.label}: the None edge of `{norm(tn.ast)}` ends in `{opaque[0].text()[:60]}`, whose value is read out of a local container: cannot decide whether it is the refusal value")
            ctx.ob("R14.3", f"{u.label}: a refused path ends in {want}" + (" / the next candidate" if heads else ""), ok, f"None edge of `{norm(tn.ast)}`", u.owner, tn.ast, f"{u.label} refusal edge")
        for e, v in expr_tests:
            if (id(e), str(v)) in refusals_done:  # type: ignore[comparison-overlap]
                continue
            refusals_done.add((id(e), str(v)))  # type: ignore[arg-type]
            if not isinstance(e, ast.IfExp):
                continue  # `x is not None and f(x)`: the value of the chain is judged where it is used
            arm = e.orelse if v else e.body
            if position(u, e) != "return" or u.refusal == "raise":
                raise AnalysisError(f"{u.label}: the None arm of `{norm(e)[:70]}` is not a returned value: cannot decide where the refusal leads")
            ctx.ob("R14.3", f"{u.label}: a refused path ends in {want}", _refusal_value(arm), f"None arm of `{norm(e)[:70]}` is `{norm(arm)}`", u.owner, e, f"{u.label} refusal arm")
    return n_tests, n_use


def _in_cfg_condition(e: ast.AST) -> bool:
    """is e (part of) the condition of an if / while statement, which the CFG splits into its atoms?"""
    cur = e
    p = astq.parent(cur)
    while isinstance(p, ast.BoolOp) or (isinstance(p, ast.UnaryOp) and isinstance(p.op, ast.Not)):
        cur, p = p, astq.parent(p)
    return isinstance(p, (ast.If, ast.While)) and p.test is cur


def _fallthrough_rule(ctx: Ctx, flow: _Flow) -> None:
    """SharedDataMiddleware: the opener obtained from a loader may be None (refusal): it is called only where it is
    known not to be None, and the None edge of the deciding test falls through to the wrapped application.  The
    opener is found by its role - a local callable that came out of a call and is invoked without arguments; when
    the invocation sits in a followed helper that received the opener as a parameter, the argument is judged at
    the helper's call sites."""
    n = 0

    def came_out_of_a_call(cu: Unit, nulls: Nulls, e: ast.Name, node: Node) -> bool:
        return any(isinstance(o, ast.Call) for o in nulls.origins(e, node, (), guarded=False))

    def judge(cu: Unit, nulls: Nulls, e: ast.Name, anchor: ast.Call, node: Node) -> None:
        cfg = cu.cfg
        live = nulls.origins(e, node, ancestor_conds(cu, e))
        deciding: list[tuple[Node, str, str]] = []
        for d in cu.rd.reaching(node, e.id):
            for tn, lab, var in nulls.tests_of(d):
                other = "F" if lab == "T" else "T"
                if (tn, other, var) not in deciding and node.id in cfg.reach(cfg.succ(tn, lab)) and node.id not in cfg.reach(cfg.succ(tn, other)):
                    deciding.append((tn, other, var))
        fact = f"`{norm(anchor)[:60]}` guarded by {[norm(g.ast) for g, _, _ in deciding]}" if not live else f"`{norm(anchor)[:60]}`: a None from {sorted({norm(o)[:40] for o in live})} reaches the call"
        ctx.ob("R14.3", f"{cu.label}: the opener `{e.id}` is called only when the loader did not refuse", not live, fact, cu.owner, anchor, f"{cu.owner.name} opener call guarded")
        for tn, other, var in deciding:
            ok = _all_paths_refuse(cu, nulls, tn, other, var, "app")
            ctx.ob("R14.3", f"{cu.label}: a refusal falls through to the wrapped application", ok, f"None edge of `{norm(tn.ast)}`", cu.owner, tn.ast, f"{cu.owner.name} fallthrough")

    for u in flow.units:
        if u.owner.cls is not flow.sdm or u.node is not u.owner.node:
            continue
        cfg, rd = u.cfg, u.rd
        nulls = Nulls(u, lambda c: True, elements=True)
        for c in sorted((x for x in own_nodes(u.node) if isinstance(x, ast.Call) and isinstance(x.func, ast.Name) and not x.args and not x.keywords), key=lambda x: (x.lineno, x.col_offset)):
            node = cfg.node_of(c)
            if node is None or u.lambda_param(c.func):
                continue
            if came_out_of_a_call(u, nulls, c.func, node):
                n += 1
                judge(u, nulls, c.func, c, node)
                continue
            defs = rd.reaching(node, c.func.id)
            if not defs or not all(d.kind == "param" for d in defs):
                continue
            for cu, call, off in flow.sites_of(u):
                cnode = cu.cfg.node_of(call)
                cn = Nulls(cu, lambda c: True, elements=True)
                for pname, arg in flow.bind(u, off, call):
                    if pname == c.func.id and isinstance(arg, ast.Name) and cnode is not None and came_out_of_a_call(cu, cn, arg, cnode):
                        n += 1
                        judge(cu, cn, arg, call, cnode)
    ctx.floor("R14.3", "opener calls in SharedDataMiddleware", n, 1)


# =====================================================================
# R14.4  secure_filename: abstract states along the returned value's definition chain


def _allowed_char(c: int) -> bool:
    """the property's output alphabet bound: ASCII, not a path separator, not whitespace."""
    return c < 128 and not chr(c).isspace() and chr(c) not in "/\\"


def _allowed_str(s: str) -> bool:
    return all(_allowed_char(ord(ch)) for ch in s)


class St(t.NamedTuple):
    """abstract value of a string expression.
    filtered: every character is in the allowed alphabet (it passed the deleting regex and nothing foreign was added)
    nodot:    it cannot start with '.'
    lost:     the operation that last made a leading '.' possible again (for the report)
    pieces:   the value is a list of substrings of such a string (str.split)"""

    filtered: bool
    nodot: bool
    lost: str
    pieces: bool = False


def _meet(states: list[St]) -> St:
    if not states:
        raise AnalysisError("secure_filename: empty merge")
    lost = next((s.lost for s in states if not s.nodot), "")
    return St(all(s.filtered for s in states), all(s.nodot for s in states), lost, any(s.pieces for s in states))


_STR_PREDICATES = ("isascii", "isalnum", "isalpha", "isdigit", "isdecimal", "isnumeric", "islower", "isupper", "isspace", "isidentifier", "isprintable")
_PRED_CACHE: dict[str, set[int]] = {}


def _str_predicate_class(name: str) -> set[int]:
    if name not in _PRED_CACHE:
        _PRED_CACHE[name] = {c for c in range(0x110000) if getattr(chr(c), name)()}
    return _PRED_CACHE[name]


class _Filename:
    def __init__(self, ctx: Ctx, folder: Folder, fi: FuncInfo, env: dict[str, St] | None = None, depth: int = 0):
        self.ctx = ctx
        self.folder = folder
        self.fi = fi
        self.u = Unit(ctx.repo, fi, fi.node, fi.qualname)
        self.env = env or {}
        self.depth = depth
        self.subs: list[tuple[ast.Call, str, str, int, set[int], int]] = []  # call, description, name, size of the kept alphabet, kept-but-not-allowed, regex flags
        self.strips: list[tuple[ast.Call, str]] = []
        self.memo: dict[tuple[int, int], St] = {}
        self.comp: dict[str, St] = {}  # comprehension variables bound to one piece of a split string
        ctx.saw(fi)

    def fail(self, e: ast.AST) -> t.NoReturn:
        raise AnalysisError(f"{self.fi.qualname}: cannot interpret `{norm(e)[:80]}` on the returned value's definition chain")

    # -- names ----------------------------------------------------------
    def name(self, e: ast.Name, node: Node | None, depth: int) -> St:
        if e.id in self.comp:
            return self.comp[e.id]
        defs = self.u.rd.reaching(node, e.id) if node is not None else frozenset()
        if not defs:
            self.fail(e)
        out = []
        for d in defs:
            if d.kind == "param":
                out.append(self.env.get(d.name, St(False, False, f"`{d.name}` is the raw input")))
            elif d.kind in ("assign", "walrus") and d.index is None and d.value is not None:
                key = (id(d), 0)
                if key not in self.memo:
                    if depth > 12:
                        self.fail(e)
                    self.memo[key] = St(False, False, "loop-carried value")  # cut cycles pessimistically, then refine once
                    self.memo[key] = self.val(d.value, d.node, depth + 1)
                out.append(self.memo[key])
            else:
                self.fail(d.stmt if d.stmt is not None else e)
        return _meet(out)

    # -- expressions ------------------------------------------------------
    def val(self, e: ast.AST, node: Node | None, depth: int = 0) -> St:
        if isinstance(e, ast.Constant) and isinstance(e.value, str):
            return St(_allowed_str(e.value), not e.value.startswith("."), f"constant {e.value!r}")
        if isinstance(e, ast.Name):
            return self.name(e, node, depth)
        if isinstance(e, ast.IfExp):
            return _meet([self.val(e.body, node, depth), self.val(e.orelse, node, depth)])
        if isinstance(e, ast.BoolOp):
            return _meet([self.val(v, node, depth) for v in e.values])
        if isinstance(e, ast.JoinedStr):
            return self.concat([v.value if isinstance(v, ast.FormattedValue) else v for v in e.values], node, depth, e)
        if isinstance(e, ast.BinOp) and isinstance(e.op, ast.Add):
            return self.concat([e.left, e.right], node, depth, e)
        if isinstance(e, ast.Subscript) and isinstance(e.slice, ast.Slice):
            x = self.val(e.value, node, depth)
            lo = e.slice.lower
            from_start = lo is None or (isinstance(lo, ast.Constant) and lo.value in (0, None))
            return St(x.filtered, x.nodot and from_start, x.lost if from_start else f"slice `{norm(e)}`" if x.nodot or not x.lost else x.lost)
        if isinstance(e, ast.Call):
            return self.call(e, node, depth)
        if isinstance(e, (ast.ListComp, ast.GeneratorExp)) and len(e.generators) == 1 and isinstance(e.generators[0].target, ast.Name) and not e.generators[0].ifs:
            # every piece of a split string rewritten on its own: [f(w) for w in x.split()]
            g = e.generators[0]
            x = self.val(g.iter, node, depth)
            if x.pieces and g.target.id not in self.comp:
                self.comp[g.target.id] = St(x.filtered, x.nodot, x.lost)
                try:
                    y = self.val(e.elt, node, depth + 1)
                finally:
                    del self.comp[g.target.id]
                if not y.pieces:
                    return St(y.filtered, y.nodot, y.lost, True)
        self.fail(e)

    def concat(self, parts: list[ast.AST], node: Node | None, depth: int, whole: ast.AST) -> St:
        sts = [self.val(p, node, depth) for p in parts]
        if any(s.pieces for s in sts):
            self.fail(whole)
        filtered = all(s.filtered for s in sts)
        nodot, lost = True, ""
        for p, s in zip(parts, sts):
            if isinstance(p, ast.Constant) and isinstance(p.value, str):
                if p.value == "":
                    continue
                nodot = not p.value.startswith(".")
                lost = "" if nodot else f"constant {p.value!r} put in front in `{norm(whole)}`"
                break
            if not s.nodot:
                nodot, lost = False, s.lost
                break
            # the part may be empty: the next part decides as well
        return St(filtered, nodot, lost)

    def call(self, e: ast.Call, node: Node | None, depth: int) -> St:
        f = e.func
        fq = self.u.resolve(f)
        if fq == "builtins.str" and len(e.args) == 1 and not e.keywords:
            return self.val(e.args[0], node, depth)
        if fq == "unicodedata.normalize" and len(e.args) == 2:
            x = self.val(e.args[1], node, depth)
            return St(x.filtered, x.nodot and x.filtered, x.lost if not x.nodot else ("" if x.filtered else f"`{norm(f)}` may rewrite the first character"))
        # one-level summary of a helper of the same module
        if isinstance(f, ast.Name) and f.id in self.fi.module.functions and fq == f"{self.fi.module.name}.{f.id}":
            h = self.fi.module.functions[f.id]
            if self.depth >= 2 or e.keywords or len(e.args) != len(h.params) or any(isinstance(a, ast.Starred) for a in e.args):
                self.fail(e)
            env = {}
            for pn, a in zip(h.params, e.args):
                try:
                    env[pn] = self.val(a, node, depth)
                except AnalysisError:
                    pass  # non-string argument: fails later only if it reaches the returned value
            sub = _Filename(self.ctx, self.folder, h, env, self.depth + 1)
            rets = [r for r in astq.returns_of(h.node) if r.value is not None]
            if not rets:
                self.fail(e)
            st = _meet([sub.val(r.value, sub.u.cfg.node_of(r)) for r in rets])
            self.subs += sub.subs
            self.strips += sub.strips
            return st
        # re.sub(<regex or pattern>, repl, x): the function spelling of <regex>.sub(repl, x)
        if fq == "re.sub" and len(e.args) >= 3 and not any(isinstance(a, ast.Starred) for a in e.args):
            pat = e.args[0]
            if isinstance(pat, ast.Constant) and isinstance(pat.value, str) and not e.keywords:
                rx, rname = RegexConst(pat.value, 0), repr(pat.value)
            else:
                rx, rname = self.regex(pat)
            if rx is None:
                self.fail(e)
            return self.sub(e, rx, rname, e.args[1], e.args[2], len(e.args) > 3 or bool(e.keywords), node, depth)
        if not isinstance(f, ast.Attribute):
            self.fail(e)
        m = f.attr
        # <regex>.sub(repl, x)
        if m == "sub" and len(e.args) >= 2 and not isinstance(f.value, ast.Constant):
            rx, rname = self.regex(f.value)
            if rx is not None:
                return self.sub(e, rx, rname, e.args[0], e.args[1], len(e.args) > 2 or bool(e.keywords), node, depth)
        # "".join(ch for ch in x if <keep condition on ch>): the comprehension spelling of a deleting substitution
        comp_arg = e.args[0] if len(e.args) == 1 else None
        comp_node = node
        if m == "join" and isinstance(comp_arg, ast.Name) and comp_arg.id not in self.comp and node is not None:
            # the comprehension bound to a local first: kept = [ch for ch in x if ...]; "".join(kept)
            ds = self.u.rd.reaching(node, comp_arg.id)
            d0 = next(iter(ds)) if len(ds) == 1 else None
            if d0 is not None and d0.kind == "assign" and d0.index is None and isinstance(d0.value, (ast.GeneratorExp, ast.ListComp)) and d0.value.generators[0].ifs:
                comp_arg, comp_node = d0.value, d0.node
        if m == "join" and isinstance(f.value, ast.Constant) and f.value.value == "" and len(e.args) == 1 and isinstance(comp_arg, (ast.GeneratorExp, ast.ListComp)) and comp_arg.generators[0].ifs:
            g = comp_arg
            node = comp_node
            gen = g.generators[0]
            if len(g.generators) == 1 and isinstance(gen.target, ast.Name) and astq.is_name(g.elt, gen.target.id) and gen.ifs:
                x = self.val(gen.iter, node, depth)
                kept: set[int] | None = None
                for cond in gen.ifs:
                    k = self.kept(cond, gen.target.id)
                    if k is None:
                        self.fail(cond)
                    kept = k if kept is None else kept & k
                assert kept is not None
                bad = {c for c in kept if not _allowed_char(c)}
                if not any(c is e for c, *_ in self.subs):
                    self.subs.append((e, f"filter `{' and '.join(norm(c) for c in gen.ifs)[:60]}`", "the character filter", len(kept), bad, 0))
                nodot = ord(".") not in kept
                return St(x.filtered or not bad, nodot, "" if nodot else "the character filter deletes characters and can expose a '.'")
        x = self.val(f.value, node, depth) if not isinstance(f.value, ast.Constant) else None
        if x is not None and not x.pieces:
            if m in ("encode", "decode"):
                return St(x.filtered, x.nodot and x.filtered, x.lost if not x.nodot else ("" if x.filtered else f"`.{m}(...)` may drop characters"))
            if m in ("strip", "lstrip", "rstrip") and len(e.args) <= 1 and not e.keywords:
                s = None
                if e.args:
                    if not (isinstance(e.args[0], ast.Constant) and isinstance(e.args[0].value, str)):
                        self.fail(e)
                    s = e.args[0].value
                if m == "rstrip":
                    return x
                if s is not None and "." in s:
                    self.strips.append((e, s))
                    return St(x.filtered, True, "")
                keeps = x.nodot and x.filtered and (s is None or not any(_allowed_char(ord(ch)) for ch in s))
                return St(x.filtered, keeps, "" if keeps else (f"`.{m}({s!r})` removes leading characters but not '.'" if x.nodot else f"{x.lost}, and the following `.{m}({s!r})` does not remove '.'"))
            if m == "replace" and len(e.args) == 2:
                new = e.args[1]
                if not (isinstance(new, ast.Constant) and isinstance(new.value, str)):
                    self.fail(e)
                nodot = x.nodot and new.value != "" and not new.value.startswith(".")
                return St(x.filtered and _allowed_str(new.value), nodot, "" if nodot else (x.lost if not x.nodot else f"`{norm(e)[:60]}` can put a '.' first"))
            if m in ("lower", "upper", "casefold", "title", "capitalize", "swapcase") and not e.args:
                return x
            if m in ("split", "rsplit") and not e.keywords:
                ws = not e.args
                keeps = ws and x.nodot and x.filtered  # nothing to split off in a string without whitespace
                return St(x.filtered, keeps, "" if keeps else (x.lost if not x.nodot else f"`{norm(e)[:60]}` drops characters in front of a piece"), True)
            self.fail(e)
        if m == "join" and isinstance(f.value, ast.Constant) and isinstance(f.value.value, str) and len(e.args) == 1:
            lst = self.val(e.args[0], node, depth)
            if not lst.pieces:
                self.fail(e)
            sep = f.value.value
            return St(lst.filtered and _allowed_str(sep), lst.nodot, lst.lost)
        self.fail(e)

    def sub(self, e: ast.Call, rx: RegexConst, rname: str, repl: ast.AST, target: ast.AST, limited: bool, node: Node | None, depth: int) -> St:
        if not (isinstance(repl, ast.Constant) and isinstance(repl.value, str)):
            self.fail(e)
        x = self.val(target, node, depth)
        matched, _rep = single_class(rx, 0x110000)
        bad = {c for c in range(0x110000) if c not in matched and not _allowed_char(c)} if len(matched) < 0x110000 else set()
        # a substitution that deletes, or whose kept alphabet is allowed, is (a candidate for) the filter the result
        # relies on; any other one (`\s+` -> "_") only rewrites characters and is judged by what it inserts
        if (repl.value == "" or not bad) and not any(c is e for c, *_ in self.subs):
            self.subs.append((e, f"pattern {rx.pattern!r}", rname, 0x110000 - len(matched), bad, rx.flags))
        clean = not bad and not limited and not (rx.flags & re.I)
        filtered = (x.filtered or clean) and _allowed_str(repl.value)
        dots_gone = ord(".") in matched and not limited
        if repl.value == "":
            nodot = dots_gone
            return St(filtered, nodot, "" if nodot else f"`{rname}.sub('', ...)` deletes characters and can expose a '.'")
        nodot = (dots_gone or x.nodot) and not repl.value.startswith(".")
        return St(filtered, nodot, "" if nodot else (x.lost or f"replacement {repl.value!r}"))

    def kept(self, cond: ast.AST, var: str) -> set[int] | None:
        """the characters a keep-condition on the one-character variable lets through, or None (not understood):
        `not R.match(ch)` / `R.match(ch) is None` / `not R.search(ch)` for a single-class regex R,
        `ch in <constant string / set>` and their negations."""
        if isinstance(cond, ast.UnaryOp) and isinstance(cond.op, ast.Not):
            k = self.kept(cond.operand, var)
            return None if k is None else set(range(0x110000)) - k
        if isinstance(cond, ast.BoolOp):
            ks = [self.kept(v, var) for v in cond.values]
            if any(k is None for k in ks):
                return None
            out = ks[0]
            for k in ks[1:]:
                out = out & k if isinstance(cond.op, ast.And) else out | k  # type: ignore[operator]
            return out
        if isinstance(cond, ast.Call) and isinstance(cond.func, ast.Attribute) and astq.is_name(cond.func.value, var) and not cond.args and not cond.keywords and cond.func.attr in _STR_PREDICATES:
            # a character-class method of str, tabulated over all code points (str's own semantics, no werkzeug code)
            return _str_predicate_class(cond.func.attr)
        if isinstance(cond, ast.Compare) and len(cond.ops) == 1:
            a, op, b = cond.left, cond.ops[0], cond.comparators[0]
            if isinstance(op, (ast.Is, ast.IsNot)) and astq.is_none(b):
                k = self.kept(a, var)
                return None if k is None else (set(range(0x110000)) - k if isinstance(op, ast.Is) else k)
            if isinstance(op, (ast.In, ast.NotIn)) and astq.is_name(a, var):
                try:
                    v = self.folder.expr(self.fi.module, b)
                except Exception:  # noqa: BLE001 - not a constant of the module
                    return None
                if isinstance(v, str):
                    chars = {ord(c) for c in v}
                elif isinstance(v, (set, frozenset, tuple, list)) and all(isinstance(c, str) and len(c) == 1 for c in v):
                    chars = {ord(c) for c in v}
                else:
                    return None
                return chars if isinstance(op, ast.In) else set(range(0x110000)) - chars
            return None
        if isinstance(cond, ast.Call) and isinstance(cond.func, ast.Attribute) and cond.func.attr in ("match", "search", "fullmatch") and len(cond.args) == 1 and astq.is_name(cond.args[0], var) and not cond.keywords:
            rx, _nm = self.regex(cond.func.value)
            if rx is None or rx.flags & re.I:
                return None
            try:
                matched, rep_ = single_class(rx, 0x110000)
            except Exception:  # noqa: BLE001 - not a single class
                return None
            return matched if rep_[0] >= 1 else None
        return None

    def regex(self, e: ast.AST) -> tuple[RegexConst | None, str]:
        d = dotted(e)
        if d is None:
            return None, ""
        fq = self.u.resolve(e)
        if fq is None or not fq.startswith("werkzeug."):
            return None, d
        mn, _, nm = fq.rpartition(".")
        try:
            v = self.folder.name(self.ctx.repo.module(mn), nm)
        except AnalysisError:
            return None, d
        return (v, nm) if isinstance(v, RegexConst) and isinstance(v.pattern, str) else (None, d)


def _secure_filename_rule(ctx: Ctx) -> None:
    fi = ctx.repo.func("utils.secure_filename")
    an = _Filename(ctx, Folder(ctx.repo), fi)
    rets = [r for r in astq.returns_of(fi.node) if r.value is not None]
    ctx.floor("R14.4", "return statements of secure_filename", len(rets), 1)
    for i, r in enumerate(rets):
        st = an.val(r.value, an.u.cfg.node_of(r))
        if st.pieces:
            an.fail(r.value)
        tag = f"return#{i}" if len(rets) > 1 else "return"
        ctx.ob("R14.4", "the returned filename consists only of characters that passed the deleting regex (or constants of the allowed alphabet)", st.filtered,
               f"`{norm(r)}`: " + ("every definition chain passes a whole-string regex deletion with an allowed kept alphabet" if st.filtered else "some definition chain reaches the return without a whole-string regex deletion whose kept alphabet is ASCII without separators / whitespace"), fi, r, f"secure_filename {tag} filtered")
        ctx.ob("R14.4", "the returned filename cannot start with '.': a strip of a set containing '.' follows every character-deleting step", st.nodot,
               f"`{norm(r)}`: " + ("strip(<set with '.'>) is applied after the last deleting operation; later edits only prepend non-dot characters" if st.nodot else f"after the last strip of '.', {st.lost}"), fi, r, f"secure_filename {tag} leading dot")
    for c, descr, name, n_kept, bad, flags in an.subs:
        sample = "".join(chr(x) for x in sorted(bad)[:8])
        ctx.ob("R14.4", f"the alphabet kept by `{name}` is ASCII without '/', '\\' and whitespace", not bad, f"{descr} keeps {n_kept} code points" + (f", not allowed: {sample!r}{'...' if len(bad) > 8 else ''} ({len(bad)})" if bad else ", all allowed"), fi, c, f"secure_filename kept alphabet {name}")
        ctx.ob("R14.4", f"`{name}` is case-sensitive (no re.IGNORECASE widening of the kept alphabet)", not (flags & re.I), f"flags={flags}", fi, c, f"secure_filename regex flags {name}")
    ctx.note(f"R14.4: {len(an.subs)} deleting regex substitution(s) and {len(an.strips)} strip(<set with '.'>) call(s) on the returned value's chain")


# =====================================================================


def run(ctx: Ctx) -> None:
    ctx.rule("R14.1", "safe_join: every component that enters the result is an element of *pathnames (all are traversed) that passed, after posixpath.normpath and on the same value, reject tests covering 'starts with /', '== ..', 'starts with ../' (and alternative separators); reject edges end in return None; the result joins the trusted directory with survivors only")
    ctx.rule("R14.2", "every filesystem sink reached from send_from_directory / SharedDataMiddleware (nested callables, closures and followed helpers included) receives only trusted configuration or safe_join(<trusted base>, ...) results, never the raw request-derived name; a safe_join result that passes through anything but a copy, a selection or os.path.join with trusted operands after the containment check is no longer trusted")
    ctx.rule("R14.3", "the None of a refusing safe_join never reaches a use of the result: every path from a definition that may hold it to a use passes the not-None edge of a test about that value, and the None edge ends in NotFound / None / (None, None); SharedDataMiddleware calls the opener only where it cannot be None and otherwise falls through to the wrapped app")
    ctx.rule("R14.4", "secure_filename: the returned value passed a character filter (regex substitution or filtering comprehension) whose kept alphabet is ASCII without separators and whitespace, and strip(<set containing '.'>) follows every operation that can delete characters")
    ctx.rule("R14.5", "a safe_join result is contained in the base (first argument) of that call and in nothing narrower: where request data is joined, no component argument has trusted non-constant text (a directory name) put into one string with the request data before the check, and in send_from_directory the base is built from the `directory` parameter")
    _safe_join_rule(ctx)
    _sinks_rule(ctx)
    _secure_filename_rule(ctx)
