"""C14 - untrusted paths and filenames cannot escape the trusted directory (structural clauses)."""

from __future__ import annotations

import ast
import re
import typing as t

from .. import astq
from ..cfg import Node
from ..dataflow import Def
from ..fold import Folder, RegexConst, single_class
from ..loader import AnalysisError, FuncInfo, dotted, norm
from ..report import Ctx
from ._c14_helpers import JOIN, Atom, Prov, Unit, empty_test, helper_atoms, nested_defs, own_nodes, parse_atom

LEVEL_TEXT = (
    "Static decision of structural clauses of C14 on /repo's current source (POSIX path semantics). (R14.1) in "
    "security.safe_join every value appended to the joined list is an element of the untrusted *pathnames (the loop "
    "ranges over all of them); on every path of the iteration it has passed, after posixpath.normpath (the empty "
    "string excepted), reject tests that together cover the three escaping shapes of a normalised POSIX path - "
    "starts with '/', equals '..', starts with '../' - plus the alternative-separator test; for the two '..' shapes the "
    "tested variable is the normalised one (reaching definitions; a leading '/' or a separator character is unaffected "
    "by normpath and may be tested on either), each reject edge ends in `return None`, and the result is a join of the "
    "trusted directory with the survivors only. The reject tests are read through their structure, not their spelling: "
    "an or-chain, a flag variable assigned in the same iteration, or a module-level predicate helper called with the "
    "component, summarised one level on the helper's CFG (a predicate on the parameter counts when its edge leads only to "
    "constant returns of one truthiness and no path to the helper's exit avoids it - `return a or b`, sequential early "
    "returns, an explicit loop over the alternative separators and the negated polarity give the same summary); "
    "`normpath unless empty` may be a statement or a conditional expression / `x and normpath(x)`. (R14.2) every filesystem sink (open, os.path.isfile/getmtime/getsize/"
    "exists/isdir, os.stat, send_file, open_resource, and one-level pass-through helpers such as _opener) in "
    "utils.send_from_directory and SharedDataMiddleware receives a value built only from trusted configuration and "
    "safe_join(<trusted base>, ...) results - never the raw request-derived name - and a safe_join result keeps that "
    "standing only while it is copied, selected (conditional expression / or) or joined by os.path.join / posixpath.join "
    "with trusted operands: any other call, method call, concatenation, formatting or slicing applied to it AFTER the "
    "containment check (unquote, normpath, expandvars, replace ...) may re-open the escape and makes the value "
    "untrusted for every sink it reaches. (R14.3) every safe_join result is "
    "tested for None before any other use and the None edge ends in NotFound / a (None, None) refusal; "
    "SharedDataMiddleware.__call__ calls the opener only under `is not None` and otherwise falls through to the wrapped "
    "app. (R14.4) the value returned by utils.secure_filename has passed a regex deletion whose kept alphabet is ASCII "
    "without '/', '\\\\' and whitespace, and a strip() of a set containing '.' is applied after every operation that "
    "can delete characters; later edits only add non-dot leading characters from that alphabet. Not decided: "
    "posixpath.normpath's contract ('..' survives only as leading segments - trusted), symlinks, Windows drive / UNC "
    "forms, the `directory == ''` -> '.' substitution, that SharedDataMiddleware hands loaders only the suffix after the "
    "export prefix (not needed for containment), the NFKD / ASCII-fold quality of secure_filename, and idempotence of "
    "secure_filename as a law (it follows from the output being a fixed point of each step; not checked)."
)
TRUSTED = [
    "CPython ast and re._parser",
    "posixpath.normpath contract: the result is '.', or has no '.', '' or inner '..' segments; '..' only as leading segments; leading '/' or '//' kept",
    "posixpath.join(a, *rel) with every rel not starting with '/' stays textually under a",
    "str.strip(S) removes every leading character that is in S",
]
ASSUMPTIONS = [
    "POSIX host (os.sep == '/', os.path.altsep is None), as the property states",
    "constructor arguments of SharedDataMiddleware and the `directory` argument of send_from_directory / safe_join are trusted configuration",
    "the trusted directory contains no symlinks leading outside",
]

SINK_FQ = {
    "builtins.open", "io.open", "os.open", "os.stat", "os.lstat", "os.listdir", "os.scandir",
    "os.path.isfile", "os.path.isdir", "os.path.exists", "os.path.getmtime", "os.path.getsize",
    "werkzeug.utils.send_file",
}
SINK_ATTRS = {"open_resource"}
NORMPATH = {"posixpath.normpath", "os.path.normpath"}


# =====================================================================
# R14.1


def _unit_of(ctx: Ctx, fi: FuncInfo, **kw) -> Unit:
    ctx.saw(fi)
    return Unit(ctx.repo, fi, fi.node, fi.qualname, **kw)


def _norm_arg(u: Unit, value: ast.AST | None) -> ast.Name | None:
    """`posixpath.normpath(<Name>)` -> that Name."""
    if isinstance(value, ast.Call) and u.resolve(value.func) in NORMPATH and len(value.args) == 1 and not value.keywords and isinstance(value.args[0], ast.Name):
        return value.args[0]
    return None


def _roots(u: Unit, name: str, node: Node, depth: int = 0) -> tuple[set[Def], set[Def], set[Def]]:
    """(root definitions, normalising definitions on the way, raw definitions that reach `node` un-normalised)
    of variable `name` as seen by expressions evaluated in `node`; a root is any definition whose value is not one
    of the value forms of `_value_form` (copy, normpath, `normpath unless empty` selection)."""
    roots: set[Def] = set()
    norms: set[Def] = set()
    raw: set[Def] = set()
    for d in u.rd.reaching(node, name):
        f = None
        if d.kind in ("assign", "walrus") and d.index is None and d.value is not None and d.node is not None and depth < 4:
            f = _value_form(u, d.value, d, depth + 1)
        if f is None:
            roots.add(d)
            raw.add(d)
        else:
            roots |= f[0]
            norms |= f[1]
            raw |= f[2]
    return roots, norms, raw


def _value_form(u: Unit, e: ast.AST, d: Def, depth: int) -> tuple[set[Def], set[Def], set[Def]] | None:
    """the right-hand side of definition `d` read as a value derived from other names:
        y                                  plain copy
        normpath(y)                        normalised by d
        A if <test> else B  /  y and A     selection; a branch that is `y` under a test that makes y == "" is the
                                           empty string (needs no normalisation); any other raw value flowing through
                                           the selection makes d itself a raw definition
        ""                                 the empty string
    None: not such a form (d is a root)."""
    assert d.node is not None
    if isinstance(e, ast.Name):
        return _roots(u, e.id, d.node, depth)
    a = _norm_arg(u, e)
    if a is not None:
        r, n, _ = _roots(u, a.id, d.node, depth)
        return r, n | {d}, set()
    if isinstance(e, ast.Constant) and e.value == "":
        return set(), set(), set()
    if isinstance(e, ast.BoolOp) and isinstance(e.op, ast.And) and len(e.values) == 2 and isinstance(e.values[0], ast.Name):
        # `y and A`  ==  `A if y else y`
        e = ast.IfExp(test=e.values[0], body=e.values[1], orelse=e.values[0])
    if isinstance(e, ast.IfExp):
        emp = empty_test(e.test)
        roots: set[Def] = set()
        norms: set[Def] = set()
        leak = False
        for branch, taken in ((e.body, True), (e.orelse, False)):
            if emp is not None and emp[1] == taken and isinstance(branch, ast.Name) and branch.id == emp[0].id:
                r, n, _ = _roots(u, branch.id, d.node, depth)  # the value is ""
                roots |= r
                norms |= n | {d}
                continue
            f = _value_form(u, branch, d, depth + 1) if depth < 6 else None
            if f is None:
                return None
            roots |= f[0]
            norms |= f[1]
            leak = leak or bool(f[2])
        return roots, norms, ({d} if leak else set())
    return None


def _empty_edges(u: Unit, root: Def) -> list[tuple[Node, str]]:
    """edges on which the raw loop element (under any name that is a plain copy of it) is known to be ''."""
    out = []
    for tn in u.cfg.tests():
        if tn.kind != "test":
            continue
        r = empty_test(tn.ast)
        if r is None:
            continue
        roots, norms, raw = _roots(u, r[0].id, tn)
        if roots == {root} and not norms and raw == {root}:
            out.append((tn, "T" if r[1] else "F"))
    return out


def _safe_join_rule(ctx: Ctx) -> None:
    repo = ctx.repo
    fi = repo.func("security.safe_join")
    u = _unit_of(ctx, fi)
    fn = fi.node
    cfg, rd = u.cfg, u.rd
    if fn.args.vararg is None or not (fn.args.posonlyargs + fn.args.args):
        raise AnalysisError("safe_join: expected signature (directory, *pathnames)")
    vararg = fn.args.vararg.arg
    dirparam = (fn.args.posonlyargs + fn.args.args)[0].arg

    def trusted_dir(e: ast.AST, node: Node) -> bool:
        if not isinstance(e, ast.Name) or e.id != dirparam:
            return False
        return all(d.kind == "param" or (d.kind == "assign" and isinstance(d.value, ast.Constant) and isinstance(d.value.value, str) and not d.value.value.startswith(("/", ".."))) for d in rd.reaching(node, e.id))

    # ---- result: return None | join(<trusted dir>?, *L)
    lists: list[tuple[ast.Name, Node]] = []
    n_join = 0
    for r in astq.returns_of(fn):
        rn = cfg.node_of(r)
        if r.value is None or astq.is_none(r.value):
            continue
        v = r.value
        ok = False
        fact = norm(v)
        if isinstance(v, ast.Call) and (u.resolve(v.func) in JOIN) and not v.keywords and v.args and rn is not None:
            ok = True
            starred = [a for a in v.args if isinstance(a, ast.Starred)]
            for i, a in enumerate(v.args):
                if isinstance(a, ast.Starred):
                    if isinstance(a.value, ast.Name) and a is starred[0] and len(starred) == 1:
                        lists.append((a.value, rn))
                    else:
                        ok = False
                elif not (i == 0 and trusted_dir(a, rn)):
                    ok = False
                    fact = f"`{norm(a)}` joined without having passed the reject test"
            if not starred:
                ok = False
            n_join += 1
        elif isinstance(v, ast.Call) and isinstance(v.func, ast.Attribute) and v.func.attr == "join" and isinstance(v.func.value, ast.Constant) and v.func.value.value == "/" and len(v.args) == 1 and isinstance(v.args[0], ast.Name) and rn is not None:
            ok = True
            lists.append((v.args[0], rn))
            n_join += 1
        ctx.ob("R14.1", "safe_join returns None or the join of the trusted directory with the checked components", ok, fact, fi, r, f"safe_join result {norm(v.func) if isinstance(v, ast.Call) else type(v).__name__}")
    ctx.floor("R14.1", "joined results", n_join, 1)
    if not lists:
        raise AnalysisError("safe_join: no `join(*<list>)` result found (result slot)")

    # ---- the list: initial contents and growth sites
    lnames = {nm.id for nm, _ in lists}
    for nm, rn in lists:
        for d in rd.reaching(rn, nm.id):
            okd = d.kind == "assign" and isinstance(d.value, ast.List) and d.node is not None and all(trusted_dir(e, d.node) for e in d.value.elts)
            ctx.ob("R14.1", "the joined list starts from the trusted directory only", okd, f"`{norm(d.stmt) if d.stmt is not None else d.kind}`", fi, d.stmt, f"safe_join list init {d.kind}")
    growth: list[tuple[ast.Call | ast.AST, ast.AST | None]] = []
    for n in own_nodes(fn):
        if isinstance(n, ast.Call) and isinstance(n.func, ast.Attribute) and isinstance(n.func.value, ast.Name) and n.func.value.id in lnames and n.func.attr in ("append", "extend", "insert", "__iadd__"):
            growth.append((n, n.args[0] if n.func.attr == "append" and len(n.args) == 1 else None))
        elif isinstance(n, ast.AugAssign) and isinstance(n.target, ast.Name) and n.target.id in lnames:
            growth.append((n, None))
        elif isinstance(n, ast.Subscript) and isinstance(n.ctx, ast.Store) and isinstance(n.value, ast.Name) and n.value.id in lnames:
            growth.append((n, None))
    ctx.floor("R14.1", "append sites of the joined list", len(growth), 1)

    n_atoms = n_shapes = 0
    for site, arg in growth:
        sn = cfg.node_of(site)
        if arg is None or not isinstance(arg, ast.Name) or sn is None:
            raise AnalysisError(f"safe_join: cannot interpret list growth `{norm(site)}` (expected <list>.append(<name>))")
        loop = astq.enclosing(site, (ast.For, ast.AsyncFor, ast.While))
        head = cfg.node_of(loop) if loop is not None else None
        # (a) the loop ranges over every untrusted component
        if not isinstance(loop, ast.For) or head is None or not isinstance(loop.target, ast.Name):
            ctx.ob("R14.1", "components are appended inside a loop over *pathnames", False, f"`{norm(site)}` is not inside `for <name> in {vararg}`", fi, site, "safe_join append outside loop")
            continue
        it = loop.iter
        if isinstance(it, ast.Name):
            all_elems = it.id == vararg and all(d.kind == "param" for d in rd.reaching(head, vararg))
        elif isinstance(it, ast.Subscript) and astq.is_name(it.value, vararg):
            all_elems = False
        else:
            raise AnalysisError(f"safe_join: cannot interpret loop iterable `{norm(it)}`")
        ctx.ob("R14.1", "the checking loop ranges over all of *pathnames", all_elems, f"for {norm(loop.target)} in {norm(it)}", fi, loop, f"safe_join loop over {norm(it)}")
        loopdefs = [d for d in rd.gen[head.id] if d.kind == "for"]
        if len(loopdefs) != 1:
            raise AnalysisError("safe_join: loop target is not a single name")
        root = loopdefs[0]

        # (b) appended value: the loop element, possibly normalised
        w_roots, _, _ = _roots(u, arg.id, sn)
        ctx.ob("R14.1", "the appended value is the loop's component (raw or normalised)", w_roots == {root}, f"`{norm(site)}`: `{arg.id}` originates from {sorted(_ddesc(d) for d in w_roots)}", fi, site, "safe_join appended value origin")

        # (c) reject atoms inside the loop
        atoms: list[Atom] = []
        unknown: list[str] = []
        rawtests: list[str] = []
        for tn in cfg.tests():
            if tn.kind != "test" or not u.inside(tn.ast, loop):
                continue
            cands, complete = _atoms_of_test(ctx, u, tn, head)
            if cands is None:
                if any(isinstance(x, ast.Name) and _roots(u, x.id, tn)[0] == {root} for x in ast.walk(tn.ast)):
                    unknown.append(norm(tn.ast))
                continue
            if not complete:
                unknown.append(norm(tn.ast))
            for kind, consts, lab, var, text, en in cands:
                roots, norms, raw = _roots(u, var.id, en)
                if roots != {root}:
                    continue  # a test about something else
                # normalised on every path of this iteration? raw loop element may arrive only as ""
                normal = True
                if raw:
                    if raw != {root}:
                        normal = False
                    else:
                        r = cfg.reach([head], avoid_nodes=[d.node for d in norms if d.node is not None], avoid_edges=_empty_edges(u, root) + [(head, "F")])
                        normal = bool(norms) and en.id not in r
                if kind in ("eq", "in") and set(consts) == {""}:
                    continue  # emptiness test, not a reject atom
                if not normal:
                    rawtests.append(text)
                atoms.append(Atom(tn, lab, kind, consts, var, text, normal, en))
        n_atoms += len(atoms)
        none_rets = [cfg.node_of(r) for r in astq.returns_of(fn) if r.value is None or astq.is_none(r.value)]
        none_rets = [n for n in none_rets if n is not None]
        # normpath neither adds nor removes a leading '/' or a separator character, so those two shapes may be
        # tested on the raw element as well; the '..' shapes only exist after normalisation
        for what, desc, need_norm in (("abs", "starts with '/' (absolute)", False), ("dotdot", "equals '..'", True), ("dotdot/", "starts with '../'", True), ("altsep", "contains an alternative separator (Windows hosts)", False)):
            cover = [a for a in atoms if a.covers(what)]
            guarding = []
            for a in cover:
                dom = sn.id not in cfg.reach([head], avoid_edges=[(a.node, a.passlabel)])
                same = _roots(u, a.var.id, a.evalnode)[0] == w_roots
                if dom and same and (a.normal or not need_norm):
                    guarding.append(a)
            ok = bool(guarding)
            n_shapes += 1
            if not ok and unknown and not cover:
                raise AnalysisError(f"safe_join: cannot interpret test(s) {unknown} on the component; shape '{what}' undecided")
            fact = (
                f"rejected by {[a.text for a in guarding]} on {'the normalised ' if guarding[0].normal else ''}`{guarding[0].var.id}` before `{norm(site)}`" if ok else
                f"no reject test {'on the normalised component ' if need_norm else ''}covers it before `{norm(site)}`; tests on the normalised value: {[a.text for a in atoms if a.normal]}; "
                f"tests reading the un-normalised value: {rawtests}" + (f"; covering tests that do not guard the append: {[a.text for a in cover if a.normal or not need_norm]}" if [a for a in cover if a.normal or not need_norm] else "")
            )
            ctx.ob("R14.1", f"a normalised component that {desc} is never appended", ok, fact, fi, cover[0].node.ast if cover else site, f"safe_join reject {what}")
            for a in guarding:
                starts = [s for s in cfg.succ(a.node, a.reject) if s not in none_rets]
                r = cfg.reach(starts, avoid_nodes=none_rets) if starts else set()
                okr = bool(none_rets) and cfg.exit.id not in r and head.id not in r and sn.id not in r and cfg.raise_exit.id not in r
                ctx.ob("R14.1", f"the reject edge of `{a.text}` ends in `return None`", okr, "every path from the edge reaches `return None`" if okr else "a path from the reject edge continues the loop, raises or returns a path", fi, a.node.ast, f"safe_join refuse {what} {a.kind}")
    ctx.floor("R14.1", "escape-shape obligations (4 per append site)", n_shapes, 4)
    ctx.note(f"R14.1: {n_atoms} reject test(s) on the loop's component interpreted")


def _ddesc(d: Def) -> str:
    if d.kind == "param":
        return f"parameter {d.name}"
    return f"{d.kind} `{norm(d.stmt)[:60]}`" if d.stmt is not None and d.kind != "for" else f"{d.kind} {d.name}"


def _atoms_of_test(ctx: Ctx, u: Unit, tn: Node, head: Node):
    """reject-atom candidates decided by CFG test node tn (inside the loop with head `head`):
    ([(kind, consts, label on which it holds, Name, text, node in which the predicate is evaluated)] | None, complete);
    None when the shape is unknown; complete=False when only a part of the condition could be interpreted.
      * a direct predicate on a name (parse_atom);
      * a call of a module-level predicate helper `f(.., x, ..)`: summarised one level on the helper's CFG
        (helper_atoms): each predicate on the parameter that forces the helper's result gives an atom on the
        call's true / false edge;
      * a flag variable `bad = <condition over the above>` ... `if bad:` whose single definition is executed in
        every iteration before the test: the predicates that force the condition true / false (De Morgan)."""
    e = tn.ast
    if isinstance(e, ast.Name):
        defs = u.rd.reaching(tn, e.id)
        d = next(iter(defs)) if len(defs) == 1 else None
        if d is None or d.kind not in ("assign", "walrus") or d.index is not None or d.node is None or d.value is None:
            return None, True
        if tn.id in u.cfg.reach([head], avoid_nodes=[d.node]):
            return None, True  # the flag may stem from an earlier iteration
        out = []
        complete = True
        for v in (True, False):
            cands, comp = _implied(ctx, u, d.value, v, d.node)
            complete = complete and comp
            out += [(kind, consts, "T" if v else "F", var, text, at) for kind, consts, _lab, var, text, at in cands]
        return (out or None), complete
    return _leaf_atoms(ctx, u, e, tn)


def _implied(ctx: Ctx, u: Unit, e: ast.AST, v: bool, at: Node):
    """atoms A with  A holds => bool(e) == v  (each single A suffices), helper calls included."""
    if isinstance(e, ast.UnaryOp) and isinstance(e.op, ast.Not):
        return _implied(ctx, u, e.operand, not v, at)
    if isinstance(e, ast.BoolOp):
        one_suffices = isinstance(e.op, ast.Or) if v else isinstance(e.op, ast.And)
        out = []
        complete = True
        for x in e.values:
            cands, comp = _implied(ctx, u, x, v, at)
            complete = complete and comp
            out += cands
        return (out if one_suffices or len(e.values) == 1 else []), complete
    cands, complete = _leaf_atoms(ctx, u, e, at)
    if cands is None:
        return [], False
    return [c for c in cands if (c[2] == "T") == v], complete


def _leaf_atoms(ctx: Ctx, u: Unit, e: ast.AST, at: Node):
    p = parse_atom(u, e)
    if p is not None:
        return [(p[0], p[1], p[2], p[3], norm(e), at)], True
    if isinstance(e, ast.Call) and isinstance(e.func, ast.Name) and e.args and not e.keywords and not any(isinstance(a, ast.Starred) for a in e.args):
        h = u.module.functions.get(e.func.id)
        pos = [x.arg for x in h.node.args.posonlyargs + h.node.args.args] if h is not None else []
        if h is not None and u.resolve(e.func) == f"{u.module.name}.{e.func.id}" and len(e.args) <= len(pos):
            ctx.saw(h)
            hu = Unit(ctx.repo, h, h.node, h.qualname)
            out = []
            complete = True
            for i, a in enumerate(e.args):
                if not isinstance(a, ast.Name):
                    continue
                atoms, comp = helper_atoms(hu, pos[i])
                complete = complete and comp
                for v, kind, consts, text in atoms:
                    out.append((kind, consts, "T" if v else "F", a, f"{e.func.id}: {text}", at))
            return (out or None), complete
    return None, True


# =====================================================================
# R14.2 / R14.3


def _units(ctx: Ctx) -> list[Unit]:
    repo = ctx.repo
    units: list[Unit] = []
    sfd = repo.func("utils.send_from_directory")
    for need in ("path", "directory"):
        if need not in sfd.params:
            raise AnalysisError(f"send_from_directory: parameter `{need}` missing")
    units.append(_unit_of(ctx, sfd, untrusted={"path", "environ"}, refusal="raise"))
    sdm = repo.cls("middleware.shared_data.SharedDataMiddleware")
    for name, m in sorted(sdm.methods.items()):
        units.append(_unit_of(ctx, m, untrusted={"environ"} & set(m.params), refusal="none"))
        for nd in nested_defs(m.node):
            # a callable built by a factory method is later invoked with the request path: all its parameters are untrusted
            a = nd.args
            ps = [x.arg for x in a.posonlyargs + a.args + a.kwonlyargs]
            units.append(Unit(repo, m, nd, f"{m.qualname}.<{nd.name}>", untrusted=ps, refusal="none"))
    return units


def _sink_summaries(ctx: Ctx, units: list[Unit]) -> dict[str, int]:
    """one level: a method of SharedDataMiddleware whose own parameter is handed to a primitive sink is itself a
    sink in that argument (`self._opener(filename)`): method name -> positional index (self excluded)."""
    out: dict[str, int] = {}
    for u in units:
        if u.node is not u.owner.node or u.owner.cls is None:
            continue
        ps = [p for p in u.params if p != "self"]
        for c in (n for n in own_nodes(u.node) if isinstance(n, ast.Call)):
            if not _is_primitive_sink(u, c) or not c.args:
                continue
            node = u.cfg.node_of(c)
            for nm in (x for x in ast.walk(c.args[0]) if isinstance(x, ast.Name)):
                if nm.id in ps and node is not None and any(d.kind == "param" for d in u.rd.reaching(node, nm.id)):
                    out[u.owner.name] = ps.index(nm.id)
    return out


def _is_primitive_sink(u: Unit, c: ast.Call) -> bool:
    if isinstance(c.func, ast.Attribute) and c.func.attr in SINK_ATTRS:
        return True
    fq = u.resolve(c.func)
    return fq in SINK_FQ


def _is_safe_join_call(u: Unit) -> t.Callable[[ast.Call], bool]:
    return lambda c: u.resolve(c.func) == "werkzeug.security.safe_join"


def _sinks_rule(ctx: Ctx) -> None:
    units = _units(ctx)
    summ = _sink_summaries(ctx, units)
    n_sinks = n_sj = n_none = n_use = 0
    for u in units:
        is_sj = _is_safe_join_call(u)
        prov = Prov(u, is_sj, lambda c, u=u: _is_primitive_sink(u, c))
        cfg, rd = u.cfg, u.rd
        for c in sorted((n for n in own_nodes(u.node) if isinstance(n, ast.Call)), key=lambda n: (n.lineno, n.col_offset)):
            node = cfg.node_of(c)
            # ---- sinks
            arg = None
            what = None
            if _is_primitive_sink(u, c):
                arg = c.args[0] if c.args and not isinstance(c.args[0], ast.Starred) else None
                what = norm(c.func)
                if arg is None:
                    arg = astq.kwarg(c, "file") or astq.kwarg(c, "path") or astq.kwarg(c, "path_or_file")
                if arg is None:
                    raise AnalysisError(f"{u.label}: cannot find the path argument of `{norm(c)}`")
            elif isinstance(c.func, ast.Attribute) and astq.is_name(c.func.value, "self") and c.func.attr in summ and u.owner.cls is not None:
                i = summ[c.func.attr]
                if i < len(c.args) and not any(isinstance(a, ast.Starred) for a in c.args[: i + 1]):
                    arg = c.args[i]
                    what = f"self.{c.func.attr} (passes its argument to a filesystem call)"
                else:
                    raise AnalysisError(f"{u.label}: cannot find the path argument of `{norm(c)}`")
            if arg is not None:
                n_sinks += 1
                # inside a pass-through helper its own parameter is judged at the call sites
                if u.owner.name in summ and u.node is u.owner.node and isinstance(arg, ast.Name) and arg.id in u.params and node is not None and all(d.kind == "param" for d in rd.reaching(node, arg.id)):
                    ctx.ob("R14.2", f"{u.label}: {what}({norm(arg)})", True, "parameter of a pass-through helper; every call site is checked as a sink", u.owner, c, f"{u.label} sink {norm(c.func)} param")
                else:
                    ok, why = prov.safe(arg, node)
                    ctx.ob("R14.2", f"{u.label}: {what} receives only trusted configuration or a safe_join result", ok, f"`{norm(arg)}`" + (f": {why}" if why else " is built from trusted names / safe_join results"), u.owner, c, f"{u.label} sink {norm(c.func)}({norm(arg)})")
            # ---- safe_join call sites
            if is_sj(c):
                n_sj += 1
                ok, why = prov.safe(c.args[0] if c.args and not isinstance(c.args[0], ast.Starred) else None, node) if c.args else (False, "no base directory")
                ctx.ob("R14.2", f"{u.label}: safe_join's base directory is trusted", ok, f"`{norm(c)}`" + (f": {why}" if why else ""), u.owner, c, f"{u.label} safe_join base")
                n_none_, n_use_ = _none_rule(ctx, u, c)
                n_none += n_none_
                n_use += n_use_
    ctx.floor("R14.2", "filesystem sinks in send_from_directory / SharedDataMiddleware", n_sinks, 10)
    ctx.floor("R14.2", "safe_join call sites", n_sj, 1)
    ctx.floor("R14.3", "safe_join results examined for a None test", n_sj, 1)
    ctx.note(f"R14.3: {n_none} None test(s), {n_use} use(s) of safe_join results examined")
    _fallthrough_rule(ctx, units)


def _none_test(e: ast.AST, name: str) -> str | None:
    """label of the edge on which `name` is known not to be None."""
    if isinstance(e, ast.Name) and e.id == name:
        return "T"
    if isinstance(e, ast.Compare) and len(e.ops) == 1 and astq.is_none(e.comparators[0]) and (astq.is_name(e.left, name) or (isinstance(e.left, ast.NamedExpr) and e.left.target.id == name)):
        if isinstance(e.ops[0], (ast.Is, ast.Eq)):
            return "F"
        if isinstance(e.ops[0], (ast.IsNot, ast.NotEq)):
            return "T"
    return None


def _refusal_nodes(u: Unit, kind: str) -> list[Node]:
    out = []
    for n in own_nodes(u.node, through_lambdas=False):
        if kind == "raise" and isinstance(n, ast.Raise) and astq.raised_name(n) == "NotFound":
            out.append(n)
        elif kind == "none" and isinstance(n, ast.Return):
            v = n.value
            if v is None or astq.is_none(v) or (isinstance(v, ast.Tuple) and v.elts and all(astq.is_none(x) for x in v.elts)):
                out.append(n)
        elif kind == "app" and isinstance(n, ast.Return) and isinstance(n.value, ast.Call) and isinstance(n.value.func, ast.Attribute) and astq.is_self_attr(n.value.func, "app"):
            out.append(n)
    return [x for x in (u.cfg.node_of(n) for n in out) if x is not None]


def _all_paths_refuse(u: Unit, test: Node, label: str, kind: str) -> bool:
    ref = _refusal_nodes(u, kind)
    starts = [s for s in u.cfg.succ(test, label) if s not in ref]
    if not ref:
        return False
    if not starts:
        return True
    r = u.cfg.reach(starts, avoid_nodes=ref)
    return u.cfg.exit.id not in r and u.cfg.raise_exit.id not in r


def _none_rule(ctx: Ctx, u: Unit, c: ast.Call) -> tuple[int, int]:
    cfg, rd = u.cfg, u.rd
    st = astq.parent(c)
    tgt = None
    if isinstance(st, ast.Assign) and st.value is c and len(st.targets) == 1 and isinstance(st.targets[0], ast.Name):
        tgt = st.targets[0].id
    elif isinstance(st, ast.AnnAssign) and st.value is c and isinstance(st.target, ast.Name):
        tgt = st.target.id
    elif isinstance(st, ast.NamedExpr) and st.value is c:
        tgt = st.target.id
    dn = cfg.node_of(c)
    if tgt is None or dn is None:
        ctx.ob("R14.3", f"{u.label}: the safe_join result is bound to a name and tested for None", False, f"`{norm(c)}` is used directly in `{norm(st)[:80]}`", u.owner, c, f"{u.label} safe_join unbound")
        return 0, 0
    d = next((x for x in rd.gen[dn.id] if x.name == tgt), None)
    if d is None:
        raise AnalysisError(f"{u.label}: definition of `{tgt}` not found")
    tests = []
    for tn in cfg.tests():
        if tn.kind != "test":
            continue
        lab = _none_test(tn.ast, tgt)
        if lab is not None and (d in rd.reaching(tn, tgt) or (tn is dn and isinstance(st, ast.NamedExpr))):
            tests.append((tn, lab))
    ctx.ob("R14.3", f"{u.label}: the safe_join result `{tgt}` is tested for None", bool(tests), f"{[norm(tn.ast) for tn, _ in tests]}", u.owner, c, f"{u.label} safe_join none test")
    r = cfg.reach(dn, avoid_edges=tests)
    test_ids = {tn.id for tn, _ in tests}
    n_use = 0
    for nm in own_nodes(u.node):
        if not (isinstance(nm, ast.Name) and nm.id == tgt and isinstance(nm.ctx, ast.Load)) or u.lambda_param(nm):
            continue
        un = cfg.node_of(nm)
        if un is None or un.id in test_ids or d not in rd.reaching(un, tgt):
            continue
        n_use += 1
        ok = un.id not in r or un is dn
        p = None if ok else cfg.path(dn, un, avoid_edges=tests)
        ctx.ob("R14.3", f"{u.label}: `{tgt}` is used only after its `is None` test", ok, f"use in `{un.text()[:70]}`" + ("" if ok else " reachable from the safe_join call without passing the not-None edge: " + (cfg.fmt_path(p) if p else "?")), u.owner, nm, f"{u.label} use of safe_join result in {un.text()[:60]}")
    for tn, lab in tests:
        refuse = "F" if lab == "T" else "T"
        ok = _all_paths_refuse(u, tn, refuse, u.refusal)
        want = "raise NotFound" if u.refusal == "raise" else "return None / (None, None)"
        ctx.ob("R14.3", f"{u.label}: a refused path ends in {want}", ok, f"None edge of `{norm(tn.ast)}`", u.owner, tn.ast, f"{u.label} refusal edge")
    return len(tests), n_use


def _fallthrough_rule(ctx: Ctx, units: list[Unit]) -> None:
    """SharedDataMiddleware.__call__: the opener obtained from a loader may be None (refusal): it is called
    only under `is not None`, and the None edge falls through to the wrapped application."""
    u = next((x for x in units if x.owner.name == "__call__" and x.node is x.owner.node), None)
    if u is None:
        raise AnalysisError("SharedDataMiddleware.__call__ missing")
    cfg, rd = u.cfg, u.rd
    n = 0
    for c in (x for x in own_nodes(u.node) if isinstance(x, ast.Call) and isinstance(x.func, ast.Name)):
        node = cfg.node_of(c)
        if node is None:
            continue
        defs = rd.reaching(node, c.func.id)
        if not any(dd.kind == "unpack" and isinstance(dd.value, ast.Call) for dd in defs):
            continue
        nm = c.func.id
        n += 1
        guards = [(tn, lab) for tn, lab in cfg.guards(node) if tn.kind == "test" and _none_test(tn.ast, nm) == lab and rd.reaching(tn, nm) == defs]
        ctx.ob("R14.3", f"__call__: the opener `{nm}` is called only when the loader did not refuse", bool(guards), f"`{norm(c)}` guarded by {[norm(g.ast) for g, _ in guards]}", u.owner, c, "__call__ opener call guarded")
        for tn, lab in guards:
            ok = _all_paths_refuse(u, tn, "F" if lab == "T" else "T", "app")
            ctx.ob("R14.3", "__call__: a refusal falls through to the wrapped application", ok, f"None edge of `{norm(tn.ast)}`", u.owner, tn.ast, "__call__ fallthrough")
    ctx.floor("R14.3", "opener calls in __call__", n, 1)


# =====================================================================
# R14.4  secure_filename: abstract states along the returned value's definition chain


def _allowed_char(c: int) -> bool:
    """the property's output alphabet bound: ASCII, not a path separator, not whitespace."""
    return c < 128 and not chr(c).isspace() and chr(c) not in "/\\"


def _allowed_str(s: str) -> bool:
    return all(_allowed_char(ord(ch)) for ch in s)


class St(t.NamedTuple):
    """abstract value of a string expression.
    filtered: every character is in the allowed alphabet (it passed the deleting regex and nothing foreign was added)
    nodot:    it cannot start with '.'
    lost:     the operation that last made a leading '.' possible again (for the report)
    pieces:   the value is a list of substrings of such a string (str.split)"""

    filtered: bool
    nodot: bool
    lost: str
    pieces: bool = False


def _meet(states: list[St]) -> St:
    if not states:
        raise AnalysisError("secure_filename: empty merge")
    lost = next((s.lost for s in states if not s.nodot), "")
    return St(all(s.filtered for s in states), all(s.nodot for s in states), lost, any(s.pieces for s in states))


class _Filename:
    def __init__(self, ctx: Ctx, folder: Folder, fi: FuncInfo, env: dict[str, St] | None = None, depth: int = 0):
        self.ctx = ctx
        self.folder = folder
        self.fi = fi
        self.u = Unit(ctx.repo, fi, fi.node, fi.qualname)
        self.env = env or {}
        self.depth = depth
        self.subs: list[tuple[ast.Call, RegexConst, str, set[int], set[int]]] = []  # call, regex, name, matched, kept-but-not-allowed
        self.strips: list[tuple[ast.Call, str]] = []
        self.memo: dict[tuple[int, int], St] = {}
        ctx.saw(fi)

    def fail(self, e: ast.AST) -> t.NoReturn:
        raise AnalysisError(f"{self.fi.qualname}: cannot interpret `{norm(e)[:80]}` on the returned value's definition chain")

    # -- names ----------------------------------------------------------
    def name(self, e: ast.Name, node: Node | None, depth: int) -> St:
        defs = self.u.rd.reaching(node, e.id) if node is not None else frozenset()
        if not defs:
            self.fail(e)
        out = []
        for d in defs:
            if d.kind == "param":
                out.append(self.env.get(d.name, St(False, False, f"`{d.name}` is the raw input")))
            elif d.kind in ("assign", "walrus") and d.index is None and d.value is not None:
                key = (id(d), 0)
                if key not in self.memo:
                    if depth > 12:
                        self.fail(e)
                    self.memo[key] = St(False, False, "loop-carried value")  # cut cycles pessimistically, then refine once
                    self.memo[key] = self.val(d.value, d.node, depth + 1)
                out.append(self.memo[key])
            else:
                self.fail(d.stmt if d.stmt is not None else e)
        return _meet(out)

    # -- expressions ------------------------------------------------------
    def val(self, e: ast.AST, node: Node | None, depth: int = 0) -> St:
        if isinstance(e, ast.Constant) and isinstance(e.value, str):
            return St(_allowed_str(e.value), not e.value.startswith("."), f"constant {e.value!r}")
        if isinstance(e, ast.Name):
            return self.name(e, node, depth)
        if isinstance(e, ast.IfExp):
            return _meet([self.val(e.body, node, depth), self.val(e.orelse, node, depth)])
        if isinstance(e, ast.BoolOp):
            return _meet([self.val(v, node, depth) for v in e.values])
        if isinstance(e, ast.JoinedStr):
            return self.concat([v.value if isinstance(v, ast.FormattedValue) else v for v in e.values], node, depth, e)
        if isinstance(e, ast.BinOp) and isinstance(e.op, ast.Add):
            return self.concat([e.left, e.right], node, depth, e)
        if isinstance(e, ast.Subscript) and isinstance(e.slice, ast.Slice):
            x = self.val(e.value, node, depth)
            lo = e.slice.lower
            from_start = lo is None or (isinstance(lo, ast.Constant) and lo.value in (0, None))
            return St(x.filtered, x.nodot and from_start, x.lost if from_start else f"slice `{norm(e)}`" if x.nodot or not x.lost else x.lost)
        if isinstance(e, ast.Call):
            return self.call(e, node, depth)
        self.fail(e)

    def concat(self, parts: list[ast.AST], node: Node | None, depth: int, whole: ast.AST) -> St:
        sts = [self.val(p, node, depth) for p in parts]
        if any(s.pieces for s in sts):
            self.fail(whole)
        filtered = all(s.filtered for s in sts)
        nodot, lost = True, ""
        for p, s in zip(parts, sts):
            if isinstance(p, ast.Constant) and isinstance(p.value, str):
                if p.value == "":
                    continue
                nodot = not p.value.startswith(".")
                lost = "" if nodot else f"constant {p.value!r} put in front in `{norm(whole)}`"
                break
            if not s.nodot:
                nodot, lost = False, s.lost
                break
            # the part may be empty: the next part decides as well
        return St(filtered, nodot, lost)

    def call(self, e: ast.Call, node: Node | None, depth: int) -> St:
        f = e.func
        fq = self.u.resolve(f)
        if fq == "builtins.str" and len(e.args) == 1 and not e.keywords:
            return self.val(e.args[0], node, depth)
        if fq == "unicodedata.normalize" and len(e.args) == 2:
            x = self.val(e.args[1], node, depth)
            return St(x.filtered, x.nodot and x.filtered, x.lost if not x.nodot else ("" if x.filtered else f"`{norm(f)}` may rewrite the first character"))
        # one-level summary of a helper of the same module
        if isinstance(f, ast.Name) and f.id in self.fi.module.functions and fq == f"{self.fi.module.name}.{f.id}":
            h = self.fi.module.functions[f.id]
            if self.depth >= 2 or e.keywords or len(e.args) != len(h.params) or any(isinstance(a, ast.Starred) for a in e.args):
                self.fail(e)
            env = {}
            for pn, a in zip(h.params, e.args):
                try:
                    env[pn] = self.val(a, node, depth)
                except AnalysisError:
                    pass  # non-string argument: fails later only if it reaches the returned value
            sub = _Filename(self.ctx, self.folder, h, env, self.depth + 1)
            rets = [r for r in astq.returns_of(h.node) if r.value is not None]
            if not rets:
                self.fail(e)
            st = _meet([sub.val(r.value, sub.u.cfg.node_of(r)) for r in rets])
            self.subs += sub.subs
            self.strips += sub.strips
            return st
        if not isinstance(f, ast.Attribute):
            self.fail(e)
        m = f.attr
        # <regex>.sub(repl, x)
        if m == "sub" and len(e.args) >= 2 and not isinstance(f.value, ast.Constant):
            rx, rname = self.regex(f.value)
            if rx is not None:
                repl = e.args[0]
                if not (isinstance(repl, ast.Constant) and isinstance(repl.value, str)):
                    self.fail(e)
                x = self.val(e.args[1], node, depth)
                matched, _rep = single_class(rx, 0x110000)
                bad = {c for c in range(0x110000) if c not in matched and not _allowed_char(c)} if len(matched) < 0x110000 else set()
                limited = len(e.args) > 2 or bool(e.keywords)
                if not any(c is e for c, *_ in self.subs):
                    self.subs.append((e, rx, rname, matched, bad))
                clean = not bad and not limited and not (rx.flags & re.I)
                filtered = (x.filtered or clean) and _allowed_str(repl.value)
                dots_gone = ord(".") in matched and not limited
                if repl.value == "":
                    nodot = dots_gone
                    return St(filtered, nodot, "" if nodot else f"`{rname}.sub('', ...)` deletes characters and can expose a '.'")
                nodot = (dots_gone or x.nodot) and not repl.value.startswith(".")
                return St(filtered, nodot, "" if nodot else (x.lost or f"replacement {repl.value!r}"))
        x = self.val(f.value, node, depth) if not isinstance(f.value, ast.Constant) else None
        if x is not None and not x.pieces:
            if m in ("encode", "decode"):
                return St(x.filtered, x.nodot and x.filtered, x.lost if not x.nodot else ("" if x.filtered else f"`.{m}(...)` may drop characters"))
            if m in ("strip", "lstrip", "rstrip") and len(e.args) <= 1 and not e.keywords:
                s = None
                if e.args:
                    if not (isinstance(e.args[0], ast.Constant) and isinstance(e.args[0].value, str)):
                        self.fail(e)
                    s = e.args[0].value
                if m == "rstrip":
                    return x
                if s is not None and "." in s:
                    self.strips.append((e, s))
                    return St(x.filtered, True, "")
                keeps = x.nodot and x.filtered and (s is None or not any(_allowed_char(ord(ch)) for ch in s))
                return St(x.filtered, keeps, "" if keeps else (f"`.{m}({s!r})` removes leading characters but not '.'" if x.nodot else f"{x.lost}, and the following `.{m}({s!r})` does not remove '.'"))
            if m == "replace" and len(e.args) == 2:
                new = e.args[1]
                if not (isinstance(new, ast.Constant) and isinstance(new.value, str)):
                    self.fail(e)
                nodot = x.nodot and new.value != "" and not new.value.startswith(".")
                return St(x.filtered and _allowed_str(new.value), nodot, "" if nodot else (x.lost if not x.nodot else f"`{norm(e)[:60]}` can put a '.' first"))
            if m in ("lower", "upper", "casefold", "title", "capitalize", "swapcase") and not e.args:
                return x
            if m in ("split", "rsplit") and not e.keywords:
                ws = not e.args
                keeps = ws and x.nodot and x.filtered  # nothing to split off in a string without whitespace
                return St(x.filtered, keeps, "" if keeps else (x.lost if not x.nodot else f"`{norm(e)[:60]}` drops characters in front of a piece"), True)
            self.fail(e)
        if m == "join" and isinstance(f.value, ast.Constant) and isinstance(f.value.value, str) and len(e.args) == 1:
            lst = self.val(e.args[0], node, depth)
            if not lst.pieces:
                self.fail(e)
            sep = f.value.value
            return St(lst.filtered and _allowed_str(sep), lst.nodot, lst.lost)
        self.fail(e)

    def regex(self, e: ast.AST) -> tuple[RegexConst | None, str]:
        d = dotted(e)
        if d is None:
            return None, ""
        fq = self.u.resolve(e)
        if fq is None or not fq.startswith("werkzeug."):
            return None, d
        mn, _, nm = fq.rpartition(".")
        try:
            v = self.folder.name(self.ctx.repo.module(mn), nm)
        except AnalysisError:
            return None, d
        return (v, nm) if isinstance(v, RegexConst) and isinstance(v.pattern, str) else (None, d)


def _secure_filename_rule(ctx: Ctx) -> None:
    fi = ctx.repo.func("utils.secure_filename")
    an = _Filename(ctx, Folder(ctx.repo), fi)
    rets = [r for r in astq.returns_of(fi.node) if r.value is not None]
    ctx.floor("R14.4", "return statements of secure_filename", len(rets), 1)
    for i, r in enumerate(rets):
        st = an.val(r.value, an.u.cfg.node_of(r))
        if st.pieces:
            an.fail(r.value)
        tag = f"return#{i}" if len(rets) > 1 else "return"
        ctx.ob("R14.4", "the returned filename consists only of characters that passed the deleting regex (or constants of the allowed alphabet)", st.filtered,
               f"`{norm(r)}`: " + ("every definition chain passes a whole-string regex deletion with an allowed kept alphabet" if st.filtered else "some definition chain reaches the return without a whole-string regex deletion whose kept alphabet is ASCII without separators / whitespace"), fi, r, f"secure_filename {tag} filtered")
        ctx.ob("R14.4", "the returned filename cannot start with '.': a strip of a set containing '.' follows every character-deleting step", st.nodot,
               f"`{norm(r)}`: " + ("strip(<set with '.'>) is applied after the last deleting operation; later edits only prepend non-dot characters" if st.nodot else f"after the last strip of '.', {st.lost}"), fi, r, f"secure_filename {tag} leading dot")
    for c, rx, name, matched, bad in an.subs:
        sample = "".join(chr(x) for x in sorted(bad)[:8])
        ctx.ob("R14.4", f"the alphabet kept by `{name}` is ASCII without '/', '\\' and whitespace", not bad, f"pattern {rx.pattern!r} keeps {0x110000 - len(matched)} code points" + (f", not allowed: {sample!r}{'...' if len(bad) > 8 else ''} ({len(bad)})" if bad else ", all allowed"), fi, c, f"secure_filename kept alphabet {name}")
        ctx.ob("R14.4", f"`{name}` is case-sensitive (no re.IGNORECASE widening of the kept alphabet)", not (rx.flags & re.I), f"flags={rx.flags}", fi, c, f"secure_filename regex flags {name}")
    ctx.note(f"R14.4: {len(an.subs)} deleting regex substitution(s) and {len(an.strips)} strip(<set with '.'>) call(s) on the returned value's chain")


# =====================================================================


def run(ctx: Ctx) -> None:
    ctx.rule("R14.1", "safe_join: every appended component is an element of *pathnames that passed, after posixpath.normpath and on the same variable, reject tests covering 'starts with /', '== ..', 'starts with ../' (and alternative separators); reject edges return None; the result joins the trusted directory with survivors only")
    ctx.rule("R14.2", "every filesystem sink in send_from_directory / SharedDataMiddleware receives only trusted configuration or safe_join(<trusted base>, ...) results, never the raw request-derived name; a safe_join result that passes through anything but a copy, a selection or os.path.join with trusted operands after the containment check is no longer trusted")
    ctx.rule("R14.3", "every safe_join result is tested for None before any use; the None edge ends in NotFound / (None, None); SharedDataMiddleware.__call__ calls the opener only when it is not None and otherwise falls through to the wrapped app")
    ctx.rule("R14.4", "secure_filename: the returned value passed a regex deletion whose kept alphabet is ASCII without separators and whitespace, and strip(<set containing '.'>) follows every operation that can delete characters")
    _safe_join_rule(ctx)
    _sinks_rule(ctx)
    _secure_filename_rule(ctx)
