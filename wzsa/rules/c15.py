"""C15 - URLs keep their meaning between IRI, URI, environ and request (tables, codec pairing, transport classes).

Everything is read from the source: the keep-quoted tables are folded from the
module-level ``_make_unquote_part`` calls *through the body of that function*
(so the compiled pattern, its flags and its group structure are what is judged,
not the table text), safe sets are folded from the ``quote`` calls, codec names
from the two dances, and the environ readers / writers are judged by a small
flow-sensitive origin analysis (``_c15_helpers.Flow``).
"""

from __future__ import annotations

import ast
import itertools
import re
import string

from .. import astq
from ..cfg import cfg_of
from ..fold import Folder, RegexConst, Unfoldable, group_count
from ..loader import AnalysisError, FuncInfo, dotted, norm, walk_no_nested
from ..report import Ctx
from ._c15_helpers import TEXT_KEYS, Flow, Leaf, codec_kind, escapes, expand, text_class

LEVEL_TEXT = (
    "Static decision of structural clauses of C15 on /repo's current source: (R15.1) for every URL component, the "
    "pattern that uri_to_iri's partial unquoter compiles (folded through _make_unquote_part, flags included) keeps "
    "'%XX' quoted, in every hex-case spelling, for all C0 controls, SP, '%', DEL and that component's delimiters, and "
    "keeps exactly the table it was given - exhaustive over the 256 byte values; (R15.2) iri_to_uri sends every text "
    "component through quote() with '%' safe (idempotence), the structure-carrying delimiters safe, and nothing but "
    "RFC 3986 characters safe, the host through IDNA->ASCII, each into its own urlunsplit slot; the URL "
    "reconstruction quotes the terminators of each value it joins and, for the percent-decoded path values, '%' "
    "itself, and the builder's urlencode keeps & = + # % unsafe; (R15.3) uri_to_iri sends every "
    "component through an unquoter into its own slot, the partial unquoter passes kept escapes through untouched and "
    "decodes the rest as UTF-8 with invalid bytes re-quoted by the registered handler; (R15.4) the two WSGI dances are "
    "crosswise inverse compositions of UTF-8 and latin-1; (R15.5) the environ builder and the dev server store only "
    "tunnelled text in PATH_INFO / SCRIPT_NAME / QUERY_STRING and the request-side readers let none of it escape "
    "undecoded; (R15.6) DispatcherMiddleware writes back only untouched pieces of the tunnelled values it read, "
    "SCRIPT_NAME first, on every path to the mounted app. It decides these necessary clauses, not the fixpoint law "
    "over all URLs, not IDNA, and not the dispatcher's longest-mount choice / concatenation invariant."
)
TRUSTED = [
    "CPython ast and re (the folded pattern is run on constants built from the folded table only)",
    "urllib.parse.quote percent-encodes every non-safe non-unreserved character as UTF-8 and always returns ASCII; urlsplit never leaves '?', '#' in path or '#' in query",
    "RFC 3986 section 2 character repertoire and section 3 component delimiters, WHATWG percent-encode sets, embedded as constants",
    "python codec alias table rows for utf-8, latin-1, ascii; latin-1 is total and maps byte b to U+00b",
]
ASSUMPTIONS = [
    "input strings contain no lone surrogates",
    "wsgi.get_current_url, ProxyFix and other helpers outside the statement's 'recovered by the request object' are observed (notes), not judged",
]

ALWAYS = frozenset(range(0x21)) | {0x25, 0x7F}
DELIMS = {"path": "/?#", "query": "&=+#", "fragment": "", "username": ":@/?#", "password": ":@/?#"}
# delimiters that occur raw *with* delimiter meaning inside the component: quoting them changes the URL
STRUCT = {"path": "/", "query": "&=+", "fragment": "", "username": "", "password": ""}
# terminators that can occur raw in a value that was already split off (environ path / query): must be quoted
TERMINATORS = {"path": "?#", "query": "#"}
URI_LEGAL = frozenset(string.ascii_letters + string.digits + "-._~" + ":/?#[]@" + "!$&'()*+,;=" + "%")
SLOT = {"scheme": 0, "netloc": 1, "path": 2, "query": 3, "fragment": 4}
NETLOC_ATTRS = ("hostname", "port", "username", "password")

WRITERS = ["test.EnvironBuilder.get_environ", "serving.WSGIRequestHandler.make_environ"]
READERS = ["wrappers.request.Request.__init__", "routing.map.Map.bind_to_environ", "wsgi.get_path_info"]
DISPATCH = "middleware.dispatcher.DispatcherMiddleware.__call__"


# ---------------------------------------------------------------------
# small utilities


def _spellings(b: int) -> list[str]:
    hx = f"{b:02x}"
    return sorted({"%" + "".join(p) for p in itertools.product(*[(c.lower(), c.upper()) for c in hx])})


def _fold_safe(folder: Folder, fi: FuncInfo, call: ast.Call, pos: int = 1, default: str = "/") -> str:
    e = astq.arg_or_kw(call, pos, "safe")
    if e is None:
        return default
    try:
        v = folder.expr(fi.module, e)
    except Unfoldable as ex:
        raise AnalysisError(f"{fi.fq}: safe set of `{norm(call)[:60]}` is not foldable: {ex}")
    if isinstance(v, bytes):
        v = v.decode("latin-1")
    if not isinstance(v, str):
        raise AnalysisError(f"{fi.fq}: safe set of `{norm(call)[:60]}` folds to {type(v).__name__}")
    return v


def _calls_to(flow: Flow, fi: FuncInfo, fqs: set[str] | str, nested: bool = False) -> list[ast.Call]:
    fqs = {fqs} if isinstance(fqs, str) else fqs
    out = []
    for c in astq.calls(fi.node, nested=nested):
        d = dotted(c.func)
        if d and flow.resolve(d) in fqs:
            out.append(c)
    return sorted(out, key=lambda c: (c.lineno, c.col_offset))


def _show(s: str) -> str:
    return "".join(sorted(s))


class _Unquoter:
    def __init__(self, name: str, node: ast.Call, label, chars: str, rx: RegexConst):
        self.name = name
        self.node = node
        self.label = label
        self.chars = chars
        self.rx = rx
        c = re.compile(rx.pattern, rx.flags)
        self.kept_all: set[int] = set()
        self.kept_any: set[int] = set()
        self.lost: dict[int, list[str]] = {}
        for b in range(256):
            sp = _spellings(b)
            kept = [s for s in sp if c.split("-" + s + "-") == ["-", s, "-"]]
            if kept:
                self.kept_any.add(b)
            if len(kept) == len(sp):
                self.kept_all.add(b)
            else:
                self.lost[b] = [s for s in sp if s not in kept]


# ---------------------------------------------------------------------


def run(ctx: Ctx) -> None:
    repo = ctx.repo
    folder = Folder(repo)
    ctx.rule("R15.1", "per URL component, the compiled keep-quoted pattern of uri_to_iri keeps %XX (every hex-case spelling) for C0 controls, SP, '%', DEL and the component's delimiters (path /?#, query &=+#, userinfo :@/?#), and keeps exactly the folded table")
    ctx.rule("R15.2", "iri_to_uri: path, query, fragment, username, password each pass quote(safe=S) with '%' in S, the structure-carrying delimiters in S (path '/', query '&=+'), S within the RFC 3986 repertoire; hostname passes encode('idna').decode('ascii'); each lands in its own urlunsplit slot. get_current_url quotes every value it joins with that component's terminators unsafe, '%' unsafe for the percent-decoded path values and safe for the still-encoded query bytes; the builder's urlencode keeps & = + # % unsafe")
    ctx.rule("R15.3", "uri_to_iri routes each component through an unquoter (hostname through the IDNA decoder) into its own urlunsplit slot; the partial unquoter leaves kept escapes untouched, decodes the rest as UTF-8 and re-quotes invalid bytes through the registered error handler, resuming at e.end")
    ctx.rule("R15.4", "_wsgi_encoding_dance = decode(latin-1) o encode(utf-8), _wsgi_decoding_dance = decode(utf-8) o encode(latin-1): crosswise inverse, both codecs total on the other's output")
    ctx.rule("R15.5", "every value stored under PATH_INFO / SCRIPT_NAME / QUERY_STRING by EnvironBuilder.get_environ and the dev server is latin-1 tunnelled (encoding dance) or an ASCII constant; in Request.__init__, Map.bind_to_environ and get_path_info no read of these keys escapes other than decoded (decoding dance) or as raw bytes (.encode(latin-1))")
    ctx.rule("R15.6", "DispatcherMiddleware stores only untouched pieces (slices, concatenations, ASCII constants) of the tunnelled environ values, the new SCRIPT_NAME starts with the old one followed by PATH_INFO pieces, pieces peeled from the right are prepended to the remainder, and both keys are stored on every path to the mounted app")

    urls = repo.module("urls")
    mk = repo.func("urls._make_unquote_part")
    u2i = repo.func("urls.uri_to_iri")
    i2u = repo.func("urls.iri_to_uri")
    ctx.saw(mk, u2i, i2u)

    unq = _unquoters(ctx, folder, mk)
    use = _r15_3(ctx, folder, mk, u2i, unq)
    _r15_1(ctx, mk, u2i, unq, use)
    _r15_2(ctx, folder, i2u)
    _r15_2_reconstruct(ctx, folder)
    _r15_4(ctx)
    _r15_5(ctx)
    _r15_6(ctx)


# ---------------------------------------------------------------------
# the keep-quoted tables, folded through _make_unquote_part


def _partial_fn(mk: FuncInfo) -> ast.FunctionDef:
    nested = {n.name: n for n in walk_no_nested(mk.node) if isinstance(n, ast.FunctionDef)}
    for r in astq.returns_of(mk.node):
        if isinstance(r.value, ast.Name) and r.value.id in nested:
            return nested[r.value.id]
    raise AnalysisError(f"{mk.fq}: does not return a nested function (partial-unquoter slot)")


def _split_call(mk: FuncInfo, inner: ast.FunctionDef) -> tuple[ast.Call, str]:
    """``<pattern>.split(<value>)`` inside the returned closure -> (call, name of the pattern variable)."""
    params = [a.arg for a in inner.args.args]
    for c in astq.method_calls(inner, "split"):
        if isinstance(c.func.value, ast.Name) and c.args and isinstance(c.args[0], ast.Name) and c.args[0].id in params:  # type: ignore[attr-defined]
            return c, c.func.value.id  # type: ignore[attr-defined]
    raise AnalysisError(f"{mk.fq}: no `<pattern>.split(<value>)` in the returned closure (pattern slot)")


def _unquoters(ctx: Ctx, folder: Folder, mk: FuncInfo) -> dict[str, _Unquoter]:
    m = mk.module
    params = mk.params
    if len(params) < 2:
        raise AnalysisError(f"{mk.fq}: expected (name, chars) parameters")
    inner = _partial_fn(mk)
    _, pat_var = _split_call(mk, inner)
    out: dict[str, _Unquoter] = {}
    for name, vals in m.assigns.items():
        v = vals[-1]
        if not (isinstance(v, ast.Call) and dotted(v.func) and repo_resolve(ctx, m, dotted(v.func)) == mk.fq):
            continue
        if len(vals) != 1:
            raise AnalysisError(f"{m.name}.{name} is assigned {len(vals)} times")
        e_label = astq.arg_or_kw(v, 0, params[0])
        e_chars = astq.arg_or_kw(v, 1, params[1])
        if e_chars is None:
            raise AnalysisError(f"{m.name}.{name}: no chars argument")
        try:
            chars = folder.expr(m, e_chars)
            label = folder.expr(m, e_label) if e_label is not None else None
        except Unfoldable as ex:
            raise AnalysisError(f"{m.name}.{name}: keep-quoted table is not foldable: {ex}")
        if not isinstance(chars, str):
            raise AnalysisError(f"{m.name}.{name}: table folds to {type(chars).__name__}, expected str")
        env = {params[0]: label, params[1]: chars}
        for st in mk.node.body:  # type: ignore[attr-defined]
            tg = None
            if isinstance(st, ast.Assign) and len(st.targets) == 1 and isinstance(st.targets[0], ast.Name):
                tg, val = st.targets[0].id, st.value
            elif isinstance(st, ast.AnnAssign) and isinstance(st.target, ast.Name) and st.value is not None:
                tg, val = st.target.id, st.value
            if tg is None:
                continue
            try:
                env[tg] = folder.expr(m, val, env)
            except Unfoldable:
                env.pop(tg, None)
            except Exception as ex:  # e.g. re.error while folding a broken pattern
                raise AnalysisError(f"{mk.fq}: folding `{tg}` for {name} failed: {type(ex).__name__}: {ex}")
        rx = env.get(pat_var)
        if not isinstance(rx, RegexConst):
            raise AnalysisError(f"{mk.fq}: `{pat_var}` does not fold to a compiled pattern for {name}")
        try:
            out[name] = _Unquoter(name, v, label, chars, rx)
        except re.error as ex:
            raise AnalysisError(f"{mk.fq}: pattern for {name} does not compile: {ex}")
    if not out:
        raise AnalysisError(f"no module-level {mk.name}(...) tables in {m.name}")
    return out


def repo_resolve(ctx: Ctx, m, d: str) -> str | None:
    return ctx.repo.resolve(m, d)


def _r15_1(ctx: Ctx, mk: FuncInfo, u2i: FuncInfo, unq: dict[str, _Unquoter], use: dict[str, str]) -> None:
    n = 0
    for comp in ("path", "query", "fragment", "username", "password"):
        uname = use.get(comp)
        if uname is None:
            continue  # R15.3 already reported the missing route
        u = unq[uname]
        req = sorted(ALWAYS | {ord(c) for c in DELIMS[comp]})
        for b in req:
            n += 1
            ok = b in u.kept_all
            why = "delimiter of the component" if chr(b) in DELIMS[comp] else "control / SP / '%' / DEL"
            if ok:
                fact = f"{'/'.join(_spellings(b))} kept quoted by {uname} (pattern {u.rx.pattern[:40]!r}..., flags {u.rx.flags})"
            else:
                fact = f"{uname} is applied to parts.{comp} but unquotes {'/'.join(u.lost[b])} ({why}); table has it: {chr(b) in u.chars}; pattern {u.rx.pattern[:60]!r}, flags {u.rx.flags}"
            ctx.ob("R15.1", f"{comp}: %{b:02X} stays quoted", ok, fact, mk, u.node, f"{comp} keeps 0x{b:02x}")
    ctx.floor("R15.1", "(component, byte) keep-quoted instances", n, 150)
    nt = 0
    for uname, u in sorted(unq.items()):
        nt += 1
        table = {ord(c) for c in u.chars if ord(c) < 256}
        extra = sorted(u.kept_any - table)
        missing = sorted(table - u.kept_all)
        wide = [c for c in u.chars if ord(c) >= 256]
        one_group = group_count(u.rx) == 1
        ok = not extra and not missing and not wide and one_group
        ctx.ob(
            "R15.1", f"{uname}: pattern keeps exactly its table", ok,
            f"table of {len(table)} chars; escapes kept but not in the table: {[f'%{b:02X}' for b in extra][:8]}; in the table but some spelling unquoted: {[u.lost[b][0] for b in missing][:8]}; capture groups: {group_count(u.rx)}",
            mk, u.node, f"{uname} pattern = table",
        )
        if uname not in use.values():
            ctx.note(f"R15.1: {uname} is not applied by uri_to_iri (table judged against itself only)")
    ctx.floor("R15.1", "unquoter tables", nt, 4)


# ---------------------------------------------------------------------
# urlunsplit wiring shared by R15.2 / R15.3


def _split_result_attr(flow: Flow, leaf: Leaf) -> str | None:
    """``parts.X`` where ``parts`` is bound to ``urlsplit(...)`` only -> X."""
    n = leaf.node
    if leaf.kind != "attr" or not isinstance(n, ast.Attribute) or not isinstance(n.value, ast.Name):
        return None
    src = flow.leaves(n.value)
    if src and all(s.kind == "call" and s.key == "urllib.parse.urlsplit" and not s.ops for s in src):
        return n.attr
    return None


def _unsplit_slots(flow: Flow, fi: FuncInfo) -> tuple[ast.Call, list[ast.AST]]:
    cs = _calls_to(flow, fi, "urllib.parse.urlunsplit")
    if len(cs) != 1:
        raise AnalysisError(f"{fi.fq}: expected one urlunsplit call, found {len(cs)}")
    arg = cs[0].args[0] if cs[0].args else None
    if isinstance(arg, ast.Name):
        vals = [v for _, v in astq.assigns_to(fi.node, arg.id)]
        if len(vals) == 1 and isinstance(vals[0], (ast.Tuple, ast.List)):
            arg = vals[0]
    if not isinstance(arg, (ast.Tuple, ast.List)) or len(arg.elts) != 5 or any(isinstance(x, ast.Starred) for x in arg.elts):
        raise AnalysisError(f"{fi.fq}: urlunsplit argument is not a literal 5-tuple")
    return cs[0], list(arg.elts)


def _dedupe(lvs: list[Leaf]) -> list[Leaf]:
    out, seen = [], set()
    for l in lvs:
        k = (id(l.node), tuple(id(o.node) for o in l.ops))
        if k not in seen:
            seen.add(k)
            out.append(l)
    return out


def _route(ctx: Ctx, rule: str, fi: FuncInfo, flow: Flow, elts: list[ast.AST], accept, keep=None) -> dict[str, list[Leaf]]:
    """common slot discipline. ``accept(attr, leaf) -> (ok, fact)`` judges the operations applied to ``parts.attr``.
    Returns attr -> accepted leaves."""
    seen: dict[str, list[Leaf]] = {}
    fn = fi.name
    for slot_name, pos in SLOT.items():
        lvs = []
        for l0 in _dedupe(flow.leaves(elts[pos])):
            a0 = _split_result_attr(flow, l0)
            lvs += expand(flow, l0, (lambda fq, a0=a0: keep(a0, fq)) if keep is not None else None)
        lvs = _dedupe(lvs)
        allowed = {"scheme": ("scheme",), "netloc": NETLOC_ATTRS, "path": ("path",), "query": ("query",), "fragment": ("fragment",)}[slot_name]
        for l in lvs:
            attr = _split_result_attr(flow, l)
            if attr is None:
                if l.kind == "const":
                    v = getattr(l.node, "value", None)
                    okc = v is None or (isinstance(v, str) and v.isascii())
                    if not okc:
                        ctx.ob(rule, f"{fn}: {slot_name} slot constant is ASCII", False, f"constant {v!r}", fi, l.node, f"{fn} {slot_name} const {v!r}")
                    continue
                ctx.ob(rule, f"{fn}: {slot_name} slot is built from the split URL only", False, f"`{l.text()}` reaches urlunsplit slot {pos} ({slot_name})", fi, l.node, f"{fn} {slot_name} foreign {l.text()}")
                continue
            if attr not in allowed:
                ctx.ob(rule, f"{fn}: parts.{attr} lands in its own slot", False, f"parts.{attr} (as `{l.text()}`) reaches urlunsplit slot {pos} ({slot_name})", fi, l.node, f"{fn} {attr} in {slot_name} slot")
                continue
            ok, fact = accept(attr, l)
            ctx.ob(rule, f"{fn}: parts.{attr} -> {slot_name} slot", ok, fact, fi, l.node, f"{fn} route {attr}")
            if ok:
                seen.setdefault(attr, []).append(l)
    for attr in ("scheme", "hostname", "username", "password", "path", "query", "fragment"):
        if attr not in seen:
            ctx.ob(rule, f"{fn}: parts.{attr} is carried over", False, f"no accepted route from parts.{attr} to urlunsplit", fi, fi.node, f"{fn} carries {attr}")
    return seen


# ---------------------------------------------------------------------
# R15.3  uri_to_iri


def _r15_3(ctx: Ctx, folder: Folder, mk: FuncInfo, u2i: FuncInfo, unq: dict[str, _Unquoter]) -> dict[str, str]:
    flow = Flow(ctx.repo, u2i)
    _, elts = _unsplit_slots(flow, u2i)
    m = u2i.module
    use: dict[str, str] = {}
    idna_fq: list[str] = []

    def accept(attr: str, l: Leaf):
        if attr in ("scheme", "port"):
            return (not l.ops or attr == "port"), f"parts.{attr} as `{l.text()}`"
        if len(l.ops) != 1 or l.ops[0].kind != "call":
            return False, f"parts.{attr} reaches urlunsplit as `{l.text()}`: expected exactly one unquoter"
        tgt = l.ops[0].target or ""
        mn, _, nm = tgt.rpartition(".")
        if attr == "hostname":
            if mn == m.name and nm in m.functions:
                idna_fq.append(nm)
                return True, f"hostname through {nm}"
            return False, f"hostname through `{tgt}`, not a decoder function of {m.name}"
        if mn == m.name and nm in unq:
            prev = use.setdefault(attr, nm)
            if prev != nm:
                return False, f"parts.{attr} goes through both {prev} and {nm}"
            return True, f"parts.{attr} through {nm} (table {_show(unq[nm].chars)[33:]!r} + controls)"
        return False, f"parts.{attr} through `{tgt}`, which is not a {mk.name} table"

    # helpers are looked through, except the unquoter tables themselves and whatever decodes the host name
    seen = _route(ctx, "R15.3", u2i, flow, elts, accept, keep=lambda attr, fq: attr == "hostname")
    ctx.floor("R15.3", "uri_to_iri component routes", sum(len(v) for v in seen.values()), 7)

    # the IDNA decoder decodes IDNA
    for nm in sorted(set(idna_fq)):
        fi = m.functions[nm]
        ctx.saw(fi)
        decs = [c for c in astq.method_calls(fi.node, "decode") if c.args and astq.const_str(c.args[0]) == "idna"]
        ctx.ob("R15.3", f"{nm} decodes the idna codec", bool(decs), f"{len(decs)} `.decode('idna')` call(s)", fi, fi.node, f"{nm} idna")

    # the closure returned by _make_unquote_part
    inner = _partial_fn(mk)
    split_c, pat_var = _split_call(mk, inner)
    mflow = Flow(ctx.repo, mk)
    sc = mflow.scope_of(split_c)
    ms = astq.arg_or_kw(split_c, 1, "maxsplit")
    ctx.ob("R15.3", "every run of kept escapes is split off (no maxsplit)", ms is None or (isinstance(ms, ast.Constant) and ms.value == 0), f"`{norm(split_c)}`", mk, split_c, "split without maxsplit")
    unqs = [c for c in astq.calls(inner) if dotted(c.func) and mflow.resolve(dotted(c.func)) in ("urllib.parse.unquote", "urllib.parse.unquote_plus")]
    if not unqs:
        raise AnalysisError(f"{mk.fq}: no unquote() call in the closure (unquote slot)")
    # registered handlers: codecs.register_error(NAME, FN) at module level
    handlers: dict[str, str] = {}
    for st in m.tree.body:
        if isinstance(st, ast.Expr) and isinstance(st.value, ast.Call) and dotted(st.value.func) and ctx.repo.resolve(m, dotted(st.value.func)) == "codecs.register_error" and len(st.value.args) == 2:
            k = astq.const_str(st.value.args[0])
            f = dotted(st.value.args[1])
            if k and f:
                handlers[k] = f
    judged: set[str] = set()
    for uq in unqs:
        enc_e = astq.arg_or_kw(uq, 1, "encoding")
        err_e = astq.arg_or_kw(uq, 2, "errors")
        enc = astq.const_str(enc_e) if enc_e is not None else "utf-8"
        err = astq.const_str(err_e) if err_e is not None else "replace"
        arg = norm(uq.args[0]) if uq.args else "?"
        plus = mflow.resolve(dotted(uq.func)) != "urllib.parse.unquote"
        ctx.ob("R15.3", "unquoted bytes are decoded as UTF-8 (and '+' is left alone)", codec_kind(enc) == "U" and not plus, f"`{norm(uq)[:70]}`: encoding={enc!r}", mk, uq, f"unquote encoding of {arg}")
        reg = err in handlers and handlers[err] in m.functions
        ctx.ob("R15.3", "invalid bytes go to a handler registered by the module", bool(reg), f"unquote(..., errors={err!r}); registered: {sorted(handlers)}", mk, uq, f"unquote errors handler of {arg}")
        if reg and handlers[err] not in judged:
            judged.add(handlers[err])
            hf = m.functions[handlers[err]]
            ctx.saw(hf)
            ok, fact = _handler_shape(ctx, hf)
            ctx.ob("R15.3", f"{hf.name} re-quotes exactly the invalid bytes and resumes after them", ok, fact, hf, hf.node, "handler shape")

    # alternation: the for target takes the even (free) pieces and is unquoted; next() takes the odd (kept) pieces raw
    loop = None
    for n in ast.walk(inner):
        if isinstance(n, ast.For) and isinstance(n.iter, ast.Name) and isinstance(n.target, ast.Name):
            src = mflow.leaves(n.iter)
            if any(s.kind == "call" and isinstance(s.node, ast.Call) and dotted(s.node.func) == "iter" and s.node.args and any(x is split_c for x in ast.walk(s.node.args[0])) for s in src):
                loop = n
    if loop is None:
        raise AnalysisError(f"{mk.fq}: no `for piece in <iter(pattern.split(value))>` loop in the closure (alternation slot)")
    it_name = loop.iter.id  # type: ignore[attr-defined]
    icfg = sc.cfg
    head = icfg.node_of(loop)
    nexts = [c for c in astq.calls(loop) if isinstance(c.func, ast.Name) and c.func.id == "next" and c.args and astq.is_name(c.args[0], it_name)]
    # emissions: what the loop appends to the output, in order
    emitted: list[tuple[ast.AST, ast.AST]] = []
    for c in astq.calls(loop):
        if isinstance(c.func, ast.Attribute) and c.func.attr == "append" and len(c.args) == 1:
            emitted.append((c.args[0], c))
        elif isinstance(c.func, ast.Attribute) and c.func.attr == "extend" and len(c.args) == 1 and isinstance(c.args[0], (ast.List, ast.Tuple)):
            emitted += [(x, c) for x in c.args[0].elts]
    for n in ast.walk(loop):
        if isinstance(n, ast.AugAssign) and isinstance(n.op, ast.Add) and isinstance(n.value, (ast.List, ast.Tuple)):
            emitted += [(x, n) for x in n.value.elts]
        elif isinstance(n, (ast.Yield,)) and n.value is not None:
            emitted.append((n.value, n))
    if not emitted:
        raise AnalysisError(f"{mk.fq}: the loop over the split pieces emits nothing recognisable (emission slot)")
    kinds = []
    for x, at in sorted(emitted, key=lambda p: (p[0].lineno, p[0].col_offset)):  # type: ignore[attr-defined]
        lv = mflow.leaves(x)
        from_next = [l for l in lv if l.kind == "call" and l.key == "builtins.next"]
        from_loop = [l for l in lv if not (l.kind == "call" and l.key == "builtins.next") and l.kind != "const"]
        if from_next and not from_loop:
            kinds.append(("kept-raw" if not any(l.ops for l in from_next) else "kept-but-" + "+".join(o.text() for l in from_next for o in l.ops), x, at))
        elif from_loop and not from_next:
            allq = all(any(o.kind == "unquote" for o in l.ops) for l in from_loop)
            kinds.append(("free-unquoted" if allq else "free-raw", x, at))
        else:
            kinds.append(("mixed", x, at))
    names = [k for k, _, _ in kinds]
    free = [(x, at) for k, x, at in kinds if k == "free-unquoted"]
    kept = [(x, at) for k, x, at in kinds if k == "kept-raw"]
    shape_ok = sorted(names) == ["free-unquoted", "kept-raw"]
    ctx.ob("R15.3", "per iteration the loop emits one unquoted free piece and one untouched kept escape", shape_ok, f"emissions: {[(k, norm(x)[:50]) for k, x, _ in kinds]}", mk, loop, "emission kinds")
    every_iter = False
    order = False
    if shape_ok and len(nexts) == 1 and head is not None:
        nxn = icfg.node_of(nexts[0])
        body_first = [s_ for s_, l in head.succs if l == "T"]
        every_iter = nxn is not None and bool(body_first) and (body_first[0] is nxn or head.id not in icfg.reach(body_first, avoid_nodes=[nxn]))
        fn_, kn_ = icfg.node_of(free[0][1]), icfg.node_of(kept[0][1])
        if fn_ is not None and kn_ is not None:
            if fn_ is kn_:
                order = (free[0][0].lineno, free[0][0].col_offset) < (kept[0][0].lineno, kept[0][0].col_offset)  # type: ignore[attr-defined]
            else:
                order = kn_.id in icfg.reach(fn_, avoid_nodes=[head]) and fn_.id not in icfg.reach(kn_, avoid_nodes=[head])
    ctx.ob("R15.3", "the kept escape is taken with exactly one next() on every iteration and emitted after the free piece", bool(shape_ok and len(nexts) == 1 and every_iter and order),
           f"next({it_name}) calls in the loop: {len(nexts)}; on every iteration: {every_iter}; free piece emitted first: {order}", mk, nexts[0] if nexts else loop, "alternation order")
    return use


def _handler_shape(ctx: Ctx, hf: FuncInfo) -> tuple[bool, str]:
    """return (quote(e.object[e.start:e.end], ...), e.end)"""
    if not hf.params:
        return False, "no parameter"
    e = hf.params[0]
    flow = Flow(ctx.repo, hf)
    rets = astq.returns_of(hf.node)
    if not rets:
        return False, "no return"
    facts = []
    ok = True
    for r in rets:
        v = r.value
        if isinstance(v, ast.Name):
            ds = [x for _, x in astq.assigns_to(hf.node, v.id)]
            v = ds[0] if len(ds) == 1 else v
        if not (isinstance(v, ast.Tuple) and len(v.elts) == 2):
            return False, f"returns `{norm(r.value) if r.value else None}`, not a (replacement, resume position) pair"
        rep = flow.leaves(v.elts[0])
        pos = v.elts[1]
        if isinstance(pos, ast.Name):
            ds = [x for _, x in astq.assigns_to(hf.node, pos.id)]
            pos = ds[0] if len(ds) == 1 and ds[0] is not None else pos
        pos_ok = norm(pos) == f"{e}.end"
        rep_ok = bool(rep)
        for l in rep:
            n = l.node
            quoted = len(l.ops) == 1 and l.ops[0].kind == "quote"
            sl = None
            # the leaf of a slice is the sliced attribute; find the Subscript that produced it
            for x in ast.walk(l.ops[0].node.args[0]) if quoted else ():
                if isinstance(x, ast.Subscript) and isinstance(x.slice, ast.Slice):
                    sl = x
            if not quoted and l.ops and l.ops[0].kind == "quote":
                quoted = False
            exact = sl is not None and norm(sl.value) == f"{e}.object" and sl.slice.lower is not None and norm(sl.slice.lower) == f"{e}.start" and sl.slice.upper is not None and norm(sl.slice.upper) == f"{e}.end" and sl.slice.step is None
            if not exact and quoted:
                # slice taken in an earlier statement
                arg0 = l.ops[0].node.args[0]
                if isinstance(arg0, ast.Name):
                    ds = [x for _, x in astq.assigns_to(hf.node, arg0.id)]
                    if len(ds) == 1 and isinstance(ds[0], ast.Subscript) and isinstance(ds[0].slice, ast.Slice):
                        s2 = ds[0]
                        exact = norm(s2.value) == f"{e}.object" and s2.slice.lower is not None and norm(s2.slice.lower) == f"{e}.start" and s2.slice.upper is not None and norm(s2.slice.upper) == f"{e}.end"
            rep_ok = rep_ok and quoted and exact and isinstance(n, ast.Attribute)
        ok = ok and pos_ok and rep_ok
        facts.append(f"replacement {[l.text() for l in rep]} (quote of {e}.object[{e}.start:{e}.end]: {rep_ok}); resume at `{norm(pos)}` ({'ok' if pos_ok else f'expected {e}.end'})")
    return ok, "; ".join(facts)


# ---------------------------------------------------------------------
# R15.2  iri_to_uri and the other quoting tables


def _safe_obligations(ctx: Ctx, fi: FuncInfo, call: ast.Call, comp: str, S: str, tag: str, want_percent: bool | None, terminators: str) -> None:
    """want_percent: True - the value is still percent-encoded text, an existing escape must not be escaped again;
    False - the value is decoded text, a literal '%' must become %25; None - not judged."""
    fn = fi.name
    if want_percent is True:
        ctx.ob("R15.2", f"{fn}: {tag}: '%' is safe (an existing escape is not escaped again)", "%" in S, f"safe={S!r}", fi, call, f"{fn} {tag} percent safe")
    elif want_percent is False:
        ctx.ob("R15.2", f"{fn}: {tag}: the value is decoded text, so a literal '%' is escaped", "%" not in S,
               f"safe={S!r}: '%' is left raw, so a decoded path containing '%41' is emitted as the escape %41 and read back as 'A'", fi, call, f"{fn} {tag} percent unsafe")
    missing = [c for c in STRUCT.get(comp, "") if c not in S]
    ctx.ob("R15.2", f"{fn}: {tag}: structure delimiters {STRUCT.get(comp, '')!r} stay raw", not missing, f"safe={S!r}; would be escaped although they delimit inside the {comp}: {missing}", fi, call, f"{fn} {tag} structure safe")
    illegal = sorted(c for c in set(S) if c not in URI_LEGAL)
    ctx.ob("R15.2", f"{fn}: {tag}: safe set within the RFC 3986 repertoire", not illegal, f"safe={S!r}; left raw although not URI characters: {illegal}", fi, call, f"{fn} {tag} safe repertoire")
    if terminators:
        bad = [c for c in terminators if c in S]
        ctx.ob("R15.2", f"{fn}: {tag}: terminators {terminators!r} are escaped", not bad, f"safe={S!r}; a literal {bad} in the value would end the {comp}", fi, call, f"{fn} {tag} terminators unsafe")


def _r15_2(ctx: Ctx, folder: Folder, i2u: FuncInfo) -> None:
    flow = Flow(ctx.repo, i2u)
    _, elts = _unsplit_slots(flow, i2u)
    quotes: dict[int, tuple[ast.Call, str]] = {}

    def accept(attr: str, l: Leaf):
        if attr in ("scheme", "port"):
            return (not l.ops or attr == "port"), f"parts.{attr} as `{l.text()}`"
        if attr == "hostname":
            kinds = [(o.kind, codec_kind(o.codec)) for o in l.ops]
            ok = kinds == [("encode", "idna"), ("decode", "ASCII")]
            return ok, f"hostname as `{l.text()}`" + ("" if ok else ": expected encode('idna').decode('ascii')")
        if len(l.ops) != 1 or l.ops[0].kind != "quote":
            return False, f"parts.{attr} reaches urlunsplit as `{l.text()}`: expected exactly one quote()"
        quotes[id(l.ops[0].node)] = (l.ops[0].node, attr)
        return True, f"parts.{attr} through `{norm(l.ops[0].node)[:70]}`"

    seen = _route(ctx, "R15.2", i2u, flow, elts, accept)
    ctx.floor("R15.2", "iri_to_uri component routes", sum(len(v) for v in seen.values()), 7)
    for call, attr in sorted(quotes.values(), key=lambda p: p[0].lineno):
        S = _fold_safe(folder, i2u, call)
        _safe_obligations(ctx, i2u, call, attr, S, f"quote of parts.{attr}", True, "")
    ctx.floor("R15.2", "iri_to_uri quote calls", len(quotes), 3)


def _r15_2_reconstruct(ctx: Ctx, folder: Folder) -> None:
    repo = ctx.repo
    g = repo.func("sansio.utils.get_current_url")
    ctx.saw(g)
    flow = Flow(repo, g)
    comp_of = {"root_path": "path", "path": "path", "query_string": "query"}
    for p in comp_of:
        if p not in g.params:
            raise AnalysisError(f"{g.fq}: parameter {p} not found")
    qcalls = _calls_to(flow, g, {"urllib.parse.quote"})
    nq = 0
    covered: set[str] = set()
    for c in qcalls:
        src = [l for l in flow.leaves(c.args[0]) if l.kind == "param"] if c.args else []
        comps = {comp_of[l.key] for l in src if l.key in comp_of}
        names = sorted({l.key for l in src if l.key in comp_of})
        if not comps:
            continue
        nq += 1
        covered.update(names)
        S = _fold_safe(folder, g, c)
        for comp in sorted(comps):
            # root_path / path arrive percent-decoded (PEP 3333 PATH_INFO / SCRIPT_NAME); query_string is the raw, still encoded bytes
            _safe_obligations(ctx, g, c, comp, S, f"quote of {'/'.join(names)}", comp == "query", TERMINATORS[comp])
    ctx.floor("R15.2", "get_current_url quote calls", nq, 1)
    # every use of the three parameters as a value is inside a quote()
    nuse = 0
    for p in comp_of:
        for n in walk_no_nested(g.node):
            if isinstance(n, ast.Name) and n.id == p and isinstance(n.ctx, ast.Load):
                for top in escapes(flow, n):
                    nuse += 1
                    lv = [l for l in flow.leaves(top) if l.kind == "param" and l.key == p]
                    raw = [l for l in lv if not any(o.kind == "quote" for o in l.ops)]
                    ctx.ob("R15.2", f"get_current_url: {p} is quoted before it joins the URL", not raw, f"`{norm(top)[:80]}`: {[l.text() for l in lv]}", g, top, f"get_current_url {p} use {norm(top)[:60]}")
    ctx.floor("R15.2", "get_current_url parameter uses", nuse, 3)

    # EnvironBuilder's urlencode of the query mapping
    ue = repo.func("urls._urlencode")
    ctx.saw(ue)
    uflow = Flow(repo, ue)
    ucalls = _calls_to(uflow, ue, {"urllib.parse.urlencode"})
    if len(ucalls) != 1:
        raise AnalysisError(f"{ue.fq}: expected one urlencode call, found {len(ucalls)}")
    S = _fold_safe(folder, ue, ucalls[0], pos=2, default="")
    bad = [c for c in "&=+#%" if c in S]
    ctx.ob("R15.2", "_urlencode: '&', '=', '+', '#', '%' inside keys and values are escaped", not bad, f"safe={S!r}; left raw: {bad}", ue, ucalls[0], "_urlencode reserved unsafe")
    illegal = sorted(c for c in set(S) if c not in URI_LEGAL)
    ctx.ob("R15.2", "_urlencode: safe set within the RFC 3986 repertoire", not illegal, f"safe={S!r}; not URI characters: {illegal}", ue, ucalls[0], "_urlencode safe repertoire")


# ---------------------------------------------------------------------
# R15.4  the dances


def _dance_ops(ctx: Ctx, fi: FuncInfo) -> list[list]:
    flow = Flow(ctx.repo, fi)
    out = []
    rets = astq.returns_of(fi.node)
    if not rets:
        raise AnalysisError(f"{fi.fq}: no return")
    for r in rets:
        for l in flow.leaves(r.value):
            out.append((l, r))
    return out


def _r15_4(ctx: Ctx) -> None:
    repo = ctx.repo
    enc = repo.func("_internal._wsgi_encoding_dance")
    dec = repo.func("_internal._wsgi_decoding_dance")
    n = 0
    for fi, first, second, label in ((enc, "U", "L", "encoding"), (dec, "L", "U", "decoding")):
        for l, r in _dance_ops(ctx, fi):
            n += 1
            kinds = [(o.kind, codec_kind(o.codec)) for o in l.ops]
            from_param = l.kind == "param" and bool(fi.params) and l.key == fi.params[0]
            shape = kinds == [("encode", first), ("decode", second)]
            strict_first = len(l.ops) == 2 and (l.ops[0].errors in (None, "strict"))
            want = "s.encode(utf-8).decode(latin-1)" if first == "U" else "s.encode(latin-1).decode(utf-8)"
            ctx.ob("R15.4", f"{label} dance is {want}", bool(from_param and shape and strict_first), f"returns `{l.text()}`: operations {kinds}, lossless first step: {strict_first}", fi, r, f"{label} dance composition")
    ctx.floor("R15.4", "dance return values", n, 2)
    # crosswise: the same two codec names on both sides (aliases normalised)
    lv = [l for l, _ in _dance_ops(ctx, enc)] + [l for l, _ in _dance_ops(ctx, dec)]
    kinds = sorted({codec_kind(o.codec) for l in lv for o in l.ops})
    ctx.ob("R15.4", "both dances use the same pair of codecs", kinds == ["L", "U"], f"codec kinds used: {kinds}", enc, enc.node, "dance codec pair")


# ---------------------------------------------------------------------
# R15.5  writers and readers of the tunnelled keys


def _stores(flow: Flow, fi: FuncInfo) -> list[tuple[str, ast.AST, ast.AST]]:
    """(key, value expression, node) for every store under one of the text keys in fi (dict literal entry,
    subscript assignment, setdefault / keyword)."""
    out = []
    for n in walk_no_nested(fi.node):
        if isinstance(n, ast.Dict):
            for k, v in zip(n.keys, n.values):
                if k is not None and astq.const_str(k) in TEXT_KEYS:
                    out.append((astq.const_str(k), v, k))
        elif isinstance(n, (ast.Assign, ast.AnnAssign)):
            tgs = n.targets if isinstance(n, ast.Assign) else [n.target]
            for tg in tgs:
                if isinstance(tg, ast.Subscript) and astq.const_str(tg.slice) in TEXT_KEYS and n.value is not None:
                    out.append((astq.const_str(tg.slice), n.value, n))
        elif isinstance(n, ast.AugAssign) and isinstance(n.target, ast.Subscript) and astq.const_str(n.target.slice) in TEXT_KEYS:
            out.append((astq.const_str(n.target.slice), n.value, n))
        elif isinstance(n, ast.Call) and isinstance(n.func, ast.Attribute) and n.func.attr == "setdefault" and len(n.args) == 2 and astq.const_str(n.args[0]) in TEXT_KEYS:
            out.append((astq.const_str(n.args[0]), n.args[1], n))
        elif isinstance(n, ast.Call):
            for kw in n.keywords:
                if kw.arg in TEXT_KEYS:
                    out.append((kw.arg, kw.value, n))
    return sorted(out, key=lambda t_: (t_[2].lineno, t_[2].col_offset))  # type: ignore[attr-defined]


def _judge_store(flow: Flow, value: ast.AST) -> tuple[bool, str, list[Leaf]]:
    lv = [x for l in flow.leaves(value) for x in expand(flow, l)]
    bad = []
    shown = []
    for l in lv:
        cls, why = text_class(l)
        shown.append(f"{l.text()}:{cls}")
        if cls not in ("T", "A"):
            bad.append(f"`{l.text()}` is {_CLASS_WORD[cls]} [{why}]")
    if not lv:
        bad.append("no origin found")
    fact = "; ".join(dict.fromkeys(bad)) if bad else "origins " + ", ".join(dict.fromkeys(shown))
    return not bad, fact, lv


_CLASS_WORD = {"T": "tunnelled", "A": "ASCII", "B": "bytes", "D": "decoded text (not tunnelled)", "X": "text of unknown transport (no encoding dance applied)", "M": "transcoded twice / with the wrong codec"}


def _read_sites(flow: Flow, fi: FuncInfo) -> list[tuple[str, ast.AST]]:
    """reads of the text keys: direct (``environ.get("PATH_INFO")``) or through a nested helper called with the key."""
    out = []
    for n in ast.walk(fi.node):
        if isinstance(n, (ast.Subscript, ast.Call)):
            if isinstance(n, ast.Subscript) and isinstance(n.ctx, (ast.Store, ast.Del)):
                continue
            sc = flow.scope_of(n)
            er = flow.environ_read(n, sc)
            if er is not None and er[0] in TEXT_KEYS:
                out.append((er[0], n))
                continue
            if isinstance(n, ast.Call) and isinstance(n.func, ast.Name) and sc.lookup_nested(n.func.id) is not None:
                ks = [astq.const_str(a) for a in n.args if astq.const_str(a) in TEXT_KEYS]
                if ks:
                    out.append((ks[0], n))
    return sorted(out, key=lambda p: (p[1].lineno, p[1].col_offset))  # type: ignore[attr-defined]


def _r15_5(ctx: Ctx) -> None:
    repo = ctx.repo
    nw = 0
    for fq in WRITERS:
        fi = repo.func(fq)
        ctx.saw(fi)
        flow = Flow(repo, fi)
        st = _stores(flow, fi)
        keys = {k for k, _, _ in st}
        for k in TEXT_KEYS:
            if k not in keys:
                raise AnalysisError(f"{fi.fq}: no store of {k} found (writer slot)")
        for k, v, node in st:
            nw += 1
            ok, fact, _ = _judge_store(flow, v)
            ctx.ob("R15.5", f"{fi.qualname} stores tunnelled text in {k}", ok, fact, fi, node, f"{fi.qualname} writes {k}")
    ctx.floor("R15.5", "environ text stores", nw, 6)

    nr = 0
    for fq in READERS:
        fi = repo.func(fq)
        ctx.saw(fi)
        flow = Flow(repo, fi)
        sites = _read_sites(flow, fi)
        if not sites:
            raise AnalysisError(f"{fi.fq}: reads none of {TEXT_KEYS} (reader slot)")
        for k, site in sites:
            tops = escapes(flow, site)
            nr += 1
            bad = []
            shown = []
            for top in tops:
                for l in [x for l0 in flow.leaves(top) for x in expand(flow, l0)]:
                    if not (l.kind == "environ" and l.key == k):
                        continue
                    cls, why = text_class(l)
                    shown.append(f"`{norm(top)[:60]}`:{cls}")
                    if cls not in ("D", "B"):
                        bad.append(f"`{norm(top)[:70]}` lets {k} out as {_CLASS_WORD[cls]} [{why}]")
            fact = "; ".join(dict.fromkeys(bad)) if bad else ("escapes as " + ", ".join(dict.fromkeys(shown)) if shown else "value only tested")
            ctx.ob("R15.5", f"{fi.qualname} decodes {k} before use", not bad, fact, fi, site, f"{fi.qualname} reads {k}")
    ctx.floor("R15.5", "environ text reads", nr, 7)

    # observation: readers / writers outside the statement's scope
    scoped = {repo.func(f).fq for f in WRITERS + READERS + [DISPATCH]}
    for fi in repo.all_functions():
        if fi.fq in scoped or fi.module.name.endswith(".lint"):
            continue
        if not any(k in fi.module.source for k in TEXT_KEYS):
            continue
        flow = None
        for n in ast.walk(fi.node):
            if isinstance(n, ast.Constant) and n.value in TEXT_KEYS:
                flow = flow or Flow(repo, fi)
                break
        if flow is None:
            continue
        try:
            raw = []
            for k, site in _read_sites(flow, fi):
                for top in escapes(flow, site):
                    for l in flow.leaves(top):
                        if l.kind == "environ" and l.key == k and text_class(l)[0] in ("T", "M"):
                            raw.append(f"{k} via `{norm(top)[:50]}`")
            for k, v, node in _stores(flow, fi):
                ok, fact, _ = _judge_store(flow, v)
                if not ok:
                    raw.append(f"store {k}: {fact[:80]}")
            if raw:
                ctx.note(f"R15.5 observation (outside the statement's scope, not judged): {fi.fq} uses tunnelled text as is: {sorted(set(raw))[:4]}")
        except AnalysisError:
            continue


# ---------------------------------------------------------------------
# R15.6  DispatcherMiddleware


def _r15_6(ctx: Ctx) -> None:
    repo = ctx.repo
    fi = repo.func(DISPATCH)
    ctx.saw(fi)
    flow = Flow(repo, fi)
    cfg = flow.root.cfg
    st = [(k, v, n) for k, v, n in _stores(flow, fi) if k in ("SCRIPT_NAME", "PATH_INFO")]
    by_key: dict[str, list] = {}
    for k, v, n in st:
        by_key.setdefault(k, []).append((v, n))
    for k in ("SCRIPT_NAME", "PATH_INFO"):
        if k not in by_key:
            raise AnalysisError(f"{fi.fq}: no store of {k} (dispatcher slot)")
    nst = 0
    for k, v, node in st:
        nst += 1
        ok, fact, lv = _judge_store(flow, v)
        # untouched pieces: no operation at all is needed; an encode/decode round trip that nets to T is accepted by the class
        ctx.ob("R15.6", f"dispatcher writes back tunnelled {k}", ok, fact, fi, node, f"dispatcher writes {k}")
        env = [l.key for l in lv if l.kind == "environ"]
        if k == "SCRIPT_NAME":
            first_sn = env.index("SCRIPT_NAME") if "SCRIPT_NAME" in env else None
            first_pi = env.index("PATH_INFO") if "PATH_INFO" in env else None
            ok2 = first_sn is not None and first_pi is not None and first_sn < first_pi
            ctx.ob("R15.6", "new SCRIPT_NAME = old SCRIPT_NAME followed by the matched part of PATH_INFO", ok2, f"environ pieces in concatenation order: {env}", fi, node, "dispatcher SCRIPT_NAME composition")
        else:
            ok2 = "PATH_INFO" in env and "SCRIPT_NAME" not in env
            ctx.ob("R15.6", "new PATH_INFO is made of pieces of the old PATH_INFO only", ok2, f"environ pieces: {env}", fi, node, "dispatcher PATH_INFO composition")
    ctx.floor("R15.6", "dispatcher stores", nst, 2)

    # both stores happen on every path to the call that hands environ on
    env_param = next((p for p in fi.params if p not in ("self", "cls")), None)
    handoffs = [c for c in astq.calls(fi.node, nested=False) if any(astq.is_name(a, env_param) for a in c.args) and not (isinstance(c.func, ast.Attribute) and astq.is_name(c.func.value, env_param))]
    if not handoffs:
        raise AnalysisError(f"{fi.fq}: no call passing `{env_param}` on (hand-off slot)")
    for c in handoffs:
        cn = cfg.node_of(c)
        for k in ("SCRIPT_NAME", "PATH_INFO"):
            nodes = [cfg.node_of(n) for _, n in by_key[k]]
            nodes = [x for x in nodes if x is not None]
            ok = cn is not None and bool(nodes) and cn.id not in cfg.reach(avoid_nodes=nodes)
            ctx.ob("R15.6", f"{k} is stored on every path to the mounted app", ok, f"`{norm(c)}` is {'not ' if not ok else ''}dominated by the store(s) of {k}", fi, c, f"dispatcher {k} before hand-off")

    # remainder accumulation: a piece peeled from the right end is prepended
    nacc = 0
    for n in walk_no_nested(fi.node):
        if not (isinstance(n, ast.Assign) and len(n.targets) == 1 and isinstance(n.targets[0], ast.Name)):
            continue
        acc = n.targets[0].id
        val = n.value
        pieces: list[ast.AST] = []
        if isinstance(val, ast.JoinedStr):
            pieces = [v.value if isinstance(v, ast.FormattedValue) else v for v in val.values]
        elif isinstance(val, ast.BinOp) and isinstance(val.op, ast.Add):
            def flat(e):
                return flat(e.left) + flat(e.right) if isinstance(e, ast.BinOp) and isinstance(e.op, ast.Add) else [e]
            pieces = flat(val)
        selfpos = [i for i, p in enumerate(pieces) if astq.is_name(p, acc)]
        if len(selfpos) != 1:
            continue
        peeled = None  # 'right' / 'left'
        ppos = None
        for i, p in enumerate(pieces):
            if i == selfpos[0] or not isinstance(p, ast.Name):
                continue
            node = cfg.node_of(p)
            for d in (flow.root.rd.reaching(node, p.id) if node is not None else ()):
                if d.kind == "unpack" and isinstance(d.value, ast.Call) and isinstance(d.value.func, ast.Attribute):
                    m = d.value.func.attr
                    arity = len(d.target._parent.elts) if hasattr(d.target, "_parent") and isinstance(d.target._parent, (ast.Tuple, ast.List)) else 0  # type: ignore[union-attr]
                    if m in ("rsplit", "rpartition") and d.index == arity - 1:
                        peeled, ppos = "right", i
                    elif m in ("split", "partition") and d.index == 0:
                        peeled, ppos = "left", i
        if peeled is None:
            continue
        nacc += 1
        ok = (peeled == "right" and ppos < selfpos[0]) or (peeled == "left" and ppos > selfpos[0])
        ctx.ob("R15.6", "remainder keeps request order", ok, f"`{norm(n)}`: piece peeled from the {peeled} end at position {ppos}, accumulated `{acc}` at position {selfpos[0]}", fi, n, "dispatcher remainder order")
    ctx.floor("R15.6", "remainder accumulation statements", nacc, 1)
