"""C15 - URLs keep their meaning between IRI, URI, environ and request (tables, codec pairing, transport classes).

Everything is read from the source: the keep-quoted tables are folded from the
module-level ``_make_unquote_part`` calls *through the body of that function*
(so the compiled pattern, its flags and its group structure are what is judged,
not the table text), safe sets are folded from the ``quote`` calls, codec names
from the two dances, and the environ readers / writers are judged by a small
flow-sensitive origin analysis (``_c15_helpers.Flow``).

The rules are written against roles, not statement shapes: values are followed
through private helpers (nested functions, methods of the same class, module-level
functions, callables passed as arguments, lambdas) with their arguments bound, and
through tuple returns that the caller unpacks; comprehensions are read like the
append loops they replace; the walk over the split pieces of the partial unquoter
is judged by enumerating what one iteration emits (pairwise iterator walk,
``enumerate`` + parity test, ``zip`` over the two slices, slice assignment);
``rsplit(sep, 1)`` / ``rpartition`` / ``rfind`` + slicing are the same peeling.
"""

from __future__ import annotations

import ast
import itertools
import re
import string
import typing as t

from .. import astq
from ..cfg import cfg_of
from ..fold import Folder, RegexConst, Unfoldable, group_count
from ..loader import AnalysisError, FuncInfo, dotted, norm, walk_no_nested
from ..report import Ctx
from ._c15_helpers import TEXT_KEYS, CExt, CFn, CMade, CObj, Concrete, ConcreteRaise, Flow, Leaf, NotConcrete, Scope, codec_kind, escapes, expand, slice_peel, table_values, text_class

LEVEL_TEXT = (
    "Static decision of structural clauses of C15 on /repo's current source: (R15.1) for every URL component, the "
    "pattern that uri_to_iri's partial unquoter compiles (folded through _make_unquote_part, flags included) keeps "
    "'%XX' quoted, in every hex-case spelling, for all C0 controls, SP, '%', DEL and that component's delimiters, and "
    "keeps exactly the table it was given - exhaustive over the 256 byte values; (R15.2) iri_to_uri sends every text "
    "component through quote() with '%' safe (idempotence), the structure-carrying delimiters safe, and nothing but "
    "RFC 3986 characters safe, the host through IDNA->ASCII, each into its own urlunsplit slot; the URL "
    "reconstruction quotes the terminators of each value it joins and, for the percent-decoded path values, '%' "
    "itself, and the builder's urlencode keeps & = + # % unsafe; (R15.3) uri_to_iri sends every "
    "component through an unquoter into its own slot (a host step that is not the single direct call / codec pair - a "
    "conditional arm that keeps the name, a test or handler in the caller, a helper taking the split result - is decided "
    "in R15.2 / R15.3 / R15.9 by evaluating uri_to_iri / iri_to_uri as a whole from the source on URLs made of a scheme "
    "and a representative host name), the partial unquoter passes kept escapes through untouched and "
    "decodes the rest as UTF-8 with invalid bytes re-quoted by the registered handler; (R15.4) the two WSGI dances are "
    "crosswise inverse compositions of UTF-8 and latin-1; (R15.5) the environ builder and the dev server store only "
    "tunnelled text in PATH_INFO / SCRIPT_NAME / QUERY_STRING and the request-side readers let none of it escape "
    "undecoded; (R15.6) DispatcherMiddleware writes back only untouched pieces of the tunnelled values it read, "
    "SCRIPT_NAME first (segments peeled off the right end only into the remainder), on every path to the mounted app; "
    "(R15.7) sansio.utils.get_host gives back the Host value it was handed (or SERVER_NAME[:SERVER_PORT] when there is "
    "none) with nothing removed but the default port of the scheme - ':80' for http / ws, ':443' for https / wss - as "
    "an exact suffix: decided by constant propagation of about 3000 representative (scheme, host) pairs through the "
    "syntax tree of the function (assignments, branches, loops, slicing, str methods, module-level tables, `re` on "
    "constant patterns, helper functions of the package followed), the hosts being names, IPv4 and bracketed IPv6 "
    "literals - among them names whose own last characters are characters of a port text found in the module - "
    "with no port, the default ports, and ports that merely contain or end in those digits; a result that is "
    "neither the given value nor the given value without that exact suffix names a different host (violation), a "
    "statement or call whose value the inputs do not determine is an analysis error; (R15.8) the `args` property "
    "found in the MRO of wrappers.request.Request, evaluated the same way on a query string with blank values and a "
    "repeated key, hands the whole decoded query string to urllib's parse_qsl with keep_blank_values true (the "
    "builder's urlencode writes a key with an empty value as 'k='), strict_parsing false, separator '&', no field "
    "limit, UTF-8 - whether the options are written as keywords, positionally, through a spread dict, a helper or "
    "functools.partial - and gives the list parse_qsl returns, every pair in order, to the multi-dict class. "
    "(R15.9) the function of urls.py that uri_to_iri applies to parts.hostname (found by its role on the route to the "
    "netloc slot), evaluated the same way on 84 host names, undoes iri_to_uri's host step "
    "(encode('idna').decode('ascii'), R15.2) label by label wherever in the name the encoded labels stand: for names "
    "of 1 to 4 labels with every assignment of ASCII / non-ASCII labels to the positions the decoder gives back the "
    "name that was encoded (a whole-name shortcut that looks only at the start or the end of the name, a walk that "
    "stops early, a name without a dot left alone are violations), an ASCII label that starts with the ACE prefix "
    "but is not punycode stays as it is next to decoded labels, plain ASCII names / IPv4 / IPv6 literal text and "
    "already decoded names come back unchanged; python's own idna / ascii codecs are the meaning of the codec "
    "calls (bytes.decode, str(b, codec), codecs.decode, encodings.idna.ToUnicode), a step whose value the name "
    "does not determine is an analysis error, and so is a decoder that fails a clause on its own while its caller "
    "tests the name first or catches what the call raises (work shared between caller and decoder is not followed). "
    "The evaluator also follows generator functions (the yielded values as a list), `with contextlib.suppress(...)` "
    "and except clauses naming a module-level tuple of builtin exception classes. "
    "Helper functions the judged functions call are looked into (one level of extraction, arguments bound); a callable "
    "that is functools.partial(F, <constants / module-level names>) - bound at module level, to a local, or handed to a "
    "helper as its converter - is F called with those arguments. The R15.7 / R15.8 evaluator also follows match "
    "statements over plain values (literals, `|`, captures, sequences, guards) and try / except around modelled "
    "operations that raise builtin exceptions (rindex -> ValueError, d[k] -> KeyError, ...). In R15.6 a peeled segment "
    "with constant text around it (`'/' + last`) is that segment, and a piece of PATH_INFO cut at a computed position "
    "that is not understood leaves the composition of that store undecided (analysis error, not a violation); the "
    "remainder may also be computed once as what stands behind the matched prefix (`path[len(prefix):]`, the prefix a "
    "copy of that untouched environ value or what right-peeling left of it on every reaching definition). Values are "
    "followed through the containers that hold them: list / tuple / dict displays, what is put into them in place "
    "(append / extend / insert / item and slice stores / update / setdefault), str.join, %-formatting and str.format, "
    "filter / map / chain / sorted / reversed, generator functions (the yielded values), rows of a literal table a loop "
    "or comprehension variable runs over (environ keys included); bytes(s, codec) / str(b, codec) / codecs.encode / "
    "codecs.decode count as the codec steps they abbreviate; the urlunsplit argument may be a 5-sequence overwritten by "
    "constant position, parts._replace(...), SplitResult(...), or `.geturl()` on one of these; the walk of the partial "
    "unquoter may also go by index (range(len(pieces)), stride-2 in-place rewrite). A value whose origin is a call that "
    "is not looked into, a component handed to something that is not followed to urlunsplit, or an emission that "
    "cannot be classified is an analysis error, not a violation. It decides these necessary clauses, not the fixpoint law "
    "over all URLs, of IDNA only the label-position clauses of R15.9 on its representative names (not: nameprep / case mapping, label length limits, trailing dots, the IDNA 2008 / UTS 46 differences, names of more than 4 labels), and not the dispatcher's longest-mount choice / concatenation invariant. Not decided "
    "about the host: that a default port IS removed (a host that keeps ':80' names the same authority), the "
    "bracketing of an IPv6 SERVER_NAME, the trusted-hosts test. Not decided about the query mapping: the writer side "
    "(_urlencode drops only None values, iter_multi_items yields every pair) and the form-body reader's parse_qsl call "
    "are C02-R2.5's; parse_qsl's own behaviour is trusted."
)
TRUSTED = [
    "CPython ast and re (the folded pattern is run on constants built from the folded table only)",
    "urllib.parse.quote percent-encodes every non-safe non-unreserved character as UTF-8 and always returns ASCII; urlsplit never leaves '?', '#' in path or '#' in query",
    "RFC 3986 section 2 character repertoire and section 3 component delimiters, WHATWG percent-encode sets, embedded as constants",
    "python codec alias table rows for utf-8, latin-1, ascii; latin-1 is total and maps byte b to U+00b",
    "python's str / bytes / dict / tuple methods, slicing and `re` as the meaning of the same operations in the analysed source (R15.7 / R15.8 apply them to constants of the source and to the representative inputs; no werkzeug code is imported or run)",
    "urllib.parse.parse_qsl(qs, keep_blank_values, strict_parsing, encoding, errors, max_num_fields, separator): parameter order and defaults; with keep_blank_values false a pair with an empty value is dropped",
    "python's idna and ascii codecs (encodings.idna: ToASCII / ToUnicode per dot-separated label, ACE prefix 'xn--') as the meaning of encode('idna') / decode('idna') in the analysed source; R15.9 applies them to its representative host names only",
    "default ports: http / ws 80, https / wss 443 (RFC 9110 4.2, RFC 6455 3)",
]
ASSUMPTIONS = [
    "input strings contain no lone surrogates",
    "wsgi.get_current_url, ProxyFix and other helpers outside the statement's 'recovered by the request object' are observed (notes), not judged",
]

ALWAYS = frozenset(range(0x21)) | {0x25, 0x7F}
DELIMS = {"path": "/?#", "query": "&=+#", "fragment": "", "username": ":@/?#", "password": ":@/?#"}
# delimiters that occur raw *with* delimiter meaning inside the component: quoting them changes the URL
STRUCT = {"path": "/", "query": "&=+", "fragment": "", "username": "", "password": ""}
# terminators that can occur raw in a value that was already split off (environ path / query): must be quoted
TERMINATORS = {"path": "?#", "query": "#"}
URI_LEGAL = frozenset(string.ascii_letters + string.digits + "-._~" + ":/?#[]@" + "!$&'()*+,;=" + "%")
SLOT = {"scheme": 0, "netloc": 1, "path": 2, "query": 3, "fragment": 4}
NETLOC_ATTRS = ("hostname", "port", "username", "password")

WRITERS = ["test.EnvironBuilder.get_environ", "serving.WSGIRequestHandler.make_environ"]
READERS = ["wrappers.request.Request.__init__", "routing.map.Map.bind_to_environ", "wsgi.get_path_info"]
DISPATCH = "middleware.dispatcher.DispatcherMiddleware.__call__"


# ---------------------------------------------------------------------
# small utilities


def _spellings(b: int) -> list[str]:
    hx = f"{b:02x}"
    return sorted({"%" + "".join(p) for p in itertools.product(*[(c.lower(), c.upper()) for c in hx])})


def _module_of(repo, node: ast.AST, default):
    """the module whose tree contains node (a quote() call may sit in a helper of another module)."""
    cur = node
    while getattr(cur, "_parent", None) is not None:
        cur = cur._parent  # type: ignore[attr-defined]
    for m in repo.modules.values():
        if m.tree is cur:
            return m
    return default


def _fold_safe(folder: Folder, fi: FuncInfo, call: ast.Call, pos: int = 1, default: str = "/", module=None, scope: Scope | None = None) -> str:
    e = astq.arg_or_kw(call, pos, "safe")
    holder = call
    while holder is not None and not isinstance(holder, (ast.FunctionDef, ast.AsyncFunctionDef)):
        holder = getattr(holder, "_parent", None)  # the function the call is written in
    holder = holder or (scope.fn if scope is not None else fi.node)
    home = module or fi.module

    def local_value(n: ast.AST) -> ast.AST:
        """a name that is bound once in the function (or once at module level) stands for that value."""
        if isinstance(n, ast.Name):
            vals = [v for _, v in astq.assigns_to(holder, n.id)]
            if len(vals) == 1 and vals[0] is not None:
                return vals[0]
            if not vals and len(home.assigns.get(n.id, [])) == 1:
                return home.assigns[n.id][0]
        return n

    if e is None:
        # `quote(x, **options)`: the keyword may sit in a mapping that is spread into the call
        for kw in call.keywords:
            if kw.arg is not None:
                continue
            d = local_value(kw.value)
            given: dict[str, ast.AST] | None = None
            if isinstance(d, ast.Dict) and all(k is not None and astq.const_str(k) is not None for k in d.keys):
                given = {astq.const_str(k): v for k, v in zip(d.keys, d.values)}  # type: ignore[misc]
            elif isinstance(d, ast.Call) and astq.is_name(d.func, "dict") and not d.args and all(k.arg is not None for k in d.keywords):
                given = {k.arg: k.value for k in d.keywords}  # type: ignore[misc]
            if given is None:
                raise AnalysisError(f"{fi.fq}: `{norm(call)[:60]}` spreads `{norm(kw.value)[:30]}` into the call: cannot see whether it sets the safe set")
            if "safe" in given:
                e = given["safe"]
    if e is None:
        return default
    env = {}
    # locals of the function that are bound once to a foldable constant take part in the folding
    for n in ast.walk(e):
        if isinstance(n, ast.Name):
            v = local_value(n)
            if v is not n:
                try:
                    env[n.id] = folder.expr(home, v)
                except Unfoldable:
                    pass
    if scope is not None:
        # the call sits in a helper: parameters bound to foldable arguments take part in the folding
        for name, (arg, asc) in scope.bind.items():
            try:
                env[name] = folder.expr(asc.module or fi.module, arg)
            except Unfoldable:
                pass
    try:
        v = folder.expr(module or fi.module, e, env) if env else folder.expr(module or fi.module, e)
    except Unfoldable as ex:
        raise AnalysisError(f"{fi.fq}: safe set of `{norm(call)[:60]}` is not foldable: {ex}")
    if isinstance(v, bytes):
        v = v.decode("latin-1")
    if not isinstance(v, str):
        raise AnalysisError(f"{fi.fq}: safe set of `{norm(call)[:60]}` folds to {type(v).__name__}")
    return v


def _fold_text(folder: Folder, m, e: ast.AST) -> str | None:
    """a string written as a literal or as a module-level constant."""
    try:
        v = folder.expr(m, e)
    except Unfoldable:
        return None
    return v if isinstance(v, str) else None


def _calls_to(flow: Flow, fi: FuncInfo, fqs: set[str] | str, nested: bool = False) -> list[ast.Call]:
    fqs = {fqs} if isinstance(fqs, str) else fqs
    out = []
    for c in astq.calls(fi.node, nested=nested):
        d = dotted(c.func)
        if d and flow.resolve(d) in fqs:
            out.append(c)
    return sorted(out, key=lambda c: (c.lineno, c.col_offset))


def _show(s: str) -> str:
    return "".join(sorted(s))


class _Unquoter:
    def __init__(self, name: str, node: ast.Call, label, chars: str, rx: RegexConst):
        self.name = name
        self.node = node
        self.label = label
        self.chars = chars
        self.rx = rx
        c = re.compile(rx.pattern, rx.flags)
        self.kept_all: set[int] = set()
        self.kept_any: set[int] = set()
        self.lost: dict[int, list[str]] = {}
        for b in range(256):
            sp = _spellings(b)
            kept = [s for s in sp if c.split("-" + s + "-") == ["-", s, "-"]]
            if kept:
                self.kept_any.add(b)
            if len(kept) == len(sp):
                self.kept_all.add(b)
            else:
                self.lost[b] = [s for s in sp if s not in kept]


# ---------------------------------------------------------------------


def run(ctx: Ctx) -> None:
    repo = ctx.repo
    folder = Folder(repo)
    ctx.rule("R15.1", "per URL component, the compiled keep-quoted pattern of uri_to_iri keeps %XX (every hex-case spelling) for C0 controls, SP, '%', DEL and the component's delimiters (path /?#, query &=+#, userinfo :@/?#), and keeps exactly the folded table")
    ctx.rule("R15.2", "iri_to_uri: path, query, fragment, username, password each pass quote(safe=S) with '%' in S, the structure-carrying delimiters in S (path '/', query '&=+'), S within the RFC 3986 repertoire; hostname passes encode('idna').decode('ascii'); each lands in its own urlunsplit slot. get_current_url quotes every value it joins with that component's terminators unsafe, '%' unsafe for the percent-decoded path values and safe for the still-encoded query bytes; the builder's urlencode keeps & = + # % unsafe")
    ctx.rule("R15.3", "uri_to_iri routes each component through an unquoter (hostname through the IDNA decoder) into its own urlunsplit slot; the partial unquoter emits every free piece of the split unquoted and every kept escape untouched, each once and in list order on every path of its walk, decodes as UTF-8 and re-quotes invalid bytes through the registered error handler, resuming at e.end")
    ctx.rule("R15.4", "_wsgi_encoding_dance = decode(latin-1) o encode(utf-8), _wsgi_decoding_dance = decode(utf-8) o encode(latin-1): crosswise inverse, both codecs total on the other's output")
    ctx.rule("R15.5", "every value stored under PATH_INFO / SCRIPT_NAME / QUERY_STRING by EnvironBuilder.get_environ and the dev server is latin-1 tunnelled (encoding dance) or an ASCII constant; in Request.__init__, Map.bind_to_environ and get_path_info no read of these keys escapes other than decoded (decoding dance) or as raw bytes (.encode(latin-1))")
    ctx.rule("R15.6", "DispatcherMiddleware stores only untouched pieces (slices, concatenations, ASCII constants) of the tunnelled environ values, the new SCRIPT_NAME starts with the old one followed by PATH_INFO pieces, pieces peeled from the right are prepended to the remainder, and both keys are stored on every path to the mounted app")
    ctx.rule("R15.7", "get_host returns the Host value with nothing removed but the default port of the scheme (':80' for http / ws, ':443' for https / wss) as an exact suffix: evaluated by constant propagation through the function on representative (scheme, host) pairs, among them hosts whose own last characters are characters of the port text")
    ctx.rule("R15.9", "the host decoder uri_to_iri applies to parts.hostname undoes iri_to_uri's host step label by label, wherever in the name the encoded labels stand: evaluated by constant propagation through the function, decoder(h.encode('idna').decode('ascii')) == h for names h of 1 to 4 labels with every assignment of ASCII / non-ASCII labels to the positions, a label that is not valid punycode stays as it is next to decoded ones, and plain ASCII names, IPv4 / IPv6 literals and already decoded names come back unchanged")
    ctx.rule("R15.8", "Request.args hands the whole query string to parse_qsl with blank values kept (the builder's urlencode writes a key with an empty value as 'k='), non-strict, separator '&', no field limit, UTF-8, and gives the list it returns to the multi-dict class as it is")

    urls = repo.module("urls")
    mk = repo.func("urls._make_unquote_part")
    u2i = repo.func("urls.uri_to_iri")
    i2u = repo.func("urls.iri_to_uri")
    ctx.saw(mk, u2i, i2u)

    unq = _unquoters(ctx, folder, mk)
    use = _r15_3(ctx, folder, mk, u2i, unq)
    _r15_1(ctx, mk, u2i, unq, use)
    _r15_2(ctx, folder, i2u)
    _r15_2_reconstruct(ctx, folder)
    _r15_4(ctx)
    _r15_5(ctx)
    _r15_6(ctx)
    _r15_7(ctx)
    _r15_8(ctx)
    _r15_9(ctx, u2i)


# ---------------------------------------------------------------------
# the keep-quoted tables, folded through _make_unquote_part


def _partial_fn(mk: FuncInfo) -> ast.FunctionDef:
    nested = {n.name: n for n in walk_no_nested(mk.node) if isinstance(n, ast.FunctionDef)}
    for r in astq.returns_of(mk.node):
        if isinstance(r.value, ast.Name) and r.value.id in nested:
            return nested[r.value.id]
    raise AnalysisError(f"{mk.fq}: does not return a nested function (partial-unquoter slot)")


def _split_call(mk: FuncInfo, inner: ast.FunctionDef) -> tuple[ast.Call, str]:
    """``<pattern>.split(<value>)`` (or ``re.split(<pattern>, <value>)``) inside the returned closure ->
    (call, name of the pattern variable)."""
    params = [a.arg for a in inner.args.args]
    for c in astq.method_calls(inner, "split"):
        recv = c.func.value  # type: ignore[attr-defined]
        if isinstance(recv, ast.Name) and recv.id == "re" and len(c.args) >= 2 and isinstance(c.args[0], ast.Name) and isinstance(c.args[1], ast.Name) and c.args[1].id in params:
            return c, c.args[0].id
        if isinstance(recv, ast.Name) and c.args and isinstance(c.args[0], ast.Name) and c.args[0].id in params:
            return c, recv.id
    raise AnalysisError(f"{mk.fq}: no `<pattern>.split(<value>)` in the returned closure (pattern slot)")


def _maxsplit(c: ast.Call) -> ast.AST | None:
    via_re = isinstance(c.func, ast.Attribute) and astq.is_name(c.func.value, "re")
    return astq.arg_or_kw(c, 2 if via_re else 1, "maxsplit")


def _unquoters(ctx: Ctx, folder: Folder, mk: FuncInfo) -> dict[str, _Unquoter]:
    m = mk.module
    params = mk.params
    if len(params) < 2:
        raise AnalysisError(f"{mk.fq}: expected (name, chars) parameters")
    inner = _partial_fn(mk)
    _, pat_var = _split_call(mk, inner)
    out: dict[str, _Unquoter] = {}
    for name, vals in m.assigns.items():
        v = vals[-1]
        if not (isinstance(v, ast.Call) and dotted(v.func) and repo_resolve(ctx, m, dotted(v.func)) == mk.fq):
            continue
        if len(vals) != 1:
            raise AnalysisError(f"{m.name}.{name} is assigned {len(vals)} times")
        e_label = astq.arg_or_kw(v, 0, params[0])
        e_chars = astq.arg_or_kw(v, 1, params[1])
        if e_chars is None:
            raise AnalysisError(f"{m.name}.{name}: no chars argument")
        try:
            chars = folder.expr(m, e_chars)
            label = folder.expr(m, e_label) if e_label is not None else None
        except Unfoldable as ex:
            raise AnalysisError(f"{m.name}.{name}: keep-quoted table is not foldable: {ex}")
        if not isinstance(chars, str):
            raise AnalysisError(f"{m.name}.{name}: table folds to {type(chars).__name__}, expected str")
        env = {params[0]: label, params[1]: chars}
        for st in mk.node.body:  # type: ignore[attr-defined]
            tg = None
            if isinstance(st, ast.Assign) and len(st.targets) == 1 and isinstance(st.targets[0], ast.Name):
                tg, val = st.targets[0].id, st.value
            elif isinstance(st, ast.AnnAssign) and isinstance(st.target, ast.Name) and st.value is not None:
                tg, val = st.target.id, st.value
            if tg is None:
                continue
            try:
                env[tg] = folder.expr(m, val, env)
            except Unfoldable:
                try:
                    env[tg] = _fold_helper_call(folder, m, val, env)
                except Unfoldable:
                    env.pop(tg, None)
            except Exception as ex:  # e.g. re.error while folding a broken pattern
                raise AnalysisError(f"{mk.fq}: folding `{tg}` for {name} failed: {type(ex).__name__}: {ex}")
        rx = env.get(pat_var)
        if not isinstance(rx, RegexConst):
            raise AnalysisError(f"{mk.fq}: `{pat_var}` does not fold to a compiled pattern for {name}")
        try:
            out[name] = _Unquoter(name, v, label, chars, rx)
        except re.error as ex:
            raise AnalysisError(f"{mk.fq}: pattern for {name} does not compile: {ex}")
    if not out:
        raise AnalysisError(f"no module-level {mk.name}(...) tables in {m.name}")
    return out


def _fold_helper_call(folder: Folder, m, val: ast.AST, env: dict, depth: int = 0):
    """``name = _helper(args)`` where _helper is a straight-line module-level function (assignments, then one return):
    replay its body on the folded arguments."""
    if depth > 3 or not (isinstance(val, ast.Call) and isinstance(val.func, ast.Name) and val.func.id in m.functions and not any(isinstance(a, ast.Starred) for a in val.args)):
        raise Unfoldable("not a call of a module-level helper")
    fn = m.functions[val.func.id].node
    a = fn.args
    names = [x.arg for x in a.posonlyargs + a.args]
    if a.vararg or a.kwarg or len(val.args) > len(names):
        raise Unfoldable("helper signature")
    inner = {}
    for nm, arg in zip(names, val.args):
        inner[nm] = folder.expr(m, arg, env)
    for kw in val.keywords:
        if kw.arg is None:
            raise Unfoldable("helper call with **")
        inner[kw.arg] = folder.expr(m, kw.value, env)
    for p_, dflt in zip(names[len(names) - len(a.defaults):], a.defaults):
        if p_ not in inner:
            inner[p_] = folder.expr(m, dflt)
    for st in fn.body:
        if isinstance(st, ast.Expr) and isinstance(st.value, ast.Constant):
            continue  # docstring
        if isinstance(st, ast.Return) and st.value is not None:
            try:
                return folder.expr(m, st.value, inner)
            except Unfoldable:
                return _fold_helper_call(folder, m, st.value, inner, depth + 1)
        tg = None
        if isinstance(st, ast.Assign) and len(st.targets) == 1 and isinstance(st.targets[0], ast.Name):
            tg, v = st.targets[0].id, st.value
        elif isinstance(st, ast.AnnAssign) and isinstance(st.target, ast.Name) and st.value is not None:
            tg, v = st.target.id, st.value
        if tg is None:
            raise Unfoldable(f"helper {val.func.id} is not straight-line")
        try:
            inner[tg] = folder.expr(m, v, inner)
        except Unfoldable:
            inner[tg] = _fold_helper_call(folder, m, v, inner, depth + 1)
    raise Unfoldable("helper without return")


def repo_resolve(ctx: Ctx, m, d: str) -> str | None:
    return ctx.repo.resolve(m, d)


def _r15_1(ctx: Ctx, mk: FuncInfo, u2i: FuncInfo, unq: dict[str, _Unquoter], use: dict[str, str]) -> None:
    n = 0
    for comp in ("path", "query", "fragment", "username", "password"):
        uname = use.get(comp)
        if uname is None:
            continue  # R15.3 already reported the missing route
        u = unq[uname]
        req = sorted(ALWAYS | {ord(c) for c in DELIMS[comp]})
        for b in req:
            n += 1
            ok = b in u.kept_all
            why = "delimiter of the component" if chr(b) in DELIMS[comp] else "control / SP / '%' / DEL"
            if ok:
                fact = f"{'/'.join(_spellings(b))} kept quoted by {uname} (pattern {u.rx.pattern[:40]!r}..., flags {u.rx.flags})"
            else:
                fact = f"{uname} is applied to parts.{comp} but unquotes {'/'.join(u.lost[b])} ({why}); table has it: {chr(b) in u.chars}; pattern {u.rx.pattern[:60]!r}, flags {u.rx.flags}"
            ctx.ob("R15.1", f"{comp}: %{b:02X} stays quoted", ok, fact, mk, u.node, f"{comp} keeps 0x{b:02x}")
    ctx.floor("R15.1", "(component, byte) keep-quoted instances", n, 150)
    nt = 0
    for uname, u in sorted(unq.items()):
        nt += 1
        table = {ord(c) for c in u.chars if ord(c) < 256}
        extra = sorted(u.kept_any - table)
        missing = sorted(table - u.kept_all)
        wide = [c for c in u.chars if ord(c) >= 256]
        one_group = group_count(u.rx) == 1
        ok = not extra and not missing and not wide and one_group
        ctx.ob(
            "R15.1", f"{uname}: pattern keeps exactly its table", ok,
            f"table of {len(table)} chars; escapes kept but not in the table: {[f'%{b:02X}' for b in extra][:8]}; in the table but some spelling unquoted: {[u.lost[b][0] for b in missing][:8]}; capture groups: {group_count(u.rx)}",
            mk, u.node, f"{uname} pattern = table",
        )
        if uname not in use.values():
            ctx.note(f"R15.1: {uname} is not applied by uri_to_iri (table judged against itself only)")
    ctx.floor("R15.1", "unquoter tables", nt, 4)


# ---------------------------------------------------------------------
# urlunsplit wiring shared by R15.2 / R15.3


def _split_result_attr(flow: Flow, leaf: Leaf) -> str | None:
    """``parts.X`` where ``parts`` is bound to ``urlsplit(...)`` only -> X."""
    n = leaf.node
    if leaf.kind != "attr" or not isinstance(n, ast.Attribute) or not isinstance(n.value, ast.Name):
        return None
    org = flow.attr_origin.get(id(n))
    src = [org] if org is not None else flow.leaves(n.value, flow.attr_scope.get(id(n)))
    if src and all(s.kind == "call" and s.key == "urllib.parse.urlsplit" and not s.ops for s in src):
        return n.attr
    return None


def _is_split_result(flow: Flow, e: ast.AST) -> bool:
    src = flow.leaves(e)
    return bool(src) and all(x.kind == "call" and x.key == "urllib.parse.urlsplit" and not x.ops for x in src)


def _field_reads(recv: ast.AST, anchor: ast.AST) -> list[ast.AST]:
    """`recv.scheme`, ..., `recv.fragment` as expressions (the fields a split result carries over as they are)."""
    out: list[ast.AST] = []
    for name in SLOT:
        a = ast.copy_location(ast.Attribute(value=recv, attr=name, ctx=ast.Load()), anchor)
        a._parent = getattr(anchor, "_parent", None)  # type: ignore[attr-defined]
        out.append(a)
    return out


def _five(flow: Flow, fi: FuncInfo, arg: ast.AST | None, call: ast.Call, depth: int = 0) -> list[ast.AST]:
    """the five component expressions of what is handed to urlunsplit, however the 5-sequence is spelled: a literal
    tuple / list, `parts._replace(field=...)`, `SplitResult(...)`, a copy `list(parts)` / `[*parts]` of the split
    result whose positions are then overwritten by unconditional subscript / slice stores, or a local bound to one
    of these."""
    bad = AnalysisError(f"{fi.fq}: urlunsplit argument is not a literal 5-tuple")
    if arg is None or depth > 4:
        raise bad
    if isinstance(arg, ast.Name):
        vals = [(st, v) for st, v in astq.assigns_to(fi.node, arg.id)]
        if len(vals) != 1 or vals[0][1] is None:
            raise bad
        elts = _five(flow, fi, vals[0][1], call, depth + 1)
        return _apply_stores(fi, arg.id, elts, vals[0][0], call)
    if isinstance(arg, ast.Call) and isinstance(arg.func, ast.Attribute) and arg.func.attr == "_replace" and not arg.args and isinstance(arg.func.value, ast.Name):
        # the split result with some fields replaced: the other fields are carried over as they are
        recv = arg.func.value
        if _is_split_result(flow, recv) and all(k.arg in SLOT for k in arg.keywords):
            given = {k.arg: k.value for k in arg.keywords}
            return [given.get(name, dflt) for name, dflt in zip(SLOT, _field_reads(recv, arg))]
        raise bad
    if isinstance(arg, ast.Call) and dotted(arg.func) and flow.resolve(dotted(arg.func)) == "urllib.parse.SplitResult" and not any(isinstance(x, ast.Starred) for x in arg.args) and all(k.arg in SLOT for k in arg.keywords):
        given = dict(zip(SLOT, arg.args))
        given.update({k.arg: k.value for k in arg.keywords})
        if len(given) == 5:
            return [given[name] for name in SLOT]
        raise bad
    inner = None
    if isinstance(arg, ast.Call) and dotted(arg.func) and flow.resolve(dotted(arg.func)) in ("builtins.list", "builtins.tuple") and len(arg.args) == 1 and not arg.keywords:
        inner = arg.args[0]
    elif isinstance(arg, (ast.List, ast.Tuple)) and len(arg.elts) == 1 and isinstance(arg.elts[0], ast.Starred):
        inner = arg.elts[0].value
    if inner is not None:
        if isinstance(inner, ast.Name) and _is_split_result(flow, inner):
            return _field_reads(inner, arg)
        return _five(flow, fi, inner, call, depth + 1)
    if not isinstance(arg, (ast.Tuple, ast.List)) or len(arg.elts) != 5 or any(isinstance(x, ast.Starred) for x in arg.elts):
        raise bad
    return list(arg.elts)


def _apply_stores(fi: FuncInfo, name: str, elts: list[ast.AST], born: ast.AST, call: ast.Call) -> list[ast.AST]:
    """positions of the local 5-sequence `name` overwritten between its creation and the urlunsplit call; anything
    that is not an unconditional, constant-position store makes the slots undecidable (AnalysisError)."""
    elts = list(elts)
    body = list(fi.node.body)  # type: ignore[attr-defined]
    for n in walk_no_nested(fi.node):
        tgs = n.targets if isinstance(n, ast.Assign) else [n.target] if isinstance(n, (ast.AugAssign, ast.AnnAssign)) else []
        hit = [tg for tg in tgs if isinstance(tg, ast.Subscript) and astq.is_name(tg.value, name)]
        grows = isinstance(n, ast.Call) and isinstance(n.func, ast.Attribute) and astq.is_name(n.func.value, name) and n.func.attr in ("append", "extend", "insert", "pop", "remove", "clear", "reverse", "sort", "__setitem__")
        if grows or isinstance(n, ast.Delete) and any(isinstance(tg, ast.Subscript) and astq.is_name(tg.value, name) for tg in n.targets):
            raise AnalysisError(f"{fi.fq}: the sequence `{name}` handed to urlunsplit is restructured in place (`{norm(n)[:50]}`): slots undecidable")
        if not hit:
            continue
        if not isinstance(n, ast.Assign) or len(n.targets) != 1 or n not in body or not (born.lineno < n.lineno <= call.lineno):
            raise AnalysisError(f"{fi.fq}: conditional or compound store into `{name}` (`{norm(n)[:50]}`): urlunsplit slots undecidable")
        sl = hit[0].slice

        def const_int(x: ast.AST | None, default: int) -> int:
            if x is None:
                return default
            if isinstance(x, ast.UnaryOp) and isinstance(x.op, ast.USub) and isinstance(x.operand, ast.Constant) and type(x.operand.value) is int:
                return 5 - x.operand.value
            if isinstance(x, ast.Constant) and type(x.value) is int and x.value >= 0:
                return x.value
            raise AnalysisError(f"{fi.fq}: store into `{name}` at a non-constant position (`{norm(n)[:50]}`)")

        if isinstance(sl, ast.Slice):
            lo, hi = const_int(sl.lower, 0), min(const_int(sl.upper, 5), 5)
            v = n.value
            if sl.step is not None or not isinstance(v, (ast.List, ast.Tuple)) or any(isinstance(x, ast.Starred) for x in v.elts) or len(v.elts) != hi - lo:
                raise AnalysisError(f"{fi.fq}: slice store into `{name}` does not keep the five positions (`{norm(n)[:50]}`)")
            elts[lo:hi] = list(v.elts)
        else:
            i = const_int(sl, 0)
            if not 0 <= i < 5:
                raise AnalysisError(f"{fi.fq}: store into `{name}` outside the five positions (`{norm(n)[:50]}`)")
            elts[i] = n.value
    return elts


def _unsplit_slots(flow: Flow, fi: FuncInfo) -> tuple[ast.Call, list[ast.AST]]:
    cs = _calls_to(flow, fi, "urllib.parse.urlunsplit")
    if not cs:
        # `<split result>.geturl()` is urlunsplit(<split result>)
        gs = [c for c in astq.method_calls(fi.node, "geturl", nested=False) if not c.args and not c.keywords]
        if len(gs) == 1:
            return gs[0], _five(flow, fi, gs[0].func.value, gs[0])  # type: ignore[attr-defined]
    if len(cs) != 1:
        raise AnalysisError(f"{fi.fq}: expected one urlunsplit call, found {len(cs)}")
    return cs[0], _five(flow, fi, cs[0].args[0] if cs[0].args and not cs[0].keywords else None, cs[0])


def _dedupe(lvs: list[Leaf]) -> list[Leaf]:
    out, seen = [], set()
    for l in lvs:
        k = (id(l.node), tuple(id(o.node) for o in l.ops))
        if k not in seen:
            seen.add(k)
            out.append(l)
    return out


def _inside(n: ast.AST, container: ast.AST) -> bool:
    cur: ast.AST | None = n
    while cur is not None:
        if cur is container:
            return True
        cur = getattr(cur, "_parent", None)
    return False


def _route(ctx: Ctx, rule: str, fi: FuncInfo, flow: Flow, elts: list[ast.AST], accept, keep=None, sink: ast.AST | None = None) -> dict[str, list[Leaf]]:
    """common slot discipline. ``accept(attr, leaf) -> (ok, fact)`` judges the operations applied to ``parts.attr``.
    Returns attr -> accepted leaves."""
    seen: dict[str, list[Leaf]] = {}
    fn = fi.name
    _failed_routes: set[str] = set()
    for slot_name, pos in SLOT.items():
        lvs = []
        for l0 in _dedupe(flow.leaves(elts[pos])):
            a0 = _split_result_attr(flow, l0)
            lvs += expand(flow, l0, (lambda fq, a0=a0: keep(a0, fq)) if keep is not None else None)
        lvs = _dedupe(lvs)
        allowed = {"scheme": ("scheme",), "netloc": NETLOC_ATTRS, "path": ("path",), "query": ("query",), "fragment": ("fragment",)}[slot_name]
        for l in lvs:
            attr = _split_result_attr(flow, l)
            if attr is None:
                if l.kind == "const":
                    v = getattr(l.node, "value", None)
                    okc = v is None or (isinstance(v, str) and v.isascii())
                    if not okc:
                        ctx.ob(rule, f"{fn}: {slot_name} slot constant is ASCII", False, f"constant {v!r}", fi, l.node, f"{fn} {slot_name} const {v!r}")
                    continue
                if l.kind in ("call", "other"):
                    # the value of a call that is not looked into / an expression form the origin analysis does not
                    # read: where it comes from is not known - undecided, not a violation
                    raise AnalysisError(f"{fi.fq}: cannot follow `{l.text()}` (reaches urlunsplit slot {pos}, {slot_name}): origin of the value not understood")
                ctx.ob(rule, f"{fn}: {slot_name} slot is built from the split URL only", False, f"`{l.text()}` reaches urlunsplit slot {pos} ({slot_name})", fi, l.node, f"{fn} {slot_name} foreign {l.text()}")
                continue
            if attr not in allowed:
                ctx.ob(rule, f"{fn}: parts.{attr} lands in its own slot", False, f"parts.{attr} (as `{l.text()}`) reaches urlunsplit slot {pos} ({slot_name})", fi, l.node, f"{fn} {attr} in {slot_name} slot")
                continue
            ok, fact = accept(attr, l)
            ctx.ob(rule, f"{fn}: parts.{attr} -> {slot_name} slot", ok, fact, fi, l.node, f"{fn} route {attr}")
            if ok:
                seen.setdefault(attr, []).append(l)
            else:
                _failed_routes.add(f"{fn} route {attr}")
    for attr in ("scheme", "hostname", "username", "password", "path", "query", "fragment"):
        if attr not in seen:
            # dropped, or handed to something the origin analysis does not follow?  Only the first is a violation.
            reads = [n for n in walk_no_nested(fi.node) if isinstance(n, ast.Attribute) and n.attr == attr and isinstance(n.ctx, ast.Load) and isinstance(n.value, ast.Name) and _is_split_result(flow, n.value)]
            gone = [norm(top)[:60] for n in reads for top in escapes(flow, n) if sink is None or not _inside(top, sink)]
            judged = any(id(l.node) == id(n) for lv in seen.values() for l in lv for n in reads)
            if gone and not judged and not any(f"{fn} route {attr}" == o_key for o_key in _failed_routes):
                raise AnalysisError(f"{fi.fq}: parts.{attr} flows into `{gone[0]}`, which is not followed to urlunsplit: cannot decide whether it is carried over")
            ctx.ob(rule, f"{fn}: parts.{attr} is carried over", False, f"no accepted route from parts.{attr} to urlunsplit", fi, fi.node, f"{fn} carries {attr}")
    return seen


# ---------------------------------------------------------------------
# R15.3  uri_to_iri


_HOST_WHOLE: list[str] = []  # reasons why uri_to_iri's host step is judged on uri_to_iri as a whole (R15.9)
_WHOLE_CACHE: dict[tuple[int, str], dict[str, tuple[list[str], int]]] = {}
_ENCODE_EDGE_HOSTS = ["a..b", "x" * 64 + ".org", ".example"]  # ASCII names python's idna codec refuses (empty / too long label)


def _whole_host_eval(ctx: Ctx, fi: FuncInfo, stand_ins: t.Iterable[str], decode: bool) -> dict[str, tuple[list[str], int]]:
    """what `fi` (uri_to_iri / iri_to_uri) as a whole makes of a URL that consists of a scheme and a host name: the
    function is evaluated from its source with `urlsplit` answering a modelled split result (hostname = the name, no
    port, no user info, empty path / query / fragment) and `urlunsplit` handing back the five values; the unquoter
    tables (`stand_ins`, judged by R15.1 / R15.3 on their own) are identities on the empty components.  This decides
    the host step however it is spread over conditionals, helpers and handlers of the function.
    Returns group -> (names that come out wrong, as text; number of names evaluated)."""
    key = (id(ctx.repo), fi.fq)
    if key in _WHOLE_CACHE:
        return _WHOLE_CACHE[key]
    import urllib.parse as _up

    idn, bad_names = _host_families()
    try:
        enc = {h: h.encode("idna").decode("ascii") for h in idn + bad_names}
    except UnicodeError as x:
        raise AnalysisError(f"{fi.fq}: this python's idna codec does not encode a representative name: {x}")

    def py_encode(h: str):
        try:
            return h.encode("idna").decode("ascii")
        except UnicodeError:
            return _Raises

    if decode:
        groups = {"inv": [(enc[h], h) for h in idn], "kept": [(enc[h], h) for h in bad_names], "plain": [(h, h) for h in _PLAIN_HOSTS], "done": [(h, h) for h in idn]}
    else:
        groups = {"enc": [(h, enc[h]) for h in idn + bad_names], "plain": [(h, py_encode(h)) for h in _PLAIN_HOSTS + _ENCODE_EDGE_HOSTS], "done": [(enc[h], enc[h]) for h in idn]}
    m = fi.module
    fn = CFn(fi.node, m)

    def through(host: str, full: bool):
        ip = Concrete(ctx.repo)
        for fq, kind in _CODEC_WATCH.items():
            ip.watch[fq] = _codec_fn(kind)
        lit = f"[{host}]" if ":" in host else host
        if full:  # the same name between user info and a port: the host step must not depend on where the name stands
            lit = f"u:p@{lit}:8080"
        split = CObj(None, dict(scheme="http", netloc=lit, hostname=host, port=8080 if full else None, username="u" if full else None, password="p" if full else None, path="", query="", fragment=""))
        ip.watch["urllib.parse.urlsplit"] = lambda args, kw: split
        ip.watch["urllib.parse.urlunsplit"] = lambda args, kw: tuple(ip.iterate(args[0], None)) if args and not kw else _no("urlunsplit call")
        ip.watch["urllib.parse.quote"] = lambda args, kw: _up.quote(*args, **kw) if args and all(isinstance(v, str) for v in list(args) + list(kw.values())) else _no("quote of a value the host name does not determine")
        ip.watch["wzsa.identity"] = lambda args, kw: args[0] if len(args) == 1 and isinstance(args[0], str) and not kw else _no("unquoter call")
        for nm in stand_ins:
            ip._modvals[(m.name, nm)] = CExt("wzsa.identity")
        try:
            out = ip.call(fn, [f"http://{lit}"], {})
        except ConcreteRaise as x:
            return _Raises if x.what in ("UnicodeError", "UnicodeEncodeError", "UnicodeDecodeError") else f"raises {x.what}"
        if not isinstance(out, tuple) or len(out) != 5 or not isinstance(out[1], str):
            raise NotConcrete(f"the evaluated result `{out!r:.60}` is not the five values handed to urlunsplit")
        return out[1]

    res: dict[str, tuple[list[str], int]] = {}
    try:
        for g, cases in groups.items():
            wrong = []
            for host, want in cases:
                for full in (False, True):
                    got = through(host, full)
                    want_lit = want if want is _Raises else (f"[{want}]" if ":" in want else want)
                    if full and want is not _Raises:
                        want_lit = f"u:p@{want_lit}:8080"
                    if got != want_lit:
                        wrong.append(f"{fi.name} of {'http://u:p@HOST:8080' if full else 'http://HOST'} with HOST = {host!r} has the netloc {'raise UnicodeError' if got is _Raises else repr(got)}, not {'raise UnicodeError' if want is _Raises else repr(want_lit)}")
            res[g] = (wrong, 2 * len(cases))
    except NotConcrete as x:
        raise AnalysisError(f"{fi.fq}: the host step is not in the direct shape and the function cannot be evaluated as a whole from the source: {x.why}" + (f" (line {getattr(x.node, 'lineno', '?')})" if x.node is not None else ""))
    _WHOLE_CACHE[key] = res
    return res


_Raises = "<raises UnicodeError>"


def _no(what: str):
    raise NotConcrete(what)


def _whole_verdict(res: dict[str, tuple[list[str], int]]) -> tuple[bool, str]:
    wrong = [w for ws, _ in res.values() for w in ws]
    n = sum(k for _, k in res.values())
    return (not wrong), (f"{n} host names evaluated through the whole function: as required" if not wrong else f"{len(wrong)} of {n} host names evaluated through the whole function come out wrong: " + "; ".join(wrong[:2]))


_HOST_DECODERS: list[str] = []  # functions of urls.py that uri_to_iri applies to parts.hostname (found by R15.3, judged by R15.9)


def _r15_3(ctx: Ctx, folder: Folder, mk: FuncInfo, u2i: FuncInfo, unq: dict[str, _Unquoter]) -> dict[str, str]:
    flow = Flow(ctx.repo, u2i)
    sink, elts = _unsplit_slots(flow, u2i)
    m = u2i.module
    _HOST_WHOLE[:] = []
    use: dict[str, str] = {}
    idna_fq: list[str] = []

    def accept(attr: str, l: Leaf):
        if attr in ("scheme", "port"):
            return (not l.ops or attr == "port"), f"parts.{attr} as `{l.text()}`"
        if attr == "hostname":
            tgt = (l.ops[0].target or "") if len(l.ops) == 1 and l.ops[0].kind == "call" else ""
            mn, _, nm = tgt.rpartition(".")
            if tgt and mn == m.name and nm in m.functions:
                idna_fq.append(nm)
                return True, f"hostname through {nm}"
            # not the direct shape (an arm that keeps the name as it is, a decoder that was looked through, codec
            # calls in the function itself): whether every name still comes out decoded is a question about values
            ok, fact = _whole_verdict(_whole_host_eval(ctx, u2i, sorted(unq), True))
            _HOST_WHOLE.append(f"parts.hostname also reaches urlunsplit as `{l.text()}`")
            return ok, f"hostname as `{l.text()}`" + (": " if ok else ": expected exactly one unquoter (the IDNA decoder) on every path; ") + fact
        if len(l.ops) != 1 or l.ops[0].kind != "call":
            return False, f"parts.{attr} reaches urlunsplit as `{l.text()}`: expected exactly one unquoter"
        tgt = l.ops[0].target or ""
        mn, _, nm = tgt.rpartition(".")
        if mn == m.name and nm in unq:
            prev = use.setdefault(attr, nm)
            if prev != nm:
                return False, f"parts.{attr} goes through both {prev} and {nm}"
            return True, f"parts.{attr} through {nm} (table {_show(unq[nm].chars)[33:]!r} + controls)"
        return False, f"parts.{attr} through `{tgt}`, which is not a {mk.name} table"

    # helpers are looked through, except the unquoter tables themselves and whatever decodes the host name
    seen = _route(ctx, "R15.3", u2i, flow, elts, accept, keep=lambda attr, fq: attr == "hostname", sink=sink)
    ctx.floor("R15.3", "uri_to_iri component routes", sum(len(v) for v in seen.values()), 7)

    # that the IDNA decoder decodes IDNA is judged on what it computes (R15.9), not on how the codec call is spelled
    _HOST_DECODERS[:] = sorted(set(idna_fq))
    for nm in sorted(set(idna_fq)):
        ctx.saw(m.functions[nm])

    # the closure returned by _make_unquote_part
    inner = _partial_fn(mk)
    split_c, pat_var = _split_call(mk, inner)
    mflow = Flow(ctx.repo, mk)
    sc = mflow.scope_of(split_c)
    ms = _maxsplit(split_c)
    ctx.ob("R15.3", "every run of kept escapes is split off (no maxsplit)", ms is None or (isinstance(ms, ast.Constant) and ms.value == 0), f"`{norm(split_c)}`", mk, split_c, "split without maxsplit")
    unqs = [c for c in astq.calls(inner) if dotted(c.func) and mflow.resolve(dotted(c.func)) in ("urllib.parse.unquote", "urllib.parse.unquote_plus")]
    if not unqs:
        raise AnalysisError(f"{mk.fq}: no unquote() call in the closure (unquote slot)")
    # registered handlers: codecs.register_error(NAME, FN) at module level
    handlers: dict[str, str] = {}
    for st in m.tree.body:
        if isinstance(st, ast.Expr) and isinstance(st.value, ast.Call) and dotted(st.value.func) and ctx.repo.resolve(m, dotted(st.value.func)) == "codecs.register_error" and len(st.value.args) == 2:
            k = _fold_text(folder, m, st.value.args[0])
            f = dotted(st.value.args[1])
            if k and f:
                handlers[k] = f
    judged: set[str] = set()
    for uq in unqs:
        enc_e = astq.arg_or_kw(uq, 1, "encoding")
        err_e = astq.arg_or_kw(uq, 2, "errors")
        enc = _fold_text(folder, m, enc_e) if enc_e is not None else "utf-8"
        err = _fold_text(folder, m, err_e) if err_e is not None else "replace"
        arg = norm(uq.args[0]) if uq.args else "?"
        plus = mflow.resolve(dotted(uq.func)) != "urllib.parse.unquote"
        ctx.ob("R15.3", "unquoted bytes are decoded as UTF-8 (and '+' is left alone)", codec_kind(enc) == "U" and not plus, f"`{norm(uq)[:70]}`: encoding={enc!r}", mk, uq, f"unquote encoding of {arg}")
        reg = err in handlers and handlers[err] in m.functions
        ctx.ob("R15.3", "invalid bytes go to a handler registered by the module", bool(reg), f"unquote(..., errors={err!r}); registered: {sorted(handlers)}", mk, uq, f"unquote errors handler of {arg}")
        if reg and handlers[err] not in judged:
            judged.add(handlers[err])
            hf = m.functions[handlers[err]]
            ctx.saw(hf)
            ok, fact = _handler_shape(ctx, hf)
            ctx.ob("R15.3", f"{hf.name} re-quotes exactly the invalid bytes and resumes after them", ok, fact, hf, hf.node, "handler shape")

    _alternation(ctx, mk, mflow, sc, inner, split_c)
    return use


# ---------------------------------------------------------------------
# the alternation of free and kept pieces in the partial unquoter
#
# ``pattern.split(value)`` with one capture group is [free, kept, free, ..., free]: even positions are free text,
# odd positions are runs of kept escapes.  However the walk over that list is written, every even piece has to be
# emitted unquoted, every odd piece untouched, in list order.  Recognised walks: an iterator consumed pairwise
# (``for a in it: ... next(it, "")``), ``enumerate`` with a test on the index parity (loop or comprehension),
# ``zip`` / ``zip_longest`` over the ``[::2]`` / ``[1::2]`` slices, and assignment to the ``[::2]`` slice.


class _Unknown(Exception):
    pass


_INT_BIN = {
    ast.Mod: lambda a, b: a % b, ast.BitAnd: lambda a, b: a & b, ast.Add: lambda a, b: a + b, ast.Sub: lambda a, b: a - b,
    ast.Mult: lambda a, b: a * b, ast.FloorDiv: lambda a, b: a // b, ast.BitOr: lambda a, b: a | b, ast.BitXor: lambda a, b: a ^ b,
}
_INT_CMP = {
    ast.Eq: lambda a, b: a == b, ast.NotEq: lambda a, b: a != b, ast.Lt: lambda a, b: a < b, ast.LtE: lambda a, b: a <= b,
    ast.Gt: lambda a, b: a > b, ast.GtE: lambda a, b: a >= b, ast.Is: lambda a, b: a == b, ast.IsNot: lambda a, b: a != b,
}


class _Bound:
    """a binding made on the iteration path that is being enumerated, with its value already classified."""

    def __init__(self, d, alts: list[tuple]):
        self.d = d
        self.alts = alts
        self.stmt = d.stmt
        self.kind = "bound"
        self.node = d.node


class _Walk:
    def __init__(self, mflow: Flow, sc: Scope, inner: ast.AST, split_c: ast.Call):
        self.flow = mflow
        self.sc = sc
        self.inner = inner
        self.split_c = split_c
        self.comp_env: dict[str, tuple] = {}
        self.loop_env: dict[int, dict[str, tuple]] = {}
        self.index_names: set[str] = set()
        self.parity: int | None = None
        self.no_default: list[ast.AST] = []
        self.path_env: dict[str, t.Any] | None = None
        self.body_ids: set[int] = set()

    # -- what an expression denotes ---------------------------------------
    def _single_def(self, e: ast.Name):
        node = self.sc.cfg.node_of(e)
        ds = self.sc.rd.reaching(node, e.id) if node is not None else frozenset()
        return next(iter(ds)) if len(ds) == 1 else None

    def _fq(self, call: ast.Call) -> str | None:
        d = dotted(call.func)
        return self.flow.resolve(d, self.sc) if d else None

    def is_split(self, e: ast.AST, depth: int = 0) -> bool:
        if e is self.split_c:
            return True
        if depth > 4:
            return False
        if isinstance(e, ast.Call) and self._fq(e) in ("builtins.list", "builtins.tuple") and len(e.args) == 1 and not e.keywords:
            return self.is_split(e.args[0], depth + 1)
        if isinstance(e, ast.Name) and e.id not in self.comp_env:
            d = self._single_def(e)
            return d is not None and d.kind == "assign" and d.index is None and d.value is not None and self.is_split(d.value, depth + 1)
        return False

    def stream(self, e: ast.AST, depth: int = 0) -> tuple | None:
        """('all',) the split list | ('par', p, padded) its [p::2] slice | ('iter', name) an iterator over it |
        ('enum', stream, start) | ('zip', streams, longest, fill)."""
        if depth > 4:
            return None
        if self.is_split(e):
            return ("all",)
        if isinstance(e, ast.Subscript) and isinstance(e.slice, ast.Slice) and self.is_split(e.value):
            sl = e.slice
            step = sl.step.value if isinstance(sl.step, ast.Constant) else None
            lo = 0 if sl.lower is None else (sl.lower.value if isinstance(sl.lower, ast.Constant) else None)
            if step == 2 and sl.upper is None and lo in (0, 1):
                return ("par", lo, False)
            return None
        if isinstance(e, ast.BinOp) and isinstance(e.op, ast.Add) and isinstance(e.right, (ast.List, ast.Tuple)) and len(e.right.elts) == 1 and astq.const_str(e.right.elts[0]) == "":
            st = self.stream(e.left, depth + 1)
            return ("par", st[1], True) if st is not None and st[0] == "par" else None
        if isinstance(e, ast.Call):
            fq = self._fq(e)
            if any(isinstance(a, ast.Starred) for a in e.args):
                return None
            if fq == "builtins.enumerate" and e.args:
                start = astq.arg_or_kw(e, 1, "start")
                if start is not None and not (isinstance(start, ast.Constant) and isinstance(start.value, int)):
                    return None
                sub = self.stream(e.args[0], depth + 1)
                return ("enum", sub, start.value if start is not None else 0) if sub is not None else None
            if fq in ("builtins.zip", "itertools.zip_longest") and len(e.args) >= 2:
                subs = tuple(self.stream(a, depth + 1) for a in e.args)
                if any(x is None for x in subs):
                    return None
                fill = astq.kwarg(e, "fillvalue")
                return ("zip", subs, fq != "builtins.zip", astq.const_str(fill) if fill is not None else None)
            if fq == "builtins.iter" and len(e.args) == 1 and self.is_split(e.args[0]):
                return ("iter", None)
            if fq == "builtins.range" and 1 <= len(e.args) <= 3 and not e.keywords:
                # positions of the split list: range(len(S)) / range(a, len(S)) / range(a, len(S), step)
                stop = e.args[0] if len(e.args) == 1 else e.args[1]
                consts = [a for i, a in enumerate(e.args) if not (a is stop)]
                if isinstance(stop, ast.Call) and self._fq(stop) == "builtins.len" and len(stop.args) == 1 and self.is_split(stop.args[0]) and all(isinstance(a, ast.Constant) and type(a.value) is int for a in consts):
                    start = e.args[0].value if len(e.args) >= 2 else 0  # type: ignore[attr-defined]
                    step = e.args[2].value if len(e.args) == 3 else 1  # type: ignore[attr-defined]
                    if start >= 0 and step in (1, 2):
                        return ("range", start, step)
                return None
            if fq in ("builtins.list", "builtins.tuple") and len(e.args) == 1:
                return self.stream(e.args[0], depth + 1)
            return None
        if isinstance(e, ast.Name) and e.id not in self.comp_env:
            d = self._single_def(e)
            if d is not None and d.kind == "assign" and d.index is None and d.value is not None:
                st = self.stream(d.value, depth + 1)
                if st is not None and st[0] == "iter":
                    return ("iter", e.id)
                return st
        return None

    def bind(self, target: ast.AST, st: tuple, env: dict[str, tuple]) -> bool:
        """element descriptors for the loop / comprehension targets; False when the shape is not modelled."""
        if st[0] == "all" and isinstance(target, ast.Name):
            env[target.id] = ("piece", None)
            return True
        if st[0] == "par" and isinstance(target, ast.Name):
            env[target.id] = ("piece", st[1])
            return True
        if st[0] == "iter" and isinstance(target, ast.Name):
            env[target.id] = ("piece", 0)  # provided exactly one next() per iteration: judged with the paths
            return True
        if st[0] == "enum" and isinstance(target, (ast.Tuple, ast.List)) and len(target.elts) == 2 and isinstance(target.elts[0], ast.Name):
            env[target.elts[0].id] = ("index",)
            self.index_names.add(target.elts[0].id)
            sub = st[1]
            if sub[0] == "all" and isinstance(target.elts[1], ast.Name):
                env[target.elts[1].id] = ("piece", "index", st[2])
                return True
            return False
        if st[0] == "range" and isinstance(target, ast.Name):
            env[target.id] = ("index",)  # the pieces are read as S[index]
            self.index_names.add(target.id)
            return True
        if st[0] == "zip" and isinstance(target, (ast.Tuple, ast.List)) and len(target.elts) == len(st[1]):
            return all(self.bind(tg, sub, env) for tg, sub in zip(target.elts, st[1]))
        return False

    # -- integer / truth evaluation under a parity of the index ------------
    def _int(self, e: ast.AST, k: int, depth: int = 0):
        if depth > 8:
            raise _Unknown
        if isinstance(e, ast.Constant) and isinstance(e.value, (int, bool)) and e.value is not None:
            return e.value
        if isinstance(e, ast.Name):
            if e.id in self.index_names:
                return k
            if e.id in self.comp_env:
                raise _Unknown
            d = self._single_def(e)
            if d is not None and d.kind in ("assign", "walrus") and d.index is None and d.value is not None:
                return self._int(d.value, k, depth + 1)
            raise _Unknown
        if isinstance(e, ast.NamedExpr):
            return self._int(e.value, k, depth + 1)
        if isinstance(e, ast.BinOp) and type(e.op) in _INT_BIN:
            try:
                return _INT_BIN[type(e.op)](self._int(e.left, k, depth + 1), self._int(e.right, k, depth + 1))
            except (ZeroDivisionError, TypeError):
                raise _Unknown
        if isinstance(e, ast.UnaryOp) and isinstance(e.op, ast.Not):
            return not self._int(e.operand, k, depth + 1)
        if isinstance(e, ast.UnaryOp) and isinstance(e.op, ast.USub):
            return -self._int(e.operand, k, depth + 1)
        if isinstance(e, ast.BoolOp):
            vals = [bool(self._int(v, k, depth + 1)) for v in e.values]
            return all(vals) if isinstance(e.op, ast.And) else any(vals)
        if isinstance(e, ast.Compare):
            left = self._int(e.left, k, depth + 1)
            for op, c in zip(e.ops, e.comparators):
                if type(op) not in _INT_CMP:
                    raise _Unknown
                right = self._int(c, k, depth + 1)
                if not _INT_CMP[type(op)](left, right):
                    return False
                left = right
            return True
        if isinstance(e, ast.Call) and self._fq(e) in ("builtins.bool", "builtins.int") and len(e.args) == 1:
            return self._int(e.args[0], k, depth + 1)
        raise _Unknown

    def truth(self, e: ast.AST) -> bool | None:
        if self.parity is None:
            return None
        try:
            vals = {bool(self._int(e, self.parity + 2 * j)) for j in (0, 1, 2, 7, 50)}
        except _Unknown:
            return None
        return vals.pop() if len(vals) == 1 else None

    # -- what is emitted ---------------------------------------------------
    def classify(self, x: ast.AST, depth: int = 0) -> list[tuple]:
        """alternatives (descriptor, ops): descriptor ('piece', parity) | ('const', v) | ('other', text)."""
        if depth > 8:
            return [(("other", norm(x)[:40]), ())]
        if isinstance(x, ast.Constant):
            return [(("const", x.value), ())]
        if isinstance(x, ast.IfExp):
            v = self.truth(x.test)
            out = []
            if v is not False:
                out += self.classify(x.body, depth + 1)
            if v is not True:
                out += self.classify(x.orelse, depth + 1)
            return out
        if isinstance(x, ast.NamedExpr):
            return self.classify(x.value, depth + 1)
        if isinstance(x, ast.Name):
            if x.id in self.comp_env:
                return [(self._resolved(self.comp_env[x.id]), ())]
            node = self.sc.cfg.node_of(x)
            ds = self.sc.rd.reaching(node, x.id) if node is not None else frozenset()
            if self.path_env is not None:
                # on an enumerated iteration path: the binding made earlier on this very path wins; bindings made
                # elsewhere in the loop body (other branch, earlier iteration) do not apply
                if x.id in self.path_env:
                    ds = frozenset([self.path_env[x.id]])
                else:
                    ds = frozenset(d for d in ds if d.kind == "for" or d.node is None or d.node.id not in self.body_ids)
            out = []
            for d in sorted(ds, key=lambda d: getattr(d.stmt, "lineno", 0)):
                if isinstance(d, _Bound):
                    out += d.alts
                    continue
                if d.kind == "for" and id(d.stmt) in self.loop_env and x.id in self.loop_env[id(d.stmt)]:
                    out.append((self._resolved(self.loop_env[id(d.stmt)][x.id]), ()))
                elif d.kind in ("assign", "walrus") and d.index is None and d.value is not None:
                    out += self.classify(d.value, depth + 1)
                else:
                    out.append((("other", f"{x.id} bound by {d.kind}"), ()))
            return out or [(("other", x.id), ())]
        if isinstance(x, ast.Subscript) and not isinstance(x.slice, ast.Slice) and self.is_split(x.value) and self.parity is not None:
            # the piece at the walk's own position (read through the index variable or a plain alias of it)
            i = x.slice
            hops = 0
            while isinstance(i, ast.Name) and i.id not in self.index_names and hops < 3:
                d = self._single_def(i)
                if d is None or d.kind not in ("assign", "walrus") or d.index is not None or not isinstance(d.value, ast.Name):
                    break
                i, hops = d.value, hops + 1
            if isinstance(i, ast.Name) and i.id in self.index_names:
                return [(("piece", self.parity % 2), ())]
        if isinstance(x, ast.Call):
            fq = self._fq(x)
            if fq in ("urllib.parse.unquote", "urllib.parse.unquote_plus") and x.args:
                return [(dsc, ops + ("unquote",)) for dsc, ops in self.classify(x.args[0], depth + 1)]
            if fq == "builtins.next" and x.args and isinstance(x.args[0], ast.Name):
                st = self.stream(x.args[0])
                if st is not None and st[0] == "iter":
                    dflt = x.args[1] if len(x.args) > 1 else None
                    if dflt is None or astq.const_str(dflt) != "":
                        self.no_default.append(x)
                    return [(("piece", 1), ())]
        return [(("other", norm(x)[:40]), ())]

    def _resolved(self, dsc: tuple) -> tuple:
        if dsc[:2] == ("piece", "index"):
            return ("piece", (self.parity - dsc[2]) % 2 if self.parity is not None else None)
        return dsc

    @staticmethod
    def kind(dsc: tuple, ops: tuple) -> str:
        if dsc[0] == "piece" and dsc[1] in (0, 1):
            who = "free" if dsc[1] == 0 else "kept"
            if not ops:
                return f"{who}-raw"
            if ops == ("unquote",):
                return f"{who}-unquoted"
            return f"{who}-but-" + "+".join(ops)
        if dsc[0] == "const":
            return "const-empty" if dsc[1] == "" else f"const {dsc[1]!r}"
        if dsc[0] == "piece":
            return "piece-of-unknown-position" + ("-unquoted" if ops else "")
        return f"other `{dsc[1]}`"

    # -- emission sites ----------------------------------------------------
    @staticmethod
    def emits_of(a: ast.AST) -> list[ast.AST]:
        out: list[ast.AST] = []
        for n in [a, *walk_no_nested(a)]:
            if isinstance(n, ast.Call) and isinstance(n.func, ast.Attribute) and len(n.args) == 1 and not n.keywords:
                if n.func.attr in ("append", "write", "add"):
                    out.append(n.args[0])
                elif n.func.attr == "extend" and isinstance(n.args[0], (ast.List, ast.Tuple)):
                    out += list(n.args[0].elts)
            elif isinstance(n, ast.AugAssign) and isinstance(n.op, ast.Add):
                if isinstance(n.value, (ast.List, ast.Tuple)):
                    out += list(n.value.elts)
                elif isinstance(n.target, ast.Name):
                    out.append(n.value)  # text accumulated with +=
            elif isinstance(n, ast.Yield) and n.value is not None:
                out.append(n.value)
        flat: list[ast.AST] = []
        for x in sorted(out, key=lambda x: (x.lineno, x.col_offset)):  # type: ignore[attr-defined]
            flat += _concat_parts(x)
        return flat

    def nexts_of(self, a: ast.AST, it_name: str | None) -> int:
        return sum(1 for n in [a, *walk_no_nested(a)] if isinstance(n, ast.Call) and self._fq(n) == "builtins.next" and n.args and astq.is_name(n.args[0], it_name))

    def loop_paths(self, loop: ast.For) -> tuple[list[list], list[list], bool]:
        """(paths through one iteration, paths leaving the loop, inner cycle seen); a path is a list of CFG nodes."""
        cfg = self.sc.cfg
        head = cfg.node_of(loop)
        inside = {id(x) for st in loop.body for x in ast.walk(st)}
        done: list[list] = []
        left: list[list] = []
        cyc = [False]
        if head is None:
            return done, left, True
        stack = [(s_, [], frozenset()) for s_, l in head.succs if l == "T"]
        steps = 0
        while stack:
            n, path, seen = stack.pop()
            steps += 1
            if steps > 4000:
                raise AnalysisError("partial unquoter: loop body too branchy to enumerate")
            if n is head:
                done.append(path)
                continue
            if n is cfg.exit or n is cfg.raise_exit or (n.ast is not None and id(n.ast) not in inside):
                left.append(path)
                continue
            if n.id in seen:
                cyc[0] = True
                continue
            seen2 = seen | {n.id}
            if n.kind == "test":
                v = self.truth(n.ast)
                labels = ["T", "F"] if v is None else (["T"] if v else ["F"])
                for lab in labels:
                    for s_ in cfg.succ(n, lab):
                        stack.append((s_, path + [n], seen2))
                continue
            if n.kind == "loop":
                cyc[0] = True
            for s_, l in n.succs:
                if l != "exc":
                    stack.append((s_, path + [n], seen2))
        return done, left, cyc[0]


def _concat_parts(x: ast.AST) -> list[ast.AST]:
    """`a + b` / f"{a}{b}" emit a then b."""
    if isinstance(x, ast.BinOp) and isinstance(x.op, ast.Add):
        return _concat_parts(x.left) + _concat_parts(x.right)
    if isinstance(x, ast.JoinedStr):
        out: list[ast.AST] = []
        for v in x.values:
            if isinstance(v, ast.FormattedValue):
                if v.conversion != -1 or v.format_spec is not None:
                    return [x]
                out += _concat_parts(v.value)
            else:
                out.append(v)
        return out
    return [x]


def _alternation(ctx: Ctx, mk: FuncInfo, mflow: Flow, sc: Scope, inner: ast.AST, split_c: ast.Call) -> None:
    w = _Walk(mflow, sc, inner, split_c)
    # every judged walk yields, per position parity (or per iteration for pairwise walks), the sequences of emissions
    runs: list[tuple[str, list[str], bool, str]] = []  # (label, emitted kinds in order, complete, remark)
    anchor: ast.AST | None = None
    recognised = 0
    unknown: list[str] = []

    def expected(st: tuple, parity: int | None) -> list[str]:
        if st[0] == "enum":
            return ["free-unquoted"] if (parity - st[2]) % 2 == 0 else ["kept-raw"]
        if st[0] == "range":
            return ["free-unquoted"] if parity % 2 == 0 else ["kept-raw"]
        return ["free-unquoted", "kept-raw"]

    def parities(st: tuple) -> list[int | None]:
        if st[0] == "range":
            return [0, 1] if st[2] == 1 else [st[1] % 2]
        return [0, 1] if st[0] == "enum" else [None]

    def complete_stream(st: tuple) -> str:
        """'' when the walk visits every piece of the list, else why not."""
        if st[0] in ("iter", "enum"):
            return ""
        if st[0] == "range":
            return "" if st[1] == 0 and st[2] == 1 else f"range({st[1]}, len, {st[2]}) does not visit every piece"
        if st[0] == "zip":
            pars = [x[1] if x[0] == "par" else None for x in st[1]]
            if pars != [0, 1]:
                return f"zip over {pars}, expected the [::2] and [1::2] slices in that order"
            if st[2]:
                return "" if st[3] == "" else f"zip_longest fills the missing last kept escape with {st[3]!r}, not ''"
            return "" if st[1][1][2] else "zip stops with the shorter slice: the last free piece is dropped"
        return "walk does not tell free from kept pieces"

    for n in sorted([x for x in ast.walk(inner) if isinstance(x, (ast.For, ast.ListComp, ast.GeneratorExp, ast.SetComp, ast.Assign))], key=lambda x: (x.lineno, x.col_offset)):
        if isinstance(n, ast.For):
            st = w.stream(n.iter)
            if st is None:
                continue
            env: dict[str, tuple] = {}
            if not w.bind(n.target, st, env) or st[0] in ("all", "par"):
                unknown.append(f"for over {st[0]}")
                continue
            w.loop_env[id(n)] = env
            if st[0] == "range" and st[2] == 2:
                # every second position rewritten in place: `for i in range(p, len(S), 2): S[i] = f(S[i])`; the other
                # positions stay as they are and the list is emitted whole afterwards
                body = n.body
                tgt = body[0].targets[0] if len(body) == 1 and isinstance(body[0], ast.Assign) and len(body[0].targets) == 1 else None
                if not (isinstance(tgt, ast.Subscript) and w.is_split(tgt.value) and astq.is_name(tgt.slice, n.target.id) and not n.orelse):
                    unknown.append("stride-2 loop over the positions that is not a plain in-place rewrite")
                    continue
                w.parity = st[1] % 2
                alts = w.classify(body[0].value)  # type: ignore[attr-defined]
                w.parity = None
                k = w.kind(*alts[0]) if len(alts) == 1 else "one of " + "/".join(w.kind(*a) for a in alts)
                recognised += 1
                anchor = anchor or n
                runs.append((f"positions [{st[1]}::2] rewritten in place", [k], st[1] == 0 and k == "free-unquoted", "" if st[1] == 0 else f"the loop starts at position {st[1]}"))
                if st[1] == 0:
                    runs.append(("positions [1::2] left in place", ["kept-raw"], True, ""))
                continue
            recognised += 1
            anchor = anchor or n
            why = complete_stream(st)
            it_name = st[1] if st[0] == "iter" else None
            for par in parities(st):
                w.parity = par
                done, left, cyc = w.loop_paths(n)
                if cyc:
                    raise AnalysisError(f"{mk.fq}: nested loop inside the walk over the split pieces (alternation slot)")
                label = f"for/{st[0]}" + (f" index%2={par}" if par is not None else "")
                if not done:
                    runs.append((label, [], False, "no path completes an iteration"))
                for path in done + left:
                    kinds: list[str] = []
                    amb = False
                    nx = 0
                    w.path_env = {}
                    w.body_ids = {cn.id for cn in sc.cfg.nodes if cn.ast is not None and any(cn.ast is x_ for st_ in n.body for x_ in ast.walk(st_))}
                    for node in path:
                        if node.kind not in ("stmt", "test") or node.ast is None:
                            continue
                        nx += w.nexts_of(node.ast, it_name) if it_name else 0
                        for x in w.emits_of(node.ast):
                            alts = w.classify(x)
                            amb = amb or len(alts) != 1
                            kinds += [w.kind(*a) for a in alts[:1]] if len(alts) == 1 else ["one of " + "/".join(w.kind(*a) for a in alts)]
                        for d in sc.rd.gen.get(node.id, []):
                            if d.kind in ("assign", "walrus") and d.index is None and d.value is not None:
                                # the value is classified where it is bound (it may mention the name's earlier binding)
                                w.path_env[d.name] = _Bound(d, w.classify(d.value))
                            else:
                                w.path_env[d.name] = d
                    w.path_env = None
                    kinds = [k for k in kinds if k != "const-empty"]
                    remark = why
                    if any(path is p_ for p_ in left):
                        remark = remark or "the loop is left before all pieces are emitted"
                    if st[0] == "iter" and nx != 1:
                        remark = remark or f"{nx} next({it_name}) calls on this path: the for target is not always a free piece"
                    ok = not remark and not amb and kinds == expected(st, par)
                    runs.append((label, kinds, ok, remark))
            w.parity = None
        elif isinstance(n, (ast.ListComp, ast.GeneratorExp, ast.SetComp)):
            par_ = getattr(n, "_parent", None)
            if isinstance(par_, ast.Assign) and any(isinstance(tg, ast.Subscript) for tg in par_.targets):
                continue  # judged with the slice assignment
            if len(n.generators) != 1:
                continue
            g = n.generators[0]
            st = w.stream(g.iter)
            if st is None:
                continue
            env = {}
            saved = dict(w.comp_env)
            if not w.bind(g.target, st, env) or st[0] in ("all", "par", "iter"):
                unknown.append(f"comprehension over {st[0]}")
                continue
            w.comp_env.update(env)
            recognised += 1
            anchor = anchor or n
            why = complete_stream(st)
            for par in parities(st):
                w.parity = par
                label = f"comprehension/{st[0]}" + (f" index%2={par}" if par is not None else "")
                remark = why
                for cond in g.ifs:
                    if w.truth(cond) is not True:
                        remark = remark or f"`if {norm(cond)}` drops pieces"
                elts = [y for x in (list(n.elt.elts) if isinstance(n.elt, (ast.Tuple, ast.List)) else [n.elt]) for y in _concat_parts(x)]
                kinds = []
                amb = False
                for x in elts:
                    alts = w.classify(x)
                    amb = amb or len(alts) != 1
                    kinds += [w.kind(*alts[0])] if len(alts) == 1 else ["one of " + "/".join(w.kind(*a) for a in alts)]
                kinds = [k for k in kinds if k != "const-empty"]
                runs.append((label, kinds, not remark and not amb and kinds == expected(st, par), remark))
            w.parity = None
            w.comp_env = saved
        elif isinstance(n, ast.Assign) and len(n.targets) == 1 and isinstance(n.targets[0], ast.Subscript):
            tst = w.stream(n.targets[0])
            if tst is None or tst[0] != "par":
                continue
            v = n.value
            if not (isinstance(v, (ast.ListComp, ast.GeneratorExp)) and len(v.generators) == 1 and not v.generators[0].ifs):
                unknown.append("slice assignment from something other than a plain comprehension")
                continue
            g = v.generators[0]
            sst = w.stream(g.iter)
            env = {}
            if sst is None or sst[0] != "par" or not w.bind(g.target, sst, env):
                unknown.append("slice assignment from an unrecognised source")
                continue
            saved = dict(w.comp_env)
            w.comp_env.update(env)
            recognised += 1
            anchor = anchor or n
            alts = w.classify(v.elt)
            k = w.kind(*alts[0]) if len(alts) == 1 else "one of " + "/".join(w.kind(*a) for a in alts)
            w.comp_env = saved
            same = tst[1] == sst[1]
            runs.append((f"slice [{tst[1]}::2] rewritten in place", [k], same and tst[1] == 0 and k == "free-unquoted", "" if same else f"[{tst[1]}::2] is filled from [{sst[1]}::2]"))
            if same and tst[1] == 0:
                runs.append(("slice [1::2] left in place", ["kept-raw"], True, ""))
    if not recognised:
        raise AnalysisError(f"{mk.fq}: no recognised walk over `{norm(split_c)}` that tells free pieces from kept escapes (alternation slot){': ' + '; '.join(unknown) if unknown else ''}")
    all_kinds = sorted({k for _, ks, _, _ in runs for k in ks})
    blind = sorted({k for k in all_kinds if "other `" in k or "piece-of-unknown-position" in k})
    if blind:
        # something is emitted that the walk analysis cannot name (a call of a table entry, a foreign function, a
        # piece whose position is not known): undecided, not a violation
        raise AnalysisError(f"{mk.fq}: the walk over `{norm(split_c)}` emits {blind[:3]}, which cannot be classified as free piece / kept escape (alternation slot)")
    shape_ok = all_kinds == ["free-unquoted", "kept-raw"]
    ctx.ob("R15.3", "the walk over the split pieces emits free pieces unquoted and kept escapes untouched", shape_ok, f"emissions: {[(lab, ks) for lab, ks, _, _ in runs]}", mk, anchor, "emission kinds")
    bad = [(lab, ks, rem) for lab, ks, ok, rem in runs if not ok]
    dflt = not w.no_default
    ctx.ob("R15.3", "every free piece is followed by its kept escape: each piece is emitted exactly once, in list order, on every path", bool(shape_ok and not bad and dflt),
           (f"all {len(runs)} enumerated iteration path(s) emit the expected sequence" if not bad else f"deviating: {bad[:4]}") + ("" if dflt else f"; `{norm(w.no_default[0])}` has no '' default although the list ends with a free piece"),
           mk, anchor, "alternation order")


def _expanded(sc: Scope, e: ast.AST, depth: int = 0) -> str:
    """normalised text of e with plain local aliases replaced by what they stand for (``start = e.start``,
    ``start, end = e.start, e.end``, ``bad = e.object[start:end]``)."""
    def sub(n: ast.AST, depth: int) -> ast.AST:
        if isinstance(n, ast.Name) and isinstance(n.ctx, ast.Load) and depth < 5:
            node = sc.cfg.node_of(n)
            ds = sc.rd.reaching(node, n.id) if node is not None else frozenset()
            if len(ds) == 1:
                d = next(iter(ds))
                v = None
                if d.kind in ("assign", "walrus") and d.index is None:
                    v = d.value
                elif d.kind == "unpack" and isinstance(d.value, (ast.Tuple, ast.List)) and d.index is not None and d.index < len(d.value.elts):
                    v = d.value.elts[d.index]
                if isinstance(v, (ast.Attribute, ast.Name, ast.Subscript)):
                    return sub(v, depth + 1)
            return n
        if isinstance(n, ast.Attribute):
            return ast.Attribute(value=sub(n.value, depth), attr=n.attr, ctx=ast.Load())
        if isinstance(n, ast.Subscript):
            sl = n.slice
            if isinstance(sl, ast.Slice):
                sl = ast.Slice(lower=sub(sl.lower, depth) if sl.lower else None, upper=sub(sl.upper, depth) if sl.upper else None, step=sub(sl.step, depth) if sl.step else None)
            else:
                sl = sub(sl, depth)
            return ast.Subscript(value=sub(n.value, depth), slice=sl, ctx=ast.Load())
        return n
    return norm(ast.unparse(ast.fix_missing_locations(sub(e, depth))))


def _handler_shape(ctx: Ctx, hf: FuncInfo) -> tuple[bool, str]:
    """return (quote(e.object[e.start:e.end], ...), e.end)"""
    if not hf.params:
        return False, "no parameter"
    e = hf.params[0]
    flow = Flow(ctx.repo, hf)
    sc = flow.root
    rets = astq.returns_of(hf.node)
    if not rets:
        return False, "no return"
    facts = []
    ok = True
    want = f"{e}.object[{e}.start:{e}.end]"
    for r in rets:
        v = r.value
        if isinstance(v, ast.Name):
            ds = [x for _, x in astq.assigns_to(hf.node, v.id)]
            v = ds[0] if len(ds) == 1 and ds[0] is not None else v
        if not (isinstance(v, ast.Tuple) and len(v.elts) == 2):
            return False, f"returns `{norm(r.value) if r.value else None}`, not a (replacement, resume position) pair"
        rep = [x for l0 in flow.leaves(v.elts[0]) for x in expand(flow, l0)]
        pos_text = _expanded(sc, v.elts[1])
        pos_ok = pos_text == f"{e}.end"
        rep_ok = bool(rep)
        for l in rep:
            quoted = len(l.ops) == 1 and l.ops[0].kind == "quote"
            arg_text = None
            if quoted and l.ops[0].node.args:
                qsc = l.ops[0].sc or sc
                a0 = l.ops[0].node.args[0]
                if qsc is not sc and isinstance(a0, ast.Name) and a0.id in qsc.bind:
                    a0, qsc = qsc.bind[a0.id]
                arg_text = _expanded(qsc, a0)
            exact = arg_text is not None and arg_text.replace(" ", "") == want.replace(" ", "")
            rep_ok = rep_ok and quoted and exact
        ok = ok and pos_ok and rep_ok
        facts.append(f"replacement {[l.text() for l in rep]} (quote of {want}: {rep_ok}); resume at `{pos_text}` ({'ok' if pos_ok else f'expected {e}.end'})")
    return ok, "; ".join(facts)


# ---------------------------------------------------------------------
# R15.2  iri_to_uri and the other quoting tables


def _safe_obligations(ctx: Ctx, fi: FuncInfo, call: ast.Call, comp: str, S: str, tag: str, want_percent: bool | None, terminators: str) -> None:
    """want_percent: True - the value is still percent-encoded text, an existing escape must not be escaped again;
    False - the value is decoded text, a literal '%' must become %25; None - not judged."""
    fn = fi.name
    if want_percent is True:
        ctx.ob("R15.2", f"{fn}: {tag}: '%' is safe (an existing escape is not escaped again)", "%" in S, f"safe={S!r}", fi, call, f"{fn} {tag} percent safe")
    elif want_percent is False:
        ctx.ob("R15.2", f"{fn}: {tag}: the value is decoded text, so a literal '%' is escaped", "%" not in S,
               f"safe={S!r}: '%' is left raw, so a decoded path containing '%41' is emitted as the escape %41 and read back as 'A'", fi, call, f"{fn} {tag} percent unsafe")
    missing = [c for c in STRUCT.get(comp, "") if c not in S]
    ctx.ob("R15.2", f"{fn}: {tag}: structure delimiters {STRUCT.get(comp, '')!r} stay raw", not missing, f"safe={S!r}; would be escaped although they delimit inside the {comp}: {missing}", fi, call, f"{fn} {tag} structure safe")
    illegal = sorted(c for c in set(S) if c not in URI_LEGAL)
    ctx.ob("R15.2", f"{fn}: {tag}: safe set within the RFC 3986 repertoire", not illegal, f"safe={S!r}; left raw although not URI characters: {illegal}", fi, call, f"{fn} {tag} safe repertoire")
    if terminators:
        bad = [c for c in terminators if c in S]
        ctx.ob("R15.2", f"{fn}: {tag}: terminators {terminators!r} are escaped", not bad, f"safe={S!r}; a literal {bad} in the value would end the {comp}", fi, call, f"{fn} {tag} terminators unsafe")


def _r15_2(ctx: Ctx, folder: Folder, i2u: FuncInfo) -> None:
    flow = Flow(ctx.repo, i2u)
    sink, elts = _unsplit_slots(flow, i2u)
    quotes: dict[tuple[int, str], tuple[ast.Call, str, Scope | None]] = {}

    def accept(attr: str, l: Leaf):
        if attr in ("scheme", "port"):
            return (not l.ops or attr == "port"), f"parts.{attr} as `{l.text()}`"
        if attr == "hostname":
            kinds = [(o.kind, codec_kind(o.codec)) for o in l.ops]
            ok = kinds == [("encode", "idna"), ("decode", "ASCII")]
            if not ok:
                # not the direct shape: decided on what iri_to_uri as a whole makes of representative host names
                ok, fact = _whole_verdict(_whole_host_eval(ctx, i2u, (), False))
                return ok, f"hostname as `{l.text()}`" + (": " if ok else ": expected encode('idna').decode('ascii') on every path; ") + fact
            return ok, f"hostname as `{l.text()}`"
        if len(l.ops) != 1 or l.ops[0].kind != "quote":
            return False, f"parts.{attr} reaches urlunsplit as `{l.text()}`: expected exactly one quote()"
        quotes[(id(l.ops[0].node), attr)] = (l.ops[0].node, attr, l.ops[0].sc)
        return True, f"parts.{attr} through `{norm(l.ops[0].node)[:70]}`"

    seen = _route(ctx, "R15.2", i2u, flow, elts, accept, sink=sink)
    ctx.floor("R15.2", "iri_to_uri component routes", sum(len(v) for v in seen.values()), 7)
    for call, attr, qsc in sorted(quotes.values(), key=lambda p: (p[0].lineno, p[1])):
        S = _fold_safe(folder, i2u, call, module=_module_of(ctx.repo, call, i2u.module), scope=qsc)
        _safe_obligations(ctx, i2u, call, attr, S, f"quote of parts.{attr}", True, "")
    ctx.floor("R15.2", "iri_to_uri quote calls", len(quotes), 3)


def _rebound_between(name: ast.Name, outer: ast.AST) -> bool:
    """is the name a parameter / local of a function nested between its occurrence and `outer` (so not outer's)?"""
    cur = getattr(name, "_parent", None)
    while cur is not None and cur is not outer:
        if isinstance(cur, (ast.FunctionDef, ast.AsyncFunctionDef, ast.Lambda)):
            a = cur.args
            if name.id in [x.arg for x in a.posonlyargs + a.args + a.kwonlyargs] + ([a.vararg.arg] if a.vararg else []) + ([a.kwarg.arg] if a.kwarg else []):
                return True
            if not isinstance(cur, ast.Lambda) and any(isinstance(x, ast.Name) and x.id == name.id and isinstance(x.ctx, ast.Store) for x in walk_no_nested(cur)):
                return True
        cur = getattr(cur, "_parent", None)
    return False


def _r15_2_reconstruct(ctx: Ctx, folder: Folder) -> None:
    repo = ctx.repo
    g = repo.func("sansio.utils.get_current_url")
    ctx.saw(g)
    flow = Flow(repo, g)
    comp_of = {"root_path": "path", "path": "path", "query_string": "query"}
    for p in comp_of:
        if p not in g.params:
            raise AnalysisError(f"{g.fq}: parameter {p} not found")
    # quote() calls that one of the three values passes through: written in the function or in a helper it calls
    qsites: dict[int, tuple[ast.Call, set[str], Scope | None]] = {}
    for c in sorted(astq.calls(g.node, nested=False), key=lambda c: (c.lineno, c.col_offset)):
        for l0 in flow.leaves(c):
            for l in expand(flow, l0):
                if l.kind == "param" and l.key in comp_of:
                    for o in l.ops:
                        if o.kind == "quote":
                            qsites.setdefault(id(o.node), (o.node, set(), o.sc))[1].add(l.key)
    nq = 0
    for c, pnames, qsc in sorted(qsites.values(), key=lambda p: (_module_of(repo, p[0], g.module).name != g.module.name, p[0].lineno, p[0].col_offset)):
        nq += 1
        S = _fold_safe(folder, g, c, module=_module_of(repo, c, g.module), scope=qsc)
        for pname in sorted(pnames):
            # one set of obligations per value (not per call: two values may share one quote() in a helper).
            # root_path / path arrive percent-decoded (PEP 3333 PATH_INFO / SCRIPT_NAME); query_string is the raw, still encoded bytes
            comp = comp_of[pname]
            _safe_obligations(ctx, g, c, comp, S, f"quote of {pname}", comp == "query", TERMINATORS[comp])
    ctx.floor("R15.2", "get_current_url quote calls", nq, 1)
    # every use of the three parameters as a value is inside a quote()
    nuse = 0
    for p in comp_of:
        for n in ast.walk(g.node):
            # uses in the function and, as a free variable, in the local functions it defines (a generator of pieces)
            if isinstance(n, ast.Name) and n.id == p and isinstance(n.ctx, ast.Load) and not _rebound_between(n, g.node):
                for top in escapes(flow, n):
                    nuse += 1
                    lv = [l for l0 in flow.leaves(top) for l in expand(flow, l0) if l.kind == "param" and l.key == p]
                    raw = [l for l in lv if not any(o.kind == "quote" for o in l.ops)]
                    ctx.ob("R15.2", f"get_current_url: {p} is quoted before it joins the URL", not raw, f"`{norm(top)[:80]}`: {[l.text() for l in lv]}", g, top, f"get_current_url {p} use {norm(top)[:60]}")
    ctx.floor("R15.2", "get_current_url parameter uses", nuse, 3)

    # EnvironBuilder's urlencode of the query mapping
    ue = repo.func("urls._urlencode")
    ctx.saw(ue)
    uflow = Flow(repo, ue)
    ucalls = _calls_to(uflow, ue, {"urllib.parse.urlencode"})
    if len(ucalls) != 1:
        raise AnalysisError(f"{ue.fq}: expected one urlencode call, found {len(ucalls)}")
    S = _fold_safe(folder, ue, ucalls[0], pos=2, default="")
    bad = [c for c in "&=+#%" if c in S]
    ctx.ob("R15.2", "_urlencode: '&', '=', '+', '#', '%' inside keys and values are escaped", not bad, f"safe={S!r}; left raw: {bad}", ue, ucalls[0], "_urlencode reserved unsafe")
    illegal = sorted(c for c in set(S) if c not in URI_LEGAL)
    ctx.ob("R15.2", "_urlencode: safe set within the RFC 3986 repertoire", not illegal, f"safe={S!r}; not URI characters: {illegal}", ue, ucalls[0], "_urlencode safe repertoire")


# ---------------------------------------------------------------------
# R15.4  the dances


def _dance_ops(ctx: Ctx, fi: FuncInfo) -> list[list]:
    flow = Flow(ctx.repo, fi)
    out = []
    rets = astq.returns_of(fi.node)
    if not rets:
        raise AnalysisError(f"{fi.fq}: no return")
    for r in rets:
        for l in flow.leaves(r.value):
            out.append((l, r))
    return out


def _r15_4(ctx: Ctx) -> None:
    repo = ctx.repo
    enc = repo.func("_internal._wsgi_encoding_dance")
    dec = repo.func("_internal._wsgi_decoding_dance")
    n = 0
    for fi, first, second, label in ((enc, "U", "L", "encoding"), (dec, "L", "U", "decoding")):
        for l, r in _dance_ops(ctx, fi):
            n += 1
            kinds = [(o.kind, codec_kind(o.codec)) for o in l.ops]
            from_param = l.kind == "param" and bool(fi.params) and l.key == fi.params[0]
            shape = kinds == [("encode", first), ("decode", second)]
            strict_first = len(l.ops) == 2 and (l.ops[0].errors in (None, "strict"))
            want = "s.encode(utf-8).decode(latin-1)" if first == "U" else "s.encode(latin-1).decode(utf-8)"
            ctx.ob("R15.4", f"{label} dance is {want}", bool(from_param and shape and strict_first), f"returns `{l.text()}`: operations {kinds}, lossless first step: {strict_first}", fi, r, f"{label} dance composition")
    ctx.floor("R15.4", "dance return values", n, 2)
    # crosswise: the same two codec names on both sides (aliases normalised)
    lv = [l for l, _ in _dance_ops(ctx, enc)] + [l for l, _ in _dance_ops(ctx, dec)]
    kinds = sorted({codec_kind(o.codec) for l in lv for o in l.ops})
    ctx.ob("R15.4", "both dances use the same pair of codecs", kinds == ["L", "U"], f"codec kinds used: {kinds}", enc, enc.node, "dance codec pair")


# ---------------------------------------------------------------------
# R15.5  writers and readers of the tunnelled keys


def _stores(flow: Flow, fi: FuncInfo) -> list[tuple[str, ast.AST, ast.AST]]:
    return _stores_in(fi.node)


def _text_keys(k: ast.AST | None, fn: ast.AST) -> list[str]:
    """the text keys a key expression stands for: a literal, or a variable running over a literal table."""
    if k is None:
        return []
    c = astq.const_str(k)
    if c is not None:
        return [c] if c in TEXT_KEYS else []
    vals = table_values(k, fn) if isinstance(k, ast.Name) else None
    return [v for v in dict.fromkeys(vals or []) if v in TEXT_KEYS]


def _stores_in(fn: ast.AST) -> list[tuple[str, ast.AST, ast.AST]]:
    """(key, value expression, node) for every store under one of the text keys in the function (dict literal /
    dict comprehension entry, subscript assignment, setdefault / keyword); the key may be a variable that runs over a
    literal table of keys (one store per text key of the table)."""
    out = []
    for n in walk_no_nested(fn):
        if isinstance(n, ast.Dict):
            for k, v in zip(n.keys, n.values):
                out += [(key, v, k) for key in _text_keys(k, fn)]
        elif isinstance(n, ast.DictComp):
            out += [(key, n.value, n.key) for key in _text_keys(n.key, fn)]
        elif isinstance(n, (ast.Assign, ast.AnnAssign)):
            tgs = n.targets if isinstance(n, ast.Assign) else [n.target]
            for tg in tgs:
                if isinstance(tg, ast.Subscript) and n.value is not None:
                    out += [(key, n.value, n) for key in _text_keys(tg.slice, fn)]
        elif isinstance(n, ast.AugAssign) and isinstance(n.target, ast.Subscript):
            out += [(key, n.value, n) for key in _text_keys(n.target.slice, fn)]
        elif isinstance(n, ast.Call) and isinstance(n.func, ast.Attribute) and n.func.attr == "setdefault" and len(n.args) == 2:
            out += [(key, n.args[1], n) for key in _text_keys(n.args[0], fn)]
        elif isinstance(n, ast.Call):
            for kw in n.keywords:
                if kw.arg in TEXT_KEYS:
                    out.append((kw.arg, kw.value, n))
    return sorted(out, key=lambda t_: (t_[2].lineno, t_[2].col_offset))  # type: ignore[attr-defined]


def _judge_store(flow: Flow, value: ast.AST, sc: Scope | None = None) -> tuple[bool, str, list[Leaf]]:
    lv = [x for l in flow.leaves(value, sc) for x in expand(flow, l)]
    bad = []
    shown = []
    for l in lv:
        cls, why = text_class(l)
        shown.append(f"{l.text()}:{cls}")
        if cls not in ("T", "A"):
            bad.append(f"`{l.text()}` is {_CLASS_WORD[cls]} [{why}]")
    if not lv:
        bad.append("no origin found")
    fact = "; ".join(dict.fromkeys(bad)) if bad else "origins " + ", ".join(dict.fromkeys(shown))
    return not bad, fact, lv


_CLASS_WORD = {"T": "tunnelled", "A": "ASCII", "B": "bytes", "D": "decoded text (not tunnelled)", "X": "text of unknown transport (no encoding dance applied)", "M": "transcoded twice / with the wrong codec"}


def _read_sites(flow: Flow, fi: FuncInfo) -> list[tuple[str, ast.AST]]:
    """reads of the text keys: direct (``environ.get("PATH_INFO")``) or through a helper (nested function, method of
    the class, module-level function) called with the key."""
    out = []
    for n in ast.walk(fi.node):
        if isinstance(n, (ast.Subscript, ast.Call)):
            if isinstance(n, ast.Subscript) and isinstance(n.ctx, (ast.Store, ast.Del)):
                continue
            sc = flow.scope_of(n)
            er = flow.environ_read(n, sc)
            if er is not None and any(k in TEXT_KEYS for k in er[0]):
                out += [(k, n) for k in er[0] if k in TEXT_KEYS]  # one read per key of a table-driven read
                continue
            if isinstance(n, ast.Call) and any(astq.const_str(a) in TEXT_KEYS for a in n.args) and flow.callee_scope(n, sc) is not None:
                ks = [astq.const_str(a) for a in n.args if astq.const_str(a) in TEXT_KEYS]
                if ks:
                    out.append((ks[0], n))
    return sorted(out, key=lambda p: (p[1].lineno, p[1].col_offset))  # type: ignore[attr-defined]


def _r15_5(ctx: Ctx) -> None:
    repo = ctx.repo
    nw = 0
    for fq in WRITERS:
        fi = repo.func(fq)
        ctx.saw(fi)
        flow = Flow(repo, fi)
        st = _stores(flow, fi)
        keys = {k for k, _, _ in st}
        for k in TEXT_KEYS:
            if k not in keys:
                raise AnalysisError(f"{fi.fq}: no store of {k} found (writer slot)")
        for k, v, node in st:
            nw += 1
            ok, fact, _ = _judge_store(flow, v)
            ctx.ob("R15.5", f"{fi.qualname} stores tunnelled text in {k}", ok, fact, fi, node, f"{fi.qualname} writes {k}")
    ctx.floor("R15.5", "environ text stores", nw, 6)

    nr = 0
    for fq in READERS:
        fi = repo.func(fq)
        ctx.saw(fi)
        flow = Flow(repo, fi)
        sites = _read_sites(flow, fi)
        if not sites:
            raise AnalysisError(f"{fi.fq}: reads none of {TEXT_KEYS} (reader slot)")
        for k, site in sites:
            tops = escapes(flow, site)
            nr += 1
            bad = []
            shown = []
            for top in tops:
                for l in [x for l0 in flow.leaves(top) for x in expand(flow, l0)]:
                    if not (l.kind == "environ" and l.key == k):
                        continue
                    cls, why = text_class(l)
                    shown.append(f"`{norm(top)[:60]}`:{cls}")
                    if cls not in ("D", "B"):
                        bad.append(f"`{norm(top)[:70]}` lets {k} out as {_CLASS_WORD[cls]} [{why}]")
            fact = "; ".join(dict.fromkeys(bad)) if bad else ("escapes as " + ", ".join(dict.fromkeys(shown)) if shown else "value only tested")
            ctx.ob("R15.5", f"{fi.qualname} decodes {k} before use", not bad, fact, fi, site, f"{fi.qualname} reads {k}")
    ctx.floor("R15.5", "environ text reads", nr, 7)

    # observation: readers / writers outside the statement's scope
    scoped = {repo.func(f).fq for f in WRITERS + READERS + [DISPATCH]}
    for fi in repo.all_functions():
        if fi.fq in scoped or fi.module.name.endswith(".lint"):
            continue
        if not any(k in fi.module.source for k in TEXT_KEYS):
            continue
        if not any(isinstance(n, ast.Constant) and n.value in TEXT_KEYS for n in ast.walk(fi.node)):
            continue
        try:
            flow = Flow(repo, fi)
            raw = []
            for k, site in _read_sites(flow, fi):
                for top in escapes(flow, site):
                    for l in flow.leaves(top):
                        if l.kind == "environ" and l.key == k and text_class(l)[0] in ("T", "M"):
                            raw.append(f"{k} via `{norm(top)[:50]}`")
            for k, v, node in _stores(flow, fi):
                ok, fact, _ = _judge_store(flow, v)
                if not ok:
                    raw.append(f"store {k}: {fact[:80]}")
            if raw:
                ctx.note(f"R15.5 observation (outside the statement's scope, not judged): {fi.fq} uses tunnelled text as is: {sorted(set(raw))[:4]}")
        except Exception:  # observations are notes, never verdicts: a shape the origin analysis cannot read is skipped
            continue


# ---------------------------------------------------------------------
# R15.6  DispatcherMiddleware


def _env_name(fn: ast.AST, skip_receiver: bool) -> str | None:
    a = fn.args  # type: ignore[attr-defined]
    ps = [x.arg for x in a.posonlyargs + a.args]
    if skip_receiver and ps and ps[0] in ("self", "cls"):
        ps = ps[1:]
    return ps[0] if ps else None


def _passes(call: ast.Call, name: str | None) -> bool:
    """the call hands the mapping ``name`` itself on (not ``name.get(...)`` / ``name[...]``)."""
    if name is None or (isinstance(call.func, ast.Attribute) and astq.is_name(call.func.value, name)):
        return False
    return any(astq.is_name(a, name) for a in call.args) or any(astq.is_name(k.value, name) for k in call.keywords)


def _r15_6(ctx: Ctx) -> None:
    repo = ctx.repo
    fi = repo.func(DISPATCH)
    ctx.saw(fi)
    flow = Flow(repo, fi)
    cfg = flow.root.cfg
    env_param = _env_name(fi.node, True)

    # helpers that receive the environ itself (one level): their stores / hand-offs count as happening at the call
    env_helpers: list[tuple[ast.Call, Scope, str]] = []
    for c in astq.calls(fi.node, nested=False):
        if not _passes(c, env_param):
            continue
        hsc = flow.callee_scope(c, flow.root)
        if hsc is None:
            continue
        hname = next((p for p, (arg, _) in hsc.bind.items() if astq.is_name(arg, env_param)), None)
        if hname is not None:
            env_helpers.append((c, hsc, hname))

    # (key, value, node for the report, scope of the value, anchor in __call__ or None if not on every path of the helper)
    sites: list[tuple[str, ast.AST, ast.AST, Scope, ast.AST | None]] = []
    for k, v, n in _stores(flow, fi):
        if k in ("SCRIPT_NAME", "PATH_INFO"):
            sites.append((k, v, n, flow.root, n))
    for c, hsc, hname in env_helpers:
        hst = [(k, v, n) for k, v, n in _stores_in(hsc.fn) if k in ("SCRIPT_NAME", "PATH_INFO")]
        for k, v, n in hst:
            nodes = [x for x in (hsc.cfg.node_of(n2) for k2, _, n2 in hst if k2 == k) if x is not None]
            always = bool(nodes) and hsc.cfg.exit.id not in hsc.cfg.reach(avoid_nodes=nodes)
            sites.append((k, v, n, hsc, c if always else None))
    by_key: dict[str, list] = {}
    for k, v, n, sc, anchor in sites:
        by_key.setdefault(k, []).append(anchor)
    for k in ("SCRIPT_NAME", "PATH_INFO"):
        if k not in by_key:
            raise AnalysisError(f"{fi.fq}: no store of {k} (dispatcher slot)")
    nst = 0
    for k, v, node, sc, _ in sites:
        nst += 1
        ok, fact, lv = _judge_store(flow, v, sc)
        # untouched pieces: no operation at all is needed; an encode/decode round trip that nets to T is accepted by the class
        ctx.ob("R15.6", f"dispatcher writes back tunnelled {k}", ok, fact, fi, node, f"dispatcher writes {k}")
        env = [l.key for l in lv if l.kind == "environ"]
        blind = [l for l in lv if l.kind == "environ" and l.key == "PATH_INFO" and "cut?" in l.tags and not ({"tail", "head"} & set(l.tags))]
        if blind:
            # not understood is not violated: the composition of this store stays undecided (the other obligations
            # of the store - transport class, the other key - are still judged and reported)
            ctx.error(f"{fi.fq}: the new {k} contains a piece of PATH_INFO cut at a computed position (`{norm(blind[0].node)[:50]}` ... line {getattr(node, 'lineno', '?')}): whether it is the matched prefix or the remainder is not understood")
            continue
        if k == "SCRIPT_NAME":
            first_sn = env.index("SCRIPT_NAME") if "SCRIPT_NAME" in env else None
            first_pi = env.index("PATH_INFO") if "PATH_INFO" in env else None
            # a segment peeled off the right end belongs to the remainder, never to the matched prefix
            tails = [l.text() for l in lv if l.kind == "environ" and l.key == "PATH_INFO" and "tail" in l.tags]
            ok2 = first_sn is not None and first_pi is not None and first_sn < first_pi and not tails
            ctx.ob("R15.6", "new SCRIPT_NAME = old SCRIPT_NAME followed by the matched part of PATH_INFO", ok2, f"environ pieces in concatenation order: {env}" + (f"; segments peeled off the right end (remainder) flow in: {len(tails)}" if tails else ""), fi, node, "dispatcher SCRIPT_NAME composition")
        else:
            pi = [l for l in lv if l.kind == "environ" and l.key == "PATH_INFO"]
            peeling = any("tail" in l.tags or "head" in l.tags for l in pi)
            heads = [l for l in pi if "tail" not in l.tags] if peeling else []
            ok2 = "PATH_INFO" in env and "SCRIPT_NAME" not in env and not heads
            ctx.ob("R15.6", "new PATH_INFO is made of pieces of the old PATH_INFO only", ok2, f"environ pieces: {env}" + (f"; {len(heads)} of them are not segments peeled off the right end (the matched prefix flows in)" if heads else ""), fi, node, "dispatcher PATH_INFO composition")
    ctx.floor("R15.6", "dispatcher stores", nst, 2)

    # both stores happen on every path to the call that hands environ on
    helper_calls = {id(c) for c, _, _ in env_helpers}
    handoffs: list[tuple[ast.Call, ast.AST]] = [(c, c) for c in astq.calls(fi.node, nested=False) if _passes(c, env_param) and id(c) not in helper_calls]
    for c, hsc, hname in env_helpers:
        handoffs += [(hc, c) for hc in astq.calls(hsc.fn, nested=False) if _passes(hc, hname) and flow.callee_scope(hc, hsc) is None]
    if not handoffs:
        raise AnalysisError(f"{fi.fq}: no call passing `{env_param}` on (hand-off slot)")
    for c, anchor in handoffs:
        cn = cfg.node_of(anchor)
        for k in ("SCRIPT_NAME", "PATH_INFO"):
            nodes = [cfg.node_of(a) for a in by_key[k] if a is not None and a is not anchor]
            nodes = [x for x in nodes if x is not None and x is not cn]
            ok = cn is not None and bool(nodes) and cn.id not in cfg.reach(avoid_nodes=nodes)
            if not ok and anchor is not c and any(a is anchor for a in by_key[k]):
                # store and hand-off live in the same helper: judged on the helper's own graph
                hsc = next(h for hc_, h, _ in env_helpers if hc_ is anchor)
                hn = hsc.cfg.node_of(c)
                hs = [x for x in (hsc.cfg.node_of(n) for k2, _, n, sc2, _ in sites if k2 == k and sc2 is hsc) if x is not None]
                ok = hn is not None and bool(hs) and hn.id not in hsc.cfg.reach(avoid_nodes=hs)
            ctx.ob("R15.6", f"{k} is stored on every path to the mounted app", ok, f"`{norm(c)}` is {'not ' if not ok else ''}dominated by the store(s) of {k}", fi, c, f"dispatcher {k} before hand-off")

    # remainder accumulation: a piece peeled from the right end is prepended.  Looked for in __call__ and in the
    # helpers it was followed into (the lookup loop may live in a private method).
    scopes: list[Scope] = [flow.root] + [hsc for _, hsc, _ in env_helpers]
    done = {id(s_.fn) for s_ in scopes}
    for hfi in list(flow.inlined.values()):
        if id(hfi.node) not in done:
            done.add(id(hfi.node))
            ctx.saw(hfi)
            scopes.append(Scope(hfi.node, module=hfi.module, cls=hfi.cls))
    nacc = 0
    for sc in scopes:
        nacc += _accumulations(ctx, fi, sc)
        # the remainder computed once as what stands behind the matched prefix (`path[len(script):]`) instead of
        # being accumulated segment by segment
        for n in walk_no_nested(sc.fn):
            if isinstance(n, ast.Subscript) and isinstance(n.ctx, ast.Load) and flow.complement_of_head(n, sc if sc.fn is not flow.root.fn else flow.root):
                nacc += 1
                ctx.ob("R15.6", "remainder keeps request order", True, f"`{norm(n)}`: what stands behind the right-peeled prefix `{norm(n.slice.lower.args[0])}` in the old value", fi, n, "dispatcher remainder order")  # type: ignore[attr-defined]
    ctx.floor("R15.6", "remainder accumulation statements", nacc, 1)


def _accumulations(ctx: Ctx, fi: FuncInfo, sc: Scope) -> int:
    cfg = sc.cfg
    nacc = 0
    for n in walk_no_nested(sc.fn):
        flipped = False
        if isinstance(n, ast.Call) and isinstance(n.func, ast.Attribute) and isinstance(n.func.value, ast.Name) and not n.keywords and isinstance(getattr(n, "_parent", None), ast.Expr):
            # the remainder kept as a list of segments: L.insert(0, p) / L.appendleft(p) put p in front, L.append(p)
            # behind - which is the same order when every reader of L reverses it
            acc, m = n.func.value.id, n.func.attr
            if m == "insert" and len(n.args) == 2 and isinstance(n.args[0], ast.Constant) and n.args[0].value == 0:
                front, piece = True, n.args[1]
            elif m == "appendleft" and len(n.args) == 1:
                front, piece = True, n.args[0]
            elif m == "append" and len(n.args) == 1:
                front, piece = False, n.args[0]
            else:
                continue
            end = _peeled_end(sc, piece)
            if end is None:
                continue
            if not front:
                reads = [x for x in walk_no_nested(sc.fn) if isinstance(x, ast.Name) and x.id == acc and isinstance(x.ctx, ast.Load) and x is not n.func.value]
                rev = [x for x in reads if _reversed_read(x)]
                if rev and len(rev) != len(reads):
                    continue  # read both ways: not understood (the floor reports it when nothing else is found)
                flipped = bool(rev)
            nacc += 1
            in_front = front != flipped
            ok = (end == "right") == in_front
            ctx.ob("R15.6", "remainder keeps request order", ok, f"`{norm(n)}`: piece peeled from the {end} end is put {'in front of' if in_front else 'behind'} the accumulated `{acc}`" + (" (read reversed)" if flipped else ""), fi, n, "dispatcher remainder order")
            continue
        if not (isinstance(n, ast.Assign) and len(n.targets) == 1 and isinstance(n.targets[0], ast.Name)):
            continue
        acc = n.targets[0].id
        val = n.value
        pieces: list[ast.AST] = []
        if isinstance(val, (ast.List, ast.Tuple)) and any(isinstance(x, ast.Starred) and astq.is_name(x.value, acc) for x in val.elts):
            pieces = [x.value if isinstance(x, ast.Starred) else x for x in val.elts]  # [p, *acc]
        elif isinstance(val, ast.JoinedStr):
            pieces = [v.value if isinstance(v, ast.FormattedValue) else v for v in val.values]
        elif isinstance(val, ast.BinOp) and isinstance(val.op, ast.Add):
            def flat(e):
                return flat(e.left) + flat(e.right) if isinstance(e, ast.BinOp) and isinstance(e.op, ast.Add) else [e]
            pieces = [x.elts[0] if isinstance(x, (ast.List, ast.Tuple)) and len(x.elts) == 1 and not isinstance(x.elts[0], ast.Starred) else x for x in flat(val)]  # [p] + acc
        elif isinstance(val, ast.Call) and isinstance(val.func, ast.Attribute) and val.func.attr == "join" and len(val.args) == 1 and isinstance(val.args[0], (ast.Tuple, ast.List)):
            sep = val.func.value
            for i, x in enumerate(val.args[0].elts):
                pieces += ([sep] if i else []) + [x]
        selfpos = [i for i, p in enumerate(pieces) if astq.is_name(p, acc)]
        if len(selfpos) != 1:
            continue
        peeled = None  # 'right' / 'left'
        ppos = None
        for i, p in enumerate(pieces):
            if i == selfpos[0]:
                continue
            end = _peeled_end(sc, p)
            if end is not None:
                peeled, ppos = end, i
        if peeled is None:
            continue
        nacc += 1
        ok = (peeled == "right" and ppos < selfpos[0]) or (peeled == "left" and ppos > selfpos[0])
        ctx.ob("R15.6", "remainder keeps request order", ok, f"`{norm(n)}`: piece peeled from the {peeled} end at position {ppos}, accumulated `{acc}` at position {selfpos[0]}", fi, n, "dispatcher remainder order")
    return nacc


def _reversed_read(x: ast.Name) -> bool:
    """`reversed(x)` / `x[::-1]`."""
    p = getattr(x, "_parent", None)
    if isinstance(p, ast.Call) and isinstance(p.func, ast.Name) and p.func.id == "reversed" and len(p.args) == 1 and p.args[0] is x:
        return True
    if isinstance(p, ast.Subscript) and p.value is x and isinstance(p.slice, ast.Slice) and p.slice.lower is None and p.slice.upper is None:
        st = p.slice.step
        return isinstance(st, ast.UnaryOp) and isinstance(st.op, ast.USub) and isinstance(st.operand, ast.Constant) and st.operand.value == 1
    return False


def _peeled_end(sc: Scope, p: ast.AST, depth: int = 0) -> str | None:
    """'right' when the expression is the last piece of an ``rsplit(sep, 1)`` / ``rpartition(sep)`` (taken by
    unpacking or by index), 'left' for the first piece of ``split(sep, 1)`` / ``partition(sep)``."""

    def of_call(call: ast.AST, index: int, arity: int | None) -> str | None:
        if not (isinstance(call, ast.Call) and isinstance(call.func, ast.Attribute)):
            return None
        m = call.func.attr
        width = 3 if m in ("partition", "rpartition") else 2
        if arity is not None and arity != width:
            return None
        if m in ("rsplit", "rpartition") and index in (width - 1, -1):
            return "right"
        if m in ("split", "partition") and index == 0:
            return "left"
        return None

    if isinstance(p, (ast.BinOp, ast.JoinedStr)) and depth < 3:
        # `"/" + last` / f"/{last}": the piece with constant text (the separator it was split at) around it
        def flat(e: ast.AST) -> list[ast.AST]:
            if isinstance(e, ast.BinOp) and isinstance(e.op, ast.Add):
                return flat(e.left) + flat(e.right)
            if isinstance(e, ast.JoinedStr):
                return [v.value if isinstance(v, ast.FormattedValue) else v for v in e.values]
            return [e]

        if isinstance(p, ast.BinOp) and not isinstance(p.op, ast.Add):
            return None
        moving = [x for x in flat(p) if not isinstance(x, ast.Constant)]
        return _peeled_end(sc, moving[0], depth + 1) if len(moving) == 1 else None
    if isinstance(p, ast.Subscript) and isinstance(p.slice, ast.Slice):
        return {"tail": "right"}.get(slice_peel(sc, p) or "")
    if isinstance(p, ast.Subscript) and isinstance(p.slice, ast.Constant) and isinstance(p.slice.value, int):
        base = p.value
        if isinstance(base, ast.Name) and depth < 3:
            node = sc.cfg.node_of(base)
            ds = sc.rd.reaching(node, base.id) if node is not None else ()
            ends = {of_call(d.value, p.slice.value, None) if d.kind == "assign" and d.index is None else None for d in ds}
            return ends.pop() if len(ends) == 1 else None
        return of_call(base, p.slice.value, None)
    if not isinstance(p, ast.Name):
        return None
    node = sc.cfg.node_of(p)
    ends = set()
    for d in (sc.rd.reaching(node, p.id) if node is not None else ()):
        if d.kind == "unpack" and d.index is not None:
            par = getattr(d.target, "_parent", None)
            arity = len(par.elts) if isinstance(par, (ast.Tuple, ast.List)) else None
            ends.add(of_call(d.value, d.index, arity))
        elif d.kind == "assign" and d.index is None and d.value is not None and depth < 3:
            ends.add(_peeled_end(sc, d.value, depth + 1))
        else:
            ends.add(None)
    return ends.pop() if len(ends) == 1 else None


# ---------------------------------------------------------------------
# R15.7  the host the request reports


DEFAULT_PORT = {"http": "80", "ws": "80", "https": "443", "wss": "443"}
_HOST_NAMES = ["example.org", "localhost", "spam", "a", "xn--n3h.example", "10.0.0.80", "192.168.4.34", "127.0.0.1", "node08", "node443", "h", "80", "443", "[::1]", "[2001:db8::80]", "[fe80::443]", ""]
_PORT_TAILS = ["", ":80", ":443", ":8080", ":8443", ":180", ":4430", ":1443", ":8", ":0", ":44", ":5000", ":80:80", ":"]


def _port_texts(fi: FuncInfo) -> list[str]:
    """port-like string constants of the module that holds get_host (':80', '443', ...): the adversarial hosts
    are built from their characters, whatever table or literal the removal is written with."""
    out: set[str] = set()
    for n in ast.walk(fi.module.tree):
        if isinstance(n, ast.Constant) and isinstance(n.value, str) and re.fullmatch(r":?[0-9]{1,5}", n.value):
            out.add(n.value)
        elif isinstance(n, ast.Constant) and isinstance(n.value, int) and not isinstance(n.value, bool) and 0 < n.value < 65536 and n.value in (80, 443):
            out.add(str(n.value))
    return sorted(out)


def _host_cases(fi: FuncInfo) -> list[str]:
    chars = sorted({c for p in _port_texts(fi) + [":80", ":443"] for c in p})
    names = list(_HOST_NAMES)
    names += [f"node{c}" for c in chars if c != ":"]
    names += [f"n{a}{b}" for a in chars for b in chars if a != ":" and b != ":"]
    seen: set[str] = set()
    out = []
    for tail in _PORT_TAILS:  # the plain default ports first: the first witnesses of a finding are the realistic ones
        for nm in names:
            h = nm + tail
            if h not in seen:
                seen.add(h)
                out.append(h)
    return out


def _r15_7(ctx: Ctx) -> None:
    repo = ctx.repo
    fi = repo.func("sansio.utils.get_host")
    ctx.saw(fi)
    a = fi.node.args  # type: ignore[attr-defined]
    npos = len(a.posonlyargs + a.args)
    if npos < 2:
        raise AnalysisError(f"{fi.fq}: expected (scheme, host_header, server, trusted_hosts), found {fi.params}")
    hosts = _host_cases(fi)
    fn = CFn(fi.node, fi.module)
    total = 0
    for scheme in ["http", "ws", "https", "wss", "ftp", ""]:
        port = DEFAULT_PORT.get(scheme)
        suffix = f":{port}" if port is not None else None
        bad: list[str] = []
        stripped = 0
        cases: list[tuple[str, list, str]] = [(f"Host: {h}", [scheme, h, None, None][:max(npos, 2)], h) for h in hosts]
        if npos >= 3:
            # no Host header: SERVER_NAME / SERVER_PORT (names without ':' - bracketing of IPv6 literals is not judged here)
            for nm in ("example.org", "10.0.0.80", "node443"):
                for p in (None, 80, 443, 8080, 4430):
                    cases.append((f"server=({nm!r}, {p})", [scheme, None, (nm, p), None][:npos], nm if p is None else f"{nm}:{p}"))
        for label, args, given in cases:
            total += 1
            ip = Concrete(repo)
            try:
                got = ip.call(fn, list(args), {})
            except NotConcrete as x:
                raise AnalysisError(f"R15.7: get_host({scheme!r}, {label}) cannot be evaluated from the source: {x.why}" + (f" (line {getattr(x.node, 'lineno', '?')})" if x.node is not None else ""))
            except ConcreteRaise as x:
                bad.append(f"{label} raises {x.what}")
                continue
            allowed = {given} | ({given[: -len(suffix)]} if suffix is not None and given.endswith(suffix) else set())
            if got not in allowed:
                bad.append(f"{label} -> {got!r}")
            elif got != given:
                stripped += 1
        what = f"only the exact suffix {suffix!r} may be removed" if suffix is not None else "no default port: the value is returned as it is"
        ctx.ob("R15.7", f"get_host(scheme={scheme!r}): the host is the given one, {what}", not bad, (f"{len(cases)} representative values evaluated, the default port was removed from {stripped}" if not bad else f"{len(bad)} of {len(cases)} values come back as a different host, e.g. " + "; ".join(bad[:4])), fi, fi.node, f"get_host keeps the host scheme {scheme or 'empty'}")
    ctx.floor("R15.7", "(scheme, host) pairs evaluated through get_host", total, 1000)


# ---------------------------------------------------------------------
# R15.8  the query mapping the request reports


_QSL = "urllib.parse.parse_qsl"
_QSL_PARAMS = ["qs", "keep_blank_values", "strict_parsing", "encoding", "errors", "max_num_fields", "separator"]


def _r15_8(ctx: Ctx) -> None:
    repo = ctx.repo
    rq = repo.cls("wrappers.request.Request")
    owner, fa = repo.lookup(rq, "args")
    if not isinstance(fa, FuncInfo):
        raise AnalysisError("R15.8: wrappers.request.Request has no `args` property in its MRO")
    ctx.saw(fa)
    query = b"k=&a=1&k=2&e="
    pairs = [("k", ""), ("a", "1"), ("k", "2"), ("e", "")]
    ip = Concrete(repo)
    ip.watch[_QSL] = lambda a, k: list(pairs)
    me = CObj(rq.fq, {"query_string": query})
    try:
        got = ip.getattr_obj(me, "args", fa.node)
    except NotConcrete as x:
        raise AnalysisError(f"R15.8: Request.args cannot be evaluated from the source: {x.why}" + (f" (line {getattr(x.node, 'lineno', '?')})" if x.node is not None else ""))
    except ConcreteRaise as x:
        ctx.ob("R15.8", "Request.args parses the query string", False, f"raises {x.what} for the query {query!r}", fa, x.node or fa.node, "Request.args evaluates")
        return
    calls = [c for c in ip.calls if c[0] == _QSL]
    if not calls:
        raise AnalysisError("R15.8: Request.args does not call urllib.parse.parse_qsl (a reader of its own is not modelled)")
    ctx.floor("R15.8", "parse_qsl calls made by Request.args", len(calls), 1)
    for i, (_fq, cargs, ckw, cnode) in enumerate(calls):
        tag = "" if len(calls) == 1 else f" #{i + 1}"
        kw = dict(ckw)
        extra = [k for k in kw if k not in _QSL_PARAMS]
        for n, v in zip(_QSL_PARAMS, cargs):
            kw[n] = v
        if extra or len(cargs) > len(_QSL_PARAMS):
            raise AnalysisError(f"R15.8: parse_qsl is called with arguments it does not have: {extra or cargs}")
        qs = kw.get("qs")
        whole = qs == query or qs == query.decode("ascii")
        ctx.ob("R15.8", f"Request.args: parse_qsl{tag} reads the whole query string", whole, f"for query_string {query!r} it is given {qs!r}", fa, cnode, f"Request.args parse_qsl{tag} text")
        kb = kw.get("keep_blank_values", False)
        ctx.ob("R15.8", f"Request.args: parse_qsl{tag} keeps blank values", bool(kb), f"keep_blank_values={kb!r}" + ("" if kb else ": a pair the builder writes as 'k=' is dropped"), fa, cnode, f"Request.args parse_qsl{tag} keep_blank_values")
        sp = kw.get("strict_parsing", False)
        sep = kw.get("separator", "&")
        mx = kw.get("max_num_fields")
        enc = kw.get("encoding", "utf-8")
        rest_ok = not sp and sep in ("&", b"&") and mx is None and isinstance(enc, str) and codec_kind(enc) == "U"
        ctx.ob("R15.8", f"Request.args: parse_qsl{tag} splits at '&' only, without a field limit, non-strict, UTF-8", rest_ok, f"strict_parsing={sp!r}, separator={sep!r}, max_num_fields={mx!r}, encoding={enc!r}", fa, cnode, f"Request.args parse_qsl{tag} options")
    handed = None
    if isinstance(got, CMade) and len(got.args) >= 1:
        first = got.args[0]
        if isinstance(first, (list, tuple)):
            handed = [tuple(x) if isinstance(x, (list, tuple)) else x for x in first]
    elif isinstance(got, (list, tuple)):
        raise AnalysisError("R15.8: Request.args returns a plain sequence, not a multi-dict built from the parsed pairs (shape not understood)")
    if handed is None:
        raise AnalysisError(f"R15.8: what Request.args returns (`{str(got)[:80]}`) is not a multi-dict class applied to the parsed pairs (shape not understood)")
    ctx.ob("R15.8", "Request.args: every parsed pair reaches the multi-dict, in order", handed == pairs, f"parse_qsl returned {pairs}, {got.label.rsplit('.', 1)[-1]} receives {handed}", fa, fa.node, "Request.args pairs handed over")


# ---------------------------------------------------------------------
# R15.9  the host decoder undoes the IDNA step label by label, wherever the encoded labels stand


_ASCII_LABELS = ["www", "example", "net", "a1"]
_IDN_LABELS = ["☃", "bücher", "例え", "ñandú"]
_BAD_ACE_LABEL = "xn--zz"  # starts with the ACE prefix, is not punycode: iri_to_uri passes it through, no decoder can decode it
_PLAIN_HOSTS = ["example.com", "localhost", "www.example.co.uk", "a", "x.org", "xn.example", "ex-ample.com", "node08", "127.0.0.1", "10.0.0.80", "::1", "2001:db8::1"]


def _host_families() -> tuple[list[str], list[str]]:
    """(names with at least one non-ASCII label - every assignment of ASCII / non-ASCII to 1..4 positions -,
    names that additionally hold a label that only looks encoded)."""
    idn: list[str] = []
    for n in range(1, 5):
        for mask in itertools.product((0, 1), repeat=n):
            if any(mask):
                idn.append(".".join((_IDN_LABELS if bit else _ASCII_LABELS)[i % 4] for i, bit in enumerate(mask)))
    idn += ["x.☃", "xn.☃.net", "xn-a.bücher.org"]  # ASCII first labels that share leading characters with the ACE prefix
    bad: list[str] = []
    for n in (2, 3):
        for mask in itertools.product((0, 1, 2), repeat=n):
            if 1 in mask and 2 in mask:
                bad.append(".".join((_ASCII_LABELS[i % 4], _IDN_LABELS[i % 4], _BAD_ACE_LABEL)[k] for i, k in enumerate(mask)))
    return idn, bad


def _codec_fn(kind: str):
    """codecs.encode / codecs.decode / encodings.idna.ToUnicode / ToASCII on determined str / bytes values: the
    python codec itself is the trusted meaning of the call, as for the str / bytes methods."""

    def run(args: list, kw: dict):
        import codecs
        import encodings.idna

        vals = list(args) + list(kw.values())
        if not vals or any(not isinstance(v, (str, bytes)) for v in vals):
            raise NotConcrete(f"`{kind}` on a value the inputs do not determine")
        f = getattr(codecs, kind, None) or getattr(encodings.idna, kind)
        try:
            return f(*args, **kw)
        except UnicodeError as x:
            raise ConcreteRaise(type(x).__name__)
        except (LookupError, TypeError) as x:
            raise ConcreteRaise("LookupError" if isinstance(x, LookupError) else "TypeError")

    return run


_CODEC_WATCH = {"codecs.decode": "decode", "codecs.encode": "encode", "encodings.idna.ToUnicode": "ToUnicode", "encodings.idna.ToASCII": "ToASCII", "encodings.idna.nameprep": "nameprep"}


def _caller_side(m, nm: str, decoder: ast.AST) -> str | None:
    """R15.9 judges the decoder on its own.  That is the whole story only when its callers hand it the host name
    without looking at it first: a caller that tests the name (`host.isascii()`, a regex, a comparison of a computed
    value) before the call, or catches what the call raises, shares the work with the decoder.  Returns a text saying
    what the caller does, or None when every call is a plain one (guarded by nothing but truth / None tests)."""
    sites = [c for c in ast.walk(m.tree) if isinstance(c, ast.Call) and isinstance(c.func, ast.Name) and c.func.id == nm]
    sites = [c for c in sites if not _inside(c, decoder)]
    if not sites:
        return f"no direct call of {nm} found in {m.name} (handed on as a value?)"
    for c in sites:
        names = {n.id for a in list(c.args) + [k.value for k in c.keywords] for n in ast.walk(a) if isinstance(n, ast.Name)}
        attrs = {n.attr for a in list(c.args) + [k.value for k in c.keywords] for n in ast.walk(a) if isinstance(n, ast.Attribute)}
        fn: ast.AST | None = c
        while fn is not None and not isinstance(fn, (ast.FunctionDef, ast.AsyncFunctionDef, ast.Lambda)):
            par = getattr(fn, "_parent", None)
            if isinstance(par, ast.Try) and fn in par.body and par.handlers:
                return f"the call `{norm(c)[:50]}` stands in a try block of its caller"
            fn = par
        if fn is None:
            return f"the call `{norm(c)[:50]}` is not inside a function"
        tests: list[ast.AST] = []
        for n in ast.walk(fn):
            if isinstance(n, (ast.If, ast.IfExp, ast.While, ast.Assert)):
                tests.append(n.test)
            elif isinstance(n, ast.BoolOp):
                tests += n.values
            elif isinstance(n, ast.comprehension):
                tests += n.ifs
            elif isinstance(n, ast.match_case) and n.guard is not None:
                tests.append(n.guard)
        for tst in tests:
            for k in ast.walk(tst):
                if not isinstance(k, ast.Call) or k is c or _inside(c, k):
                    continue
                touched = any((isinstance(x, ast.Name) and x.id in names) or (isinstance(x, ast.Attribute) and x.attr in attrs) for x in ast.walk(k))
                if touched:
                    return f"the caller tests the name with `{norm(k)[:50]}` before / around `{norm(c)[:40]}`"
    return None


def _r15_9(ctx: Ctx, u2i: FuncInfo) -> None:
    repo = ctx.repo
    m = u2i.module
    unq_names = sorted(n for n, v in m.assigns.items() if len(v) == 1 and isinstance(v[0], ast.Call) and dotted(v[0].func) and dotted(v[0].func).rsplit(".", 1)[-1] == "_make_unquote_part")

    def whole(nm: str, where: FuncInfo, why: str) -> None:
        """the clause judged on uri_to_iri as a whole: the work is shared between the function and its decoder"""
        res = _whole_host_eval(ctx, u2i, unq_names, True)
        via = f" (through uri_to_iri as a whole: {why})"
        texts = {"inv": (f"{nm} undoes the IDNA host step at every label position", f"{nm} inverts idna per label", "every encoded label is decoded"),
                 "kept": (f"{nm} leaves a label that is not valid punycode as it is and decodes the others", f"{nm} keeps invalid label", f"`{_BAD_ACE_LABEL}` stays next to decoded labels at every position"),
                 "plain": (f"{nm} returns plain ASCII names and IP literals unchanged", f"{nm} ascii unchanged", "unchanged"),
                 "done": (f"{nm} returns an already decoded name unchanged (uri_to_iri is a fixpoint on IRIs)", f"{nm} decoded unchanged", "unchanged")}
        for g, (inst, key, good) in texts.items():
            badl, n = res[g]
            ctx.ob("R15.9", inst, not badl, (f"{n} names evaluated: {good}" if not badl else f"{len(badl)} of {n} names: " + "; ".join(badl[:3])) + via, where, where.node, key)

    if not _HOST_DECODERS:
        if _HOST_WHOLE:
            whole("uri_to_iri", u2i, _HOST_WHOLE[0])
            ctx.floor("R15.9", "host names evaluated through the host decoder", sum(k for _, k in _whole_host_eval(ctx, u2i, unq_names, True).values()), 80)
            return
        ctx.error("R15.9: no host decoder of urls.py found on uri_to_iri's hostname route (see R15.3): nothing to evaluate")
        return
    idn, bad_names = _host_families()
    # what iri_to_uri's host step (R15.2: encode('idna').decode('ascii')) makes of the names: python's own codec
    try:
        enc = {h: h.encode("idna").decode("ascii") for h in idn + bad_names}
    except UnicodeError as x:
        raise AnalysisError(f"R15.9: this python's idna codec does not encode a representative name: {x}")
    if any("xn--" not in enc[h] or not enc[h].isascii() for h in idn) or any(_BAD_ACE_LABEL not in enc[h].split(".") for h in bad_names):
        raise AnalysisError("R15.9: this python's idna codec does not behave as the representative names assume")
    total = 0
    for nm in list(_HOST_DECODERS):
        fi = m.functions[nm]
        fn = CFn(fi.node, fi.module)

        def through(arg: str) -> tuple[bool, t.Any]:
            ip = Concrete(repo)
            for fq, kind in _CODEC_WATCH.items():
                ip.watch[fq] = _codec_fn(kind)
            try:
                return True, ip.call(fn, [arg], {})
            except ConcreteRaise as x:
                return False, x.what

        def judge(cases: list[tuple[str, str]]) -> list[str]:
            """cases: (argument, expected result) -> the ones that come back different, as text."""
            nonlocal total
            out = []
            for arg, want in cases:
                total += 1
                ok, got = through(arg)
                if not ok:
                    out.append(f"{nm}({arg!r}) raises {got}")
                elif got != want:
                    out.append(f"{nm}({arg!r}) -> {got!r}, not {want!r}")
            return out

        try:
            inv = judge([(enc[h], h) for h in idn])
            kept = judge([(enc[h], h) for h in bad_names])
            plain = judge([(h, h) for h in _PLAIN_HOSTS])
            done = judge([(h, h) for h in idn])
        except NotConcrete as x:
            ctx.error(f"R15.9: {nm} cannot be evaluated from the source: {x.why}" + (f" (line {getattr(x.node, 'lineno', '?')})" if x.node is not None else ""))
            return

        if inv or kept or plain or done:
            shared = _caller_side(m, nm, fi.node)
            if shared is not None:
                # the caller tests the name / catches what the decoder raises: the clause is about both together
                whole(nm, fi, shared)
                total += sum(k for _, k in _whole_host_eval(ctx, u2i, unq_names, True).values())
                continue

        def fact(badl: list[str], n: int, good: str) -> str:
            return f"{n} names evaluated: {good}" if not badl else f"{len(badl)} of {n} names: " + "; ".join(badl[:3])

        ctx.ob("R15.9", f"{nm} undoes the IDNA host step at every label position", not inv, fact(inv, len(idn), "every encoded label is decoded, in 1 to 4 label names with the encoded labels at every combination of positions"), fi, fi.node, f"{nm} inverts idna per label")
        ctx.ob("R15.9", f"{nm} leaves a label that is not valid punycode as it is and decodes the others", not kept, fact(kept, len(bad_names), f"`{_BAD_ACE_LABEL}` stays next to decoded labels at every position"), fi, fi.node, f"{nm} keeps invalid label")
        ctx.ob("R15.9", f"{nm} returns plain ASCII names and IP literals unchanged", not plain, fact(plain, len(_PLAIN_HOSTS), "unchanged"), fi, fi.node, f"{nm} ascii unchanged")
        ctx.ob("R15.9", f"{nm} returns an already decoded name unchanged (uri_to_iri is a fixpoint on IRIs)", not done, fact(done, len(idn), "unchanged"), fi, fi.node, f"{nm} decoded unchanged")
    ctx.floor("R15.9", "host names evaluated through the host decoder", total, 80)
