"""R12.5 / R12.6 of C12: what the state machine matcher proposes as a redirect.

Nothing here is keyed on a local's name or on the text of a statement.  The
roles are found structurally:

* the *slash signal* is the exception whose handler raises ``RequestPath``;
* a *walk* is a function of the matcher that raises the signal itself, a
  *walk result function* is a walk or a helper all of whose returns are calls to
  walk result functions (``_match_path`` wrapping ``_match``);
* *admission* of a rule is decided semantically: the condition atoms of one loop
  iteration are mapped to the three facts ``<rule>.methods is None``,
  ``<request method> in <rule>.methods`` and ``<rule>.websocket == <request
  flag>`` (through aliases, boolean flag locals and one-return predicate
  helpers); the CFG of the iteration is then walked under every valuation of
  those facts in which the rule does NOT admit the request, and the proposal
  must be unreachable.  if/else flips, ``continue`` style, merged or split
  conditions, De Morgan rewrites and flag locals all give the same answer.
"""

from __future__ import annotations

import ast
import itertools
import typing as t

from .. import astq
from ..cfg import CFG, Node, cfg_of
from ..dataflow import Def, ReachingDefs
from ..loader import AnalysisError, FuncInfo, const_str, dotted, is_self_attr, nested_funcs, norm, walk_no_nested
from ..report import Ctx

MATCHER = "routing.matcher.StateMachineMatcher"
FACTS = ("mnone", "min", "weq")
BOTH = frozenset([True, False])


def _clone(e: ast.AST) -> ast.AST:
    """a fresh copy of an expression (the engine's trees carry parent links, so deepcopy would copy the module)."""
    return ast.parse(ast.unparse(e), mode="eval").body


def _fn_params(fn: ast.AST) -> list[str]:
    a = fn.args  # type: ignore[attr-defined]
    return [x.arg for x in a.posonlyargs + a.args + a.kwonlyargs] + ([a.vararg.arg] if a.vararg else []) + ([a.kwarg.arg] if a.kwarg else [])


def _handler_names(h: ast.ExceptHandler) -> set[str]:
    if h.type is None:
        return set()
    return {(dotted(x) or "?").rsplit(".", 1)[-1] for x in (h.type.elts if isinstance(h.type, ast.Tuple) else [h.type])}


def str_pieces(e: ast.AST) -> list[tuple[str, t.Any]]:
    """string composition -> ("c", text) / ("e", expr) pieces, constants fused."""
    out: list[tuple[str, t.Any]] = []

    def go(x: ast.AST) -> None:
        s = const_str(x)
        if s is not None:
            out.append(("c", s))
        elif isinstance(x, ast.JoinedStr):
            for v in x.values:
                if isinstance(v, ast.FormattedValue) and v.conversion == -1 and v.format_spec is None:
                    go(v.value)
                else:
                    go(v) if isinstance(v, ast.Constant) else out.append(("e", v))
        elif isinstance(x, ast.BinOp) and isinstance(x.op, ast.Add):
            go(x.left)
            go(x.right)
        else:
            out.append(("e", x))

    go(e)
    fused: list[tuple[str, t.Any]] = []
    for p in out:
        if p[0] == "c" and p[1] == "":
            continue
        if p[0] == "c" and fused and fused[-1][0] == "c":
            fused[-1] = ("c", fused[-1][1] + p[1])
        else:
            fused.append(p)
    return fused


class Matcher:
    """the functions of the matcher class (nested ones included), their CFGs and the roles found in them."""

    def __init__(self, ctx: Ctx):
        self.ctx = ctx
        repo = ctx.repo
        self.mcls = repo.cls(MATCHER)
        repo.func(f"{MATCHER}.match")  # slot: must exist
        rule_cls = repo.cls("routing.rules.Rule")
        rinit = rule_cls.methods.get("__init__")
        for attr in ("methods", "websocket", "strict_slashes"):
            if rinit is None or not any(is_self_attr(n, attr) and isinstance(n.ctx, ast.Store) for n in ast.walk(rinit.node)):
                raise AnalysisError(f"Rule.__init__ does not set self.{attr}")
        self.graphs: dict[int, CFG] = {}
        self.owner_fi: dict[int, FuncInfo] = {}
        self.funcs: list[ast.AST] = []
        self.scope: dict[int, dict[str, ast.AST]] = {}  # id(fn) -> local function names visible from fn
        self._rd: dict[int, ReachingDefs] = {}
        for fi in self.mcls.methods.values():
            ctx.saw(fi)
            inner = dict(nested_funcs(fi.node))
            for f in [fi.node] + list(inner.values()):
                self.funcs.append(f)
                self.graphs[id(f)] = cfg_of(fi) if f is fi.node else CFG(f)
                self.owner_fi[id(f)] = fi
                self.scope[id(f)] = inner
        self.signals = self._signals()
        self.escaping = self._escaping()
        self.results = self._result_functions()

    # -- basics ----------------------------------------------------------
    def rd(self, fn: ast.AST) -> ReachingDefs:
        r = self._rd.get(id(fn))
        if r is None:
            r = self._rd[id(fn)] = ReachingDefs(self.graphs[id(fn)], _fn_params(fn))
        return r

    def owner(self, n: ast.AST) -> ast.AST:
        cur = astq.parent(n)
        while cur is not None and not (isinstance(cur, (ast.FunctionDef, ast.AsyncFunctionDef)) and id(cur) in self.graphs):
            cur = astq.parent(cur)
        if cur is None:
            raise AnalysisError("statement outside the analysed matcher functions")
        return cur

    def request_params(self, fn: ast.AST) -> set[str]:
        """parameters of the function and of the functions enclosing it (the request's method / websocket flag)."""
        out: set[str] = set()
        cur: ast.AST | None = fn
        while cur is not None:
            if isinstance(cur, (ast.FunctionDef, ast.AsyncFunctionDef)):
                out |= set(_fn_params(cur))
            cur = astq.parent(cur)
        out.discard("self")
        return out

    def callee(self, call: ast.Call, fn: ast.AST) -> ast.AST | None:
        """a function of the matcher called here: a local function by name, or a method through self."""
        f = call.func
        if isinstance(f, ast.Name):
            return self.scope[id(fn)].get(f.id)
        if isinstance(f, ast.Attribute) and astq.is_name(f.value, "self"):
            _, what = self.ctx.repo.lookup(self.mcls, f.attr)
            if isinstance(what, FuncInfo) and id(what.node) in self.graphs:
                return what.node
        return None

    def bind(self, call: ast.Call, callee: ast.AST) -> dict[str, ast.AST] | None:
        """parameter -> argument expression (None when the call uses * / **)."""
        a = callee.args  # type: ignore[attr-defined]
        pos = [x.arg for x in a.posonlyargs + a.args]
        if pos and pos[0] == "self" and isinstance(call.func, ast.Attribute):
            pos = pos[1:]
        out: dict[str, ast.AST] = {}
        for i, x in enumerate(call.args):
            if isinstance(x, ast.Starred) or i >= len(pos):
                return None
            out[pos[i]] = x
        for kw in call.keywords:
            if kw.arg is None:
                return None
            out[kw.arg] = kw.value
        return out

    # -- roles --------------------------------------------------------------
    def _signals(self) -> set[str]:
        signals: set[str] = set()
        for f in self.funcs:
            for tr in walk_no_nested(f):
                if isinstance(tr, ast.Try):
                    for h in tr.handlers:
                        if any(astq.raised_name(r) == "RequestPath" for r in astq.raises_of(h, nested=False)):
                            signals |= _handler_names(h)
        signals -= {"?", "Exception", "BaseException"}
        if not signals:
            raise AnalysisError("StateMachineMatcher: no handler that turns a slash signal into RequestPath")
        return signals

    def protected(self, n: ast.AST, fn: ast.AST) -> ast.Try | None:
        """the try statement of fn in whose *body* n lies and that handles the slash signal."""
        child, cur = n, astq.parent(n)
        while cur is not None and cur is not fn:
            if isinstance(cur, ast.Try) and any(child is st for st in cur.body):
                if any(h.type is None or (_handler_names(h) & (self.signals | {"Exception", "BaseException"})) for h in cur.handlers):
                    return cur
            child, cur = cur, astq.parent(cur)
        return None

    def signal_raises(self, fn: ast.AST) -> list[ast.Raise]:
        return [r for r in walk_no_nested(fn) if isinstance(r, ast.Raise) and astq.raised_name(r) in self.signals]

    def _escaping(self) -> set[int]:
        """functions out of which the slash signal can propagate to the caller."""
        esc = {id(f) for f in self.funcs if any(self.protected(r, f) is None for r in self.signal_raises(f))}
        grew = True
        while grew:
            grew = False
            for f in self.funcs:
                if id(f) in esc:
                    continue
                for c in astq.calls(f, nested=False):
                    cal = self.callee(c, f)
                    if cal is not None and id(cal) in esc and self.protected(c, f) is None:
                        esc.add(id(f))
                        grew = True
                        break
        return esc

    def _result_functions(self) -> set[int]:
        """the walk (raises the signal itself) and helpers all of whose returns are calls to such functions."""
        res = {id(f) for f in self.funcs if self.signal_raises(f)}
        if not res:
            raise AnalysisError("StateMachineMatcher: the slash signal is handled but never raised")
        grew = True
        while grew:
            grew = False
            for f in self.funcs:
                if id(f) in res:
                    continue
                rets = [r for r in astq.returns_of(f) if r.value is not None and not astq.is_none(r.value)]
                if rets and all(isinstance(r.value, ast.Call) and (cal := self.callee(r.value, f)) is not None and id(cal) in res for r in rets):
                    res.add(id(f))
                    grew = True
        return res

    def fname(self, fn: ast.AST) -> str:
        return getattr(fn, "name", "?")


# ---------------------------------------------------------------------
# admission of a rule inside one iteration of a loop over rules


class Iteration:
    def __init__(self, m: Matcher, fn: ast.AST, loop: ast.For, var: str):
        self.m, self.fn, self.loop, self.var = m, fn, loop, var
        self.g = m.graphs[id(fn)]
        self.rd = m.rd(fn)
        self.params = m.request_params(fn)
        head = self.g.node_of(loop)
        if head is None:
            raise AnalysisError("CFG node missing for a loop over rules")
        self.head: Node = head
        self.loop_defs = frozenset(d for d in self.rd.gen[head.id] if d.name == var)
        self.recognised: dict[str, set[str]] = {k: set() for k in FACTS}
        self.pre = self._preconditions()

    def _preconditions(self) -> list[ast.AST]:
        """conditions every rule of the loop satisfies because the iterable is a filtering comprehension
        (`for rule in (r for r in rules if <cond>)`), rewritten onto the loop variable."""
        it: ast.AST = self.loop.iter
        if isinstance(it, ast.Name):
            ds = self.rd.reaching(self.head, it.id)
            d = next(iter(ds)) if len(ds) == 1 else None
            if d is not None and d.kind == "assign" and d.index is None and d.value is not None:
                it = d.value
        if isinstance(it, ast.Call) and isinstance(it.func, ast.Name) and it.func.id in ("list", "tuple", "iter", "sorted", "reversed") and len(it.args) == 1:
            it = it.args[0]
        if not (isinstance(it, (ast.ListComp, ast.GeneratorExp)) and len(it.generators) == 1):
            return []
        gen = it.generators[0]
        if not (isinstance(gen.target, ast.Name) and astq.is_name(it.elt, gen.target.id) and not gen.is_async):
            return []
        inner, var = gen.target.id, self.var

        class S(ast.NodeTransformer):
            def visit_Name(self, n: ast.Name) -> ast.AST:  # noqa: N802
                return ast.Name(id=var, ctx=ast.Load()) if n.id == inner else n

        return [ast.fix_missing_locations(S().visit(_clone(c))) for c in gen.ifs]

    # the loop variable at this node is the rule of the current iteration
    def var_ok(self, node: Node) -> bool:
        ds = self.rd.reaching(node, self.var)
        return bool(ds) and ds <= self.loop_defs

    def fresh(self, d: Def, use: Node) -> bool:
        """d is executed in the current iteration before use: use is not reachable from the loop head around d."""
        if d.node is None or d.node is use:
            return False
        return use.id not in self.g.reach(self.head, avoid_nodes=[d.node])

    def binds_var(self, d: Def) -> bool:
        """where d was evaluated, the loop variable (if d's value mentions it) was the rule of the current iteration."""
        return d.node is not None and d.value is not None and (self.var not in astq.names_in(d.value) or self.var_ok(d.node))

    def single_def(self, name: str, node: Node) -> Def | None:
        ds = self.rd.reaching(node, name)
        if len(ds) != 1:
            return None
        d = next(iter(ds))
        if d.kind not in ("assign", "walrus") or d.index is not None or d.value is None or not self.fresh(d, node):
            return None
        return d

    def expand(self, e: ast.AST, node: Node, depth: int = 0) -> ast.AST:
        """replace locals that are plain aliases of a name / attribute chain (defined in this iteration) by what they stand for."""
        it = self

        class T(ast.NodeTransformer):
            def visit_Name(self, n: ast.Name) -> ast.AST:  # noqa: N802
                if isinstance(n.ctx, ast.Load) and depth < 4:
                    d = it.single_def(n.id, node)
                    if d is not None and isinstance(d.value, (ast.Name, ast.Attribute)) and d.node is not None and it.binds_var(d):
                        return it.expand(d.value, d.node, depth + 1)
                return n

        return ast.fix_missing_locations(T().visit(_clone(e)))

    def sem(self, e: ast.AST) -> tuple[str, bool] | None:
        """the admission fact a condition atom states, with its polarity."""
        cp = astq.cmp_parts(e)
        if cp is None:
            return None
        left, op, right = cp
        var = self.var

        def is_attr(x: ast.AST, attr: str) -> bool:
            return isinstance(x, ast.Attribute) and x.attr == attr and astq.is_name(x.value, var)

        def is_req(x: ast.AST) -> bool:
            return isinstance(x, ast.Name) and x.id in self.params and x.id != var

        if is_req(left) and is_attr(right, "methods") and isinstance(op, (ast.In, ast.NotIn)):
            return "min", isinstance(op, ast.In)
        if (is_attr(left, "methods") and astq.is_none(right)) or (astq.is_none(left) and is_attr(right, "methods")):
            if isinstance(op, (ast.Is, ast.Eq)):
                return "mnone", True
            if isinstance(op, (ast.IsNot, ast.NotEq)):
                return "mnone", False
        if (is_req(left) and is_attr(right, "websocket")) or (is_attr(left, "websocket") and is_req(right)):
            if isinstance(op, (ast.Eq, ast.Is)):
                return "weq", True
            if isinstance(op, (ast.NotEq, ast.IsNot)):
                return "weq", False
        return None

    def truth(self, e: ast.AST, node: Node, val: dict[str, bool], depth: int = 0) -> frozenset[bool]:
        """possible truth values of a condition evaluated at node, under a valuation of the admission facts."""
        if depth > 6:
            return BOTH
        if isinstance(e, ast.BoolOp):
            opts = [self.truth(v, node, val, depth) for v in e.values]
            fn = all if isinstance(e.op, ast.And) else any
            return frozenset(fn(c) for c in itertools.product(*opts))
        if isinstance(e, ast.UnaryOp) and isinstance(e.op, ast.Not):
            return frozenset(not x for x in self.truth(e.operand, node, val, depth))
        if isinstance(e, ast.NamedExpr):
            return self.truth(e.value, node, val, depth)
        if isinstance(e, ast.Constant):
            return frozenset([bool(e.value)])
        if isinstance(e, ast.IfExp):
            out: set[bool] = set()
            for c in self.truth(e.test, node, val, depth):
                out |= self.truth(e.body if c else e.orelse, node, val, depth)
            return frozenset(out)
        if isinstance(e, ast.Call) and astq.is_name(e.func, "bool") and len(e.args) == 1 and not e.keywords:
            return self.truth(e.args[0], node, val, depth)
        x = self.expand(e, node)
        s = self.sem(x)
        if s is not None and self.var_ok(node):
            self.recognised[s[0]].add(norm(e))
            return frozenset([val[s[0]] == s[1]]) if s[0] in val else BOTH
        if isinstance(e, ast.Name):  # a boolean flag local: its defining condition, evaluated where it was defined
            d = self.single_def(e.id, node)
            if d is not None and d.node is not None and isinstance(d.value, (ast.BoolOp, ast.Compare, ast.UnaryOp, ast.Name, ast.Call, ast.IfExp, ast.NamedExpr)) and self.binds_var(d):
                return self.truth(d.value, d.node, val, depth + 1)
            return BOTH
        if isinstance(e, ast.Call):  # a one-return predicate helper of the matcher, with the arguments substituted
            cal = self.m.callee(e, self.fn)
            if cal is not None:
                body = [st for st in cal.body if not (isinstance(st, ast.Expr) and isinstance(st.value, ast.Constant))]  # type: ignore[attr-defined]
                binding = self.m.bind(e, cal)
                if len(body) == 1 and isinstance(body[0], ast.Return) and body[0].value is not None and binding is not None and all(isinstance(v, (ast.Name, ast.Attribute, ast.Constant)) for v in binding.values()):

                    class S(ast.NodeTransformer):
                        def visit_Name(self, n: ast.Name) -> ast.AST:  # noqa: N802
                            return _clone(binding[n.id]) if n.id in binding else n

                    return self.truth(ast.fix_missing_locations(S().visit(_clone(body[0].value))), node, val, depth + 1)
        return BOTH

    def blocked(self, val: dict[str, bool]) -> list[tuple[Node, str]]:
        out: list[tuple[Node, str]] = []
        for tn in self.g.tests():
            if tn.kind != "test" or tn.ast is None:
                continue
            ts = self.truth(tn.ast, tn, val)
            if ts == frozenset([True]):
                out.append((tn, "F"))
            elif ts == frozenset([False]):
                out.append((tn, "T"))
        return out

    def reaches(self, node: Node, val: dict[str, bool]) -> list[Node] | None:
        """a path of one iteration from the loop head to node that is consistent with the valuation, if any."""
        bl = self.blocked(val)
        if node.id not in self.g.reach(self.head, avoid_edges=bl):
            return None
        return self.g.path(self.head, node, avoid_edges=bl) or [self.head, node]

    def refuting(self, what: str) -> list[dict[str, bool]]:
        """the valuations in which the rule does not admit the request's method / websocket flag."""
        out = []
        for bits in itertools.product((False, True), repeat=len(FACTS)):
            v = dict(zip(FACTS, bits))
            admits = (v["mnone"] or v["min"]) if what == "methods" else v["weq"]
            if not admits:
                out.append(v)
        return out

    def admitted_only(self, node: Node, what: str) -> tuple[bool, str]:
        body = [s for s, lb in self.head.succs if lb == "T"]
        for v in self.refuting(what):
            if body and any(self.truth(c, body[0], v) == frozenset([False]) for c in self.pre):
                continue  # no rule of the (filtered) iterable is in this situation
            p = self.reaches(node, v)
            if p is not None:
                seen = sorted(set().union(*(self.recognised[k] for k in (("mnone", "min") if what == "methods" else ("weq",)))))
                vtxt = ", ".join(f"{k}={v[k]}" for k in (("mnone", "min") if what == "methods" else ("weq",)))
                how = f"condition atoms recognised as {what} admission: {seen}" if seen else f"no test of `{self.var}.{what}` against the request inside the loop"
                return False, f"{how}; with [{vtxt}] this path of one iteration still reaches it: {self.g.fmt_path(p)}"
        keys = ("mnone", "min") if what == "methods" else ("weq",)
        seen = sorted(set().union(*(self.recognised[k] for k in keys)))
        return True, f"unreachable within one iteration under every valuation in which `{self.var}` does not admit the request ({what}); deciding atoms: {seen}"


def _rule_loops(m: Matcher, n: ast.AST, fn: ast.AST) -> list[tuple[ast.For, str]]:
    out = []
    cur = astq.parent(n)
    while cur is not None and cur is not fn:
        if isinstance(cur, ast.For) and isinstance(cur.target, ast.Name):
            out.append((cur, cur.target.id))
        cur = astq.parent(cur)
    return out


# ---------------------------------------------------------------------
# the walked path


class Paths:
    """which path value a walk call walks, and whether two expressions denote the same value."""

    def __init__(self, m: Matcher):
        self.m = m

    def _one_def(self, name: str, node: Node, fn: ast.AST) -> Def | None:
        ds = self.m.rd(fn).reaching(node, name)
        if len(ds) != 1:
            return None
        d = next(iter(ds))
        return d if d.kind in ("assign", "walrus") and d.index is None and d.value is not None and d.node is not None else None

    def split_operands(self, e: ast.AST, node: Node, fn: ast.AST, depth: int = 0) -> list[tuple[ast.AST, Node]]:
        """the X of every `X.split("/")` the expression is built from (following locals with one definition)."""
        out: list[tuple[ast.AST, Node]] = []
        if isinstance(e, ast.Call) and isinstance(e.func, ast.Attribute) and e.func.attr == "split" and ((e.args and const_str(e.args[0]) == "/") or any(k.arg == "sep" and const_str(k.value) == "/" for k in e.keywords)):
            return [(e.func.value, node)]
        if isinstance(e, ast.Name):
            d = self._one_def(e.id, node, fn) if depth < 5 else None
            if d is not None:
                return self.split_operands(d.value, d.node, fn, depth + 1)  # type: ignore[arg-type]
            return []
        if isinstance(e, (ast.Lambda, ast.FunctionDef, ast.AsyncFunctionDef)):
            return []
        for ch in ast.iter_child_nodes(e):
            out += self.split_operands(ch, node, fn, depth)
        return out

    def walked(self, call: ast.Call, fn: ast.AST, depth: int = 0) -> list[tuple[ast.AST, Node]] | None:
        """the path value(s) walked by a call that can raise the slash signal, as expressions of fn."""
        m = self.m
        g = m.graphs[id(fn)]
        node = g.node_of(call)
        cal = m.callee(call, fn)
        if node is None or cal is None or depth > 3:
            return None
        if any(m.protected(r, cal) is None for r in m.signal_raises(cal)):
            out: list[tuple[ast.AST, Node]] = []
            for a in list(call.args) + [k.value for k in call.keywords]:
                out += self.split_operands(a.value if isinstance(a, ast.Starred) else a, node, fn)
            return out or None
        binding = m.bind(call, cal)
        if binding is None:
            return None
        out = []
        crd = m.rd(cal)
        for c2 in astq.calls(cal, nested=False):
            c2cal = m.callee(c2, cal)
            if c2cal is None or id(c2cal) not in m.escaping or m.protected(c2, cal) is not None:
                continue
            inner = self.walked(c2, cal, depth + 1)
            if inner is None:
                return None
            for x, xn in inner:
                if not (isinstance(x, ast.Name) and x.id in binding and all(d.kind == "param" for d in crd.reaching(xn, x.id))):
                    return None
                out.append((binding[x.id], node))
        return out or None

    def resolve(self, e: ast.AST, node: Node, fn: ast.AST) -> tuple[ast.AST, Node]:
        for _ in range(5):
            if not isinstance(e, ast.Name):
                break
            d = self._one_def(e.id, node, fn)
            if d is None or not isinstance(d.value, ast.Name):
                break
            e, node = d.value, d.node  # type: ignore[assignment]
        return e, node

    def same(self, a: ast.AST, an: Node, b: ast.AST, bn: Node, fn: ast.AST) -> tuple[bool, str]:
        a, an = self.resolve(a, an, fn)
        b, bn = self.resolve(b, bn, fn)
        if norm(a) != norm(b):
            return False, f"`{norm(a)}` is walked but `{norm(b)}` is used"
        rd = self.m.rd(fn)
        for nm in sorted({x.id for x in ast.walk(a) if isinstance(x, ast.Name)}):
            da, db = rd.reaching(an, nm), rd.reaching(bn, nm)
            if da != db:
                def show(ds: t.Iterable[Def]) -> str:
                    return "{" + ", ".join(sorted("parameter" if d.kind == "param" else f"L{getattr(d.stmt, 'lineno', '?')}: {norm(d.value)[:40] if d.value is not None else d.kind}" for d in ds)) + "}"
                return False, f"`{nm}` has definitions {show(da)} where it is walked but {show(db)} where it is used"
        return True, f"`{norm(a)}` with the same reaching definitions at both places"


# ---------------------------------------------------------------------


def matcher_rules(ctx: Ctx) -> None:
    m = Matcher(ctx)

    # ---- R12.5 (a): every raise of the slash signal
    proposals = [(r, f) for f in m.funcs for r in m.signal_raises(f)]
    ctx.floor("R12.5", "slash-redirect proposals (raise of the slash signal) in the matcher", len(proposals), 1)
    for i, (r, fn) in enumerate(proposals):
        g = m.graphs[id(fn)]
        where = m.owner_fi[id(fn)]
        node = g.node_of(r)
        loops = _rule_loops(m, r, fn)
        if not loops or node is None:
            raise AnalysisError(f"slash signal raised outside a loop over rules at {where.loc(r)}")
        for attr, what in (("methods", "the request method"), ("websocket", "the websocket flag")):
            verdicts = []
            for loop, var in loops:
                ok, fact = Iteration(m, fn, loop, var).admitted_only(node, attr)
                verdicts.append((ok, fact, loop, var))
                if ok:
                    break
            ok, fact, loop, var = next((v for v in verdicts if v[0]), verdicts[0])
            tag = f"proposal {i + 1} (for {var} in {norm(loop.iter)})"
            ctx.ob("R12.5", f"slash redirect {tag} is proposed only for a rule admitting {what}", ok, fact, where, r, f"slash proposal {i + 1} admits {attr}")

    # calibration: the same semantic admission test guards the rule-returning sites of the loops over rules
    n_ret = 0
    for fn in m.funcs:
        g = m.graphs[id(fn)]
        for ret in astq.returns_of(fn):
            node = g.node_of(ret)
            for loop, var in _rule_loops(m, ret, fn):
                v = ret.value
                if node is not None and isinstance(v, ast.Tuple) and v.elts and astq.is_name(v.elts[0], var) and Iteration(m, fn, loop, var).admitted_only(node, "methods")[0]:
                    n_ret += 1
                    break
    ctx.floor("R12.5", "rule-returning sites decided to be reached only for a rule admitting the request method", n_ret, 1)

    # ---- R12.5 (b): every RequestPath raised outside the slash-signal handlers
    k = 0
    for fn in m.funcs:
        g = m.graphs[id(fn)]
        where = m.owner_fi[id(fn)]
        rd = m.rd(fn)
        for r in (n for n in walk_no_nested(fn) if isinstance(n, ast.Raise) and astq.raised_name(n) == "RequestPath"):
            h = astq.enclosing(r, (ast.ExceptHandler,))
            if isinstance(h, ast.ExceptHandler) and m.owner(h) is fn and _handler_names(h) and _handler_names(h) <= m.signals:
                continue  # vetted by (a) and R12.6
            k += 1
            node = g.node_of(r)
            vetted = None
            for tn, lb in (g.guards(node) if node is not None else []):
                if tn.kind != "test" or tn.ast is None:
                    continue
                a = tn.ast
                name: str | None = None
                cp = astq.cmp_parts(a)
                if cp is not None:
                    left, op, right = cp
                    if astq.is_none(left) and not astq.is_none(right):
                        left, right = right, left
                    if isinstance(left, ast.NamedExpr):
                        left = left.target
                    if isinstance(left, ast.Name) and astq.is_none(right) and ((isinstance(op, (ast.Is, ast.Eq)) and lb == "F") or (isinstance(op, (ast.IsNot, ast.NotEq)) and lb == "T")):
                        name = left.id
                elif isinstance(a, ast.Name) and lb == "T":
                    name = a.id  # truthiness: None is false
                elif isinstance(a, ast.NamedExpr) and lb == "T":
                    name = a.target.id
                if name is None:
                    continue
                defs = rd.after(tn, name) if isinstance(a, ast.NamedExpr) or (cp is not None and any(isinstance(x, ast.NamedExpr) for x in (cp[0], cp[2]))) else rd.reaching(tn, name)
                if defs and all(d.kind in ("assign", "walrus") and d.index is None and isinstance(d.value, ast.Call) and (cal := m.callee(d.value, fn)) is not None and id(cal) in m.results for d in defs):
                    vetted = f"`{norm(a)}`={lb} with {name} = {norm(next(iter(defs)).value)[:60]}"
            ctx.ob("R12.5", "merged-slash redirect is proposed only after the merged path matched a rule", vetted is not None,
                   f"dominated by {vetted}" if vetted else "the raise is not dominated by a `<result of the state machine walk> is not None` edge", where, r, f"merged-slash proposal {k} after a match")
    ctx.floor("R12.5", "RequestPath sites outside the slash-signal handlers", k, 1)

    # ---- R12.6: the slash redirect of a walk of P goes to P + '/'
    paths = Paths(m)
    n_h = 0
    j = 0
    for fn in m.funcs:
        g = m.graphs[id(fn)]
        where = m.owner_fi[id(fn)]
        for tr in sorted((x for x in walk_no_nested(fn) if isinstance(x, ast.Try)), key=lambda x: x.lineno):
            for h in tr.handlers:
                raises = [r for r in astq.raises_of(h, nested=False) if astq.raised_name(r) == "RequestPath"]
                if not raises or not (_handler_names(h) & m.signals):
                    continue
                n_h += 1
                walks = [c for st in tr.body for c in astq.calls(st, nested=False)
                         if (cal := m.callee(c, fn)) is not None and id(cal) in m.escaping]
                if not walks:
                    raise AnalysisError(f"the handler of the slash signal at {where.loc(h)} protects no call that can raise it")
                for r in raises:
                    arg = r.exc.args[0] if isinstance(r.exc, ast.Call) and r.exc.args else None
                    rnode = g.node_of(r)
                    if arg is None or rnode is None:
                        raise AnalysisError(f"RequestPath raised without a path at {where.loc(r)}")
                    ps = str_pieces(arg)
                    if len(ps) == 1 and ps[0][0] == "e" and isinstance(ps[0][1], ast.Name):  # target put together in a local first
                        d = paths._one_def(ps[0][1].id, rnode, fn)
                        if d is not None and isinstance(d.value, (ast.JoinedStr, ast.BinOp)):
                            ps, rnode = str_pieces(d.value), d.node  # type: ignore[assignment]
                    shaped = len(ps) == 2 and ps[0][0] == "e" and ps[1] == ("c", "/")
                    for c in walks:
                        j += 1
                        key = f"slash redirect target {j} is the walked path"
                        inst = f"{m.fname(fn)}: a missing-slash signal from `{norm(c)[:70]}` redirects to the path that was walked + '/'"
                        if not shaped:
                            ctx.ob("R12.6", inst, False, f"the target `{norm(arg)}` is not <the walked path> + '/'", where, r, key)
                            continue
                        walked = paths.walked(c, fn)
                        if not walked or len({norm(x) for x, _ in walked}) != 1:
                            raise AnalysisError(f"cannot identify the path value walked by `{norm(c)[:70]}` at {where.loc(c)} (no single `<path>.split('/')` among its arguments)")
                        ok, fact = paths.same(walked[0][0], walked[0][1], ps[0][1], rnode, fn)
                        ctx.ob("R12.6", inst, ok, fact + f" (target `{norm(arg)}`)", where, r, key)
    ctx.floor("R12.6", "handlers that turn the slash signal into RequestPath", n_h, 1)
