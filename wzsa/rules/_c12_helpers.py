"""R12.5 / R12.6 / R12.7 of C12 (what the state machine matcher proposes as a redirect), the constant executor of R12.8 / R12.9,
and R12.10 / R12.11 (the rule-pair predicate of the defaults redirect and the build order, decided on symbolic rules).

Nothing here is keyed on a local's name or on the text of a statement.  The
roles are found structurally:

* the *slash signal* is the exception whose handler raises ``RequestPath``;
* a *walk* is a function of the matcher that raises the signal itself, a
  *walk result function* is a walk or a helper all of whose returns are calls to
  walk result functions (``_match_path`` wrapping ``_match``);
* *admission* of a rule is decided semantically: the condition atoms of one loop
  iteration are mapped to the three facts ``<rule>.methods is None``,
  ``<request method> in <rule>.methods`` and ``<rule>.websocket == <request
  flag>`` (through aliases, boolean flag locals and one-return predicate
  helpers); the CFG of the iteration is then walked under every valuation of
  those facts in which the rule does NOT admit the request, and the proposal
  must be unreachable.  if/else flips, ``continue`` style, merged or split
  conditions, De Morgan rewrites and flag locals all give the same answer.
"""

from __future__ import annotations

import ast
import itertools
import typing as t

from .. import astq
from ..cfg import CFG, Node, cfg_of
from ..dataflow import Def, ReachingDefs
from ..loader import AnalysisError, FuncInfo, const_str, dotted, is_self_attr, nested_funcs, norm, walk_no_nested
from ..report import Ctx

MATCHER = "routing.matcher.StateMachineMatcher"
FACTS = ("mnone", "min", "weq")
BOTH = frozenset([True, False])


def _clone(e: ast.AST) -> ast.AST:
    """a fresh copy of an expression (the engine's trees carry parent links, so deepcopy would copy the module)."""
    return ast.parse(ast.unparse(e), mode="eval").body


def _fn_params(fn: ast.AST) -> list[str]:
    a = fn.args  # type: ignore[attr-defined]
    return [x.arg for x in a.posonlyargs + a.args + a.kwonlyargs] + ([a.vararg.arg] if a.vararg else []) + ([a.kwarg.arg] if a.kwarg else [])


def _handler_names(h: ast.ExceptHandler) -> set[str]:
    if h.type is None:
        return set()
    return {(dotted(x) or "?").rsplit(".", 1)[-1] for x in (h.type.elts if isinstance(h.type, ast.Tuple) else [h.type])}


def composed_parts(e: ast.AST) -> list[ast.AST] | None:
    """the operands, in order, of a string put together by an equivalent of an f-string: ``"{}/{}".format(a, b)``
    (plain positional fields only), ``"%s/%s" % (a, b)`` (%s only), ``"sep".join((a, b))`` (literal tuple / list).
    Constant text comes back as ast.Constant nodes.  None: not such a composition."""
    if isinstance(e, ast.Call) and isinstance(e.func, ast.Attribute) and not e.keywords and not any(isinstance(a, ast.Starred) for a in e.args):
        tmpl = const_str(e.func.value)
        if tmpl is not None and e.func.attr == "join" and len(e.args) == 1 and isinstance(e.args[0], (ast.Tuple, ast.List)) and not any(isinstance(x, ast.Starred) for x in e.args[0].elts):
            out: list[ast.AST] = []
            for i, x in enumerate(e.args[0].elts):
                if i and tmpl:
                    out.append(ast.Constant(value=tmpl))
                out.append(x)
            return out
        if tmpl is not None and e.func.attr == "format":
            import string

            out, auto = [], 0
            try:
                fields = list(string.Formatter().parse(tmpl))
            except ValueError:
                return None
            for text, field, spec, conv in fields:
                if text:
                    out.append(ast.Constant(value=text))
                if field is None:
                    continue
                if spec or conv or not (field == "" or field.isdigit()):
                    return None
                idx = int(field) if field else auto
                auto += 1
                if idx >= len(e.args):
                    return None
                out.append(e.args[idx])
            return out
    if isinstance(e, ast.BinOp) and isinstance(e.op, ast.Mod):
        tmpl = const_str(e.left)
        if tmpl is not None:
            args = list(e.right.elts) if isinstance(e.right, ast.Tuple) else [e.right]
            if any(isinstance(a, ast.Starred) for a in args):
                return None
            bits = tmpl.split("%s")
            if any("%" in b.replace("%%", "") for b in bits) or len(bits) - 1 != len(args):
                return None
            out = []
            for i, b in enumerate(bits):
                if b:
                    out.append(ast.Constant(value=b.replace("%%", "%")))
                if i < len(args):
                    out.append(args[i])
            return out
    return None


def str_pieces(e: ast.AST) -> list[tuple[str, t.Any]]:
    """string composition -> ("c", text) / ("e", expr) pieces, constants fused."""
    out: list[tuple[str, t.Any]] = []

    def go(x: ast.AST) -> None:
        s = const_str(x)
        comp = composed_parts(x) if s is None else None
        if s is not None:
            out.append(("c", s))
        elif comp is not None:
            for y in comp:
                go(y)
        elif isinstance(x, ast.JoinedStr):
            for v in x.values:
                if isinstance(v, ast.FormattedValue) and v.conversion == -1 and v.format_spec is None:
                    go(v.value)
                else:
                    go(v) if isinstance(v, ast.Constant) else out.append(("e", v))
        elif isinstance(x, ast.BinOp) and isinstance(x.op, ast.Add):
            go(x.left)
            go(x.right)
        else:
            out.append(("e", x))

    go(e)
    fused: list[tuple[str, t.Any]] = []
    for p in out:
        if p[0] == "c" and p[1] == "":
            continue
        if p[0] == "c" and fused and fused[-1][0] == "c":
            fused[-1] = ("c", fused[-1][1] + p[1])
        else:
            fused.append(p)
    return fused


class Matcher:
    """the functions of the matcher class (nested ones included), their CFGs and the roles found in them."""

    def __init__(self, ctx: Ctx):
        self.ctx = ctx
        repo = ctx.repo
        self.mcls = repo.cls(MATCHER)
        repo.func(f"{MATCHER}.match")  # slot: must exist
        rule_cls = repo.cls("routing.rules.Rule")
        rinit = rule_cls.methods.get("__init__")
        for attr in ("methods", "websocket", "strict_slashes"):
            if rinit is None or not any(is_self_attr(n, attr) and isinstance(n.ctx, ast.Store) for n in ast.walk(rinit.node)):
                raise AnalysisError(f"Rule.__init__ does not set self.{attr}")
        self.graphs: dict[int, CFG] = {}
        self.owner_fi: dict[int, FuncInfo] = {}
        self.funcs: list[ast.AST] = []
        self.scope: dict[int, dict[str, ast.AST]] = {}  # id(fn) -> local function names visible from fn
        self._rd: dict[int, ReachingDefs] = {}
        for fi in self.mcls.methods.values():
            ctx.saw(fi)
            inner = dict(nested_funcs(fi.node))
            for f in [fi.node] + list(inner.values()):
                self.funcs.append(f)
                self.graphs[id(f)] = cfg_of(fi) if f is fi.node else CFG(f)
                self.owner_fi[id(f)] = fi
                self.scope[id(f)] = inner
        self.signals = self._signals()
        self.escaping = self._escaping()
        self.results = self._result_functions()

    # -- basics ----------------------------------------------------------
    def rd(self, fn: ast.AST) -> ReachingDefs:
        r = self._rd.get(id(fn))
        if r is None:
            r = self._rd[id(fn)] = ReachingDefs(self.graphs[id(fn)], _fn_params(fn))
        return r

    def owner(self, n: ast.AST) -> ast.AST:
        cur = astq.parent(n)
        while cur is not None and not (isinstance(cur, (ast.FunctionDef, ast.AsyncFunctionDef)) and id(cur) in self.graphs):
            cur = astq.parent(cur)
        if cur is None:
            raise AnalysisError("statement outside the analysed matcher functions")
        return cur

    def request_params(self, fn: ast.AST) -> set[str]:
        """parameters of the function and of the functions enclosing it (the request's method / websocket flag)."""
        out: set[str] = set()
        cur: ast.AST | None = fn
        while cur is not None:
            if isinstance(cur, (ast.FunctionDef, ast.AsyncFunctionDef)):
                out |= set(_fn_params(cur))
            cur = astq.parent(cur)
        out.discard("self")
        return out

    def callee(self, call: ast.Call, fn: ast.AST) -> ast.AST | None:
        """a function of the matcher called here: a local function by name, or a method through self."""
        f = call.func
        if isinstance(f, ast.Name):
            return self.scope[id(fn)].get(f.id)
        if isinstance(f, ast.Attribute) and astq.is_name(f.value, "self"):
            _, what = self.ctx.repo.lookup(self.mcls, f.attr)
            if isinstance(what, FuncInfo) and id(what.node) in self.graphs:
                return what.node
        return None

    def bind(self, call: ast.Call, callee: ast.AST) -> dict[str, ast.AST] | None:
        """parameter -> argument expression (None when the call uses * / **)."""
        a = callee.args  # type: ignore[attr-defined]
        pos = [x.arg for x in a.posonlyargs + a.args]
        if pos and pos[0] == "self" and isinstance(call.func, ast.Attribute):
            pos = pos[1:]
        out: dict[str, ast.AST] = {}
        for i, x in enumerate(call.args):
            if isinstance(x, ast.Starred) or i >= len(pos):
                return None
            out[pos[i]] = x
        for kw in call.keywords:
            if kw.arg is None:
                return None
            out[kw.arg] = kw.value
        return out

    # -- roles --------------------------------------------------------------
    def path_sites(self, fn: ast.AST) -> list[tuple[ast.Raise, ast.AST | None, Node | None, ast.AST]]:
        """the places where a RequestPath target is decided: (raise, target expression, node where it is evaluated,
        statement).  `raise RequestPath(t)` with t a local that only plain assignments reach (the target chosen per
        branch, raised once) gives one site per assignment."""
        g, rd = self.graphs[id(fn)], self.rd(fn)
        out: list[tuple[ast.Raise, ast.AST | None, Node | None, ast.AST]] = []
        for r in walk_no_nested(fn):
            if not (isinstance(r, ast.Raise) and astq.raised_name(r) == "RequestPath"):
                continue
            arg = r.exc.args[0] if isinstance(r.exc, ast.Call) and r.exc.args else None
            node = g.node_of(r)
            if isinstance(arg, ast.Name) and node is not None:
                ds = rd.reaching(node, arg.id)
                if ds and all(d.kind == "assign" and d.index is None and d.value is not None and d.node is not None and d.stmt is not None for d in ds):
                    out += [(r, d.value, d.node, d.stmt) for d in sorted(ds, key=lambda d: getattr(d.stmt, "lineno", 0))]
                    continue
            out.append((r, arg, node, r))
        return out

    def site_handler(self, site: tuple[ast.Raise, ast.AST | None, Node | None, ast.AST], fn: ast.AST) -> ast.ExceptHandler | None:
        """the handler of fn in which the site's raise - else its target assignment - lies."""
        for x in (site[0], site[3]):
            h = astq.enclosing(x, (ast.ExceptHandler,))
            if isinstance(h, ast.ExceptHandler) and self.owner(h) is fn:
                return h
        return None

    def _signals(self) -> set[str]:
        signals: set[str] = set()
        for f in self.funcs:
            for site in self.path_sites(f):
                h = self.site_handler(site, f)
                if h is not None:
                    signals |= _handler_names(h)
        signals -= {"?", "Exception", "BaseException"}
        if not signals:
            raise AnalysisError("StateMachineMatcher: no handler that turns a slash signal into RequestPath")
        return signals

    def protected(self, n: ast.AST, fn: ast.AST) -> ast.Try | None:
        """the try statement of fn in whose *body* n lies and that handles the slash signal."""
        child, cur = n, astq.parent(n)
        while cur is not None and cur is not fn:
            if isinstance(cur, ast.Try) and any(child is st for st in cur.body):
                if any(h.type is None or (_handler_names(h) & (self.signals | {"Exception", "BaseException"})) for h in cur.handlers):
                    return cur
            child, cur = cur, astq.parent(cur)
        return None

    def signal_raises(self, fn: ast.AST) -> list[ast.Raise]:
        return [r for r in walk_no_nested(fn) if isinstance(r, ast.Raise) and astq.raised_name(r) in self.signals]

    def _escaping(self) -> set[int]:
        """functions out of which the slash signal can propagate to the caller."""
        esc = {id(f) for f in self.funcs if any(self.protected(r, f) is None for r in self.signal_raises(f))}
        grew = True
        while grew:
            grew = False
            for f in self.funcs:
                if id(f) in esc:
                    continue
                for c in astq.calls(f, nested=False):
                    cal = self.callee(c, f)
                    if cal is not None and id(cal) in esc and self.protected(c, f) is None:
                        esc.add(id(f))
                        grew = True
                        break
        return esc

    def _result_functions(self) -> set[int]:
        """the walk (raises the signal itself) and helpers all of whose returns are calls to such functions."""
        res = {id(f) for f in self.funcs if self.signal_raises(f)}
        if not res:
            raise AnalysisError("StateMachineMatcher: the slash signal is handled but never raised")
        grew = True
        while grew:
            grew = False
            for f in self.funcs:
                if id(f) in res:
                    continue
                rets = [r for r in astq.returns_of(f) if r.value is not None and not astq.is_none(r.value)]
                if rets and all(isinstance(r.value, ast.Call) and (cal := self.callee(r.value, f)) is not None and id(cal) in res for r in rets):
                    res.add(id(f))
                    grew = True
        return res

    def fname(self, fn: ast.AST) -> str:
        return getattr(fn, "name", "?")


# ---------------------------------------------------------------------
# admission of a rule inside one iteration of a loop over rules


class Iteration:
    def __init__(self, m: Matcher, fn: ast.AST, loop: ast.For, var: str):
        self.m, self.fn, self.loop, self.var = m, fn, loop, var
        self.g = m.graphs[id(fn)]
        self.rd = m.rd(fn)
        self.params = m.request_params(fn)
        head = self.g.node_of(loop)
        if head is None:
            raise AnalysisError("CFG node missing for a loop over rules")
        self.head: Node = head
        self.loop_defs = frozenset(d for d in self.rd.gen[head.id] if d.name == var)
        self.recognised: dict[str, set[str]] = {k: set() for k in FACTS}
        self.pre = self._preconditions()

    def _preconditions(self) -> list[ast.AST]:
        """conditions every rule of the loop satisfies because the iterable is a filtering comprehension
        (`for rule in (r for r in rules if <cond>)`), rewritten onto the loop variable."""
        it: ast.AST = self.loop.iter
        if isinstance(it, ast.Name):
            ds = self.rd.reaching(self.head, it.id)
            d = next(iter(ds)) if len(ds) == 1 else None
            if d is not None and d.kind == "assign" and d.index is None and d.value is not None:
                it = d.value
        if isinstance(it, ast.Call) and isinstance(it.func, ast.Name) and it.func.id in ("list", "tuple", "iter", "sorted", "reversed") and len(it.args) == 1:
            it = it.args[0]
        if not (isinstance(it, (ast.ListComp, ast.GeneratorExp)) and len(it.generators) == 1):
            return []
        gen = it.generators[0]
        if not (isinstance(gen.target, ast.Name) and astq.is_name(it.elt, gen.target.id) and not gen.is_async):
            return []
        inner, var = gen.target.id, self.var

        class S(ast.NodeTransformer):
            def visit_Name(self, n: ast.Name) -> ast.AST:  # noqa: N802
                return ast.Name(id=var, ctx=ast.Load()) if n.id == inner else n

        return [ast.fix_missing_locations(S().visit(_clone(c))) for c in gen.ifs]

    # the loop variable at this node is the rule of the current iteration
    def var_ok(self, node: Node) -> bool:
        ds = self.rd.reaching(node, self.var)
        return bool(ds) and ds <= self.loop_defs

    def fresh(self, d: Def, use: Node) -> bool:
        """d is executed in the current iteration before use: use is not reachable from the loop head around d."""
        if d.node is None or d.node is use:
            return False
        return use.id not in self.g.reach(self.head, avoid_nodes=[d.node])

    def binds_var(self, d: Def) -> bool:
        """where d was evaluated, the loop variable (if d's value mentions it) was the rule of the current iteration."""
        return d.node is not None and d.value is not None and (self.var not in astq.names_in(d.value) or self.var_ok(d.node))

    def single_def(self, name: str, node: Node) -> Def | None:
        ds = self.rd.reaching(node, name)
        if len(ds) != 1:
            return None
        d = next(iter(ds))
        if d.kind not in ("assign", "walrus") or d.index is not None or d.value is None or not self.fresh(d, node):
            return None
        return d

    def expand(self, e: ast.AST, node: Node, depth: int = 0) -> ast.AST:
        """replace locals that are plain aliases of a name / attribute chain (defined in this iteration) by what they stand for."""
        it = self

        class T(ast.NodeTransformer):
            def visit_Name(self, n: ast.Name) -> ast.AST:  # noqa: N802
                if isinstance(n.ctx, ast.Load) and depth < 4:
                    d = it.single_def(n.id, node)
                    if d is not None and isinstance(d.value, (ast.Name, ast.Attribute)) and d.node is not None and it.binds_var(d):
                        return it.expand(d.value, d.node, depth + 1)
                return n

        return ast.fix_missing_locations(T().visit(_clone(e)))

    def sem(self, e: ast.AST) -> tuple[str, bool] | None:
        """the admission fact a condition atom states, with its polarity."""
        cp = astq.cmp_parts(e)
        if cp is None:
            return None
        left, op, right = cp
        var = self.var

        def is_attr(x: ast.AST, attr: str) -> bool:
            return isinstance(x, ast.Attribute) and x.attr == attr and astq.is_name(x.value, var)

        def is_req(x: ast.AST) -> bool:
            return isinstance(x, ast.Name) and x.id in self.params and x.id != var

        if is_req(left) and is_attr(right, "methods") and isinstance(op, (ast.In, ast.NotIn)):
            return "min", isinstance(op, ast.In)
        if (is_attr(left, "methods") and astq.is_none(right)) or (astq.is_none(left) and is_attr(right, "methods")):
            if isinstance(op, (ast.Is, ast.Eq)):
                return "mnone", True
            if isinstance(op, (ast.IsNot, ast.NotEq)):
                return "mnone", False
        if (is_req(left) and is_attr(right, "websocket")) or (is_attr(left, "websocket") and is_req(right)):
            if isinstance(op, (ast.Eq, ast.Is)):
                return "weq", True
            if isinstance(op, (ast.NotEq, ast.IsNot)):
                return "weq", False
        return None

    def truth(self, e: ast.AST, node: Node, val: dict[str, bool], depth: int = 0) -> frozenset[bool]:
        """possible truth values of a condition evaluated at node, under a valuation of the admission facts."""
        if depth > 6:
            return BOTH
        if isinstance(e, ast.BoolOp):
            opts = [self.truth(v, node, val, depth) for v in e.values]
            fn = all if isinstance(e.op, ast.And) else any
            return frozenset(fn(c) for c in itertools.product(*opts))
        if isinstance(e, ast.UnaryOp) and isinstance(e.op, ast.Not):
            return frozenset(not x for x in self.truth(e.operand, node, val, depth))
        if isinstance(e, ast.NamedExpr):
            return self.truth(e.value, node, val, depth)
        if isinstance(e, ast.Constant):
            return frozenset([bool(e.value)])
        if isinstance(e, ast.IfExp):
            out: set[bool] = set()
            for c in self.truth(e.test, node, val, depth):
                out |= self.truth(e.body if c else e.orelse, node, val, depth)
            return frozenset(out)
        if isinstance(e, ast.Call) and astq.is_name(e.func, "bool") and len(e.args) == 1 and not e.keywords:
            return self.truth(e.args[0], node, val, depth)
        x = self.expand(e, node)
        s = self.sem(x)
        if s is not None and self.var_ok(node):
            self.recognised[s[0]].add(norm(e))
            return frozenset([val[s[0]] == s[1]]) if s[0] in val else BOTH
        if isinstance(e, ast.Name):  # a boolean flag local: its defining condition, evaluated where it was defined
            d = self.single_def(e.id, node)
            if d is not None and d.node is not None and isinstance(d.value, (ast.BoolOp, ast.Compare, ast.UnaryOp, ast.Name, ast.Call, ast.IfExp, ast.NamedExpr)) and self.binds_var(d):
                return self.truth(d.value, d.node, val, depth + 1)
            return BOTH
        if isinstance(e, ast.Call):  # a one-return predicate helper of the matcher, with the arguments substituted
            cal = self.m.callee(e, self.fn)
            if cal is not None:
                body = [st for st in cal.body if not (isinstance(st, ast.Expr) and isinstance(st.value, ast.Constant))]  # type: ignore[attr-defined]
                binding = self.m.bind(e, cal)
                if len(body) == 1 and isinstance(body[0], ast.Return) and body[0].value is not None and binding is not None and all(isinstance(v, (ast.Name, ast.Attribute, ast.Constant)) for v in binding.values()):

                    class S(ast.NodeTransformer):
                        def visit_Name(self, n: ast.Name) -> ast.AST:  # noqa: N802
                            return _clone(binding[n.id]) if n.id in binding else n

                    return self.truth(ast.fix_missing_locations(S().visit(_clone(body[0].value))), node, val, depth + 1)
        return BOTH

    def blocked(self, val: dict[str, bool]) -> list[tuple[Node, str]]:
        out: list[tuple[Node, str]] = []
        for tn in self.g.tests():
            if tn.kind != "test" or tn.ast is None:
                continue
            ts = self.truth(tn.ast, tn, val)
            if ts == frozenset([True]):
                out.append((tn, "F"))
            elif ts == frozenset([False]):
                out.append((tn, "T"))
        return out

    def reaches(self, node: Node, val: dict[str, bool]) -> list[Node] | None:
        """a path of one iteration from the loop head to node that is consistent with the valuation, if any."""
        bl = self.blocked(val)
        if node.id not in self.g.reach(self.head, avoid_edges=bl):
            return None
        return self.g.path(self.head, node, avoid_edges=bl) or [self.head, node]

    def refuting(self, what: str) -> list[dict[str, bool]]:
        """the valuations in which the rule does not admit the request's method / websocket flag."""
        out = []
        for bits in itertools.product((False, True), repeat=len(FACTS)):
            v = dict(zip(FACTS, bits))
            admits = (v["mnone"] or v["min"]) if what == "methods" else v["weq"]
            if not admits:
                out.append(v)
        return out

    def admitted_only(self, node: Node, what: str) -> tuple[bool, str]:
        body = [s for s, lb in self.head.succs if lb == "T"]
        for v in self.refuting(what):
            if body and any(self.truth(c, body[0], v) == frozenset([False]) for c in self.pre):
                continue  # no rule of the (filtered) iterable is in this situation
            p = self.reaches(node, v)
            if p is not None:
                seen = sorted(set().union(*(self.recognised[k] for k in (("mnone", "min") if what == "methods" else ("weq",)))))
                vtxt = ", ".join(f"{k}={v[k]}" for k in (("mnone", "min") if what == "methods" else ("weq",)))
                how = f"condition atoms recognised as {what} admission: {seen}" if seen else f"no test of `{self.var}.{what}` against the request inside the loop"
                return False, f"{how}; with [{vtxt}] this path of one iteration still reaches it: {self.g.fmt_path(p)}"
        keys = ("mnone", "min") if what == "methods" else ("weq",)
        seen = sorted(set().union(*(self.recognised[k] for k in keys)))
        return True, f"unreachable within one iteration under every valuation in which `{self.var}` does not admit the request ({what}); deciding atoms: {seen}"


def _rule_loops(m: Matcher, n: ast.AST, fn: ast.AST) -> list[tuple[ast.For, str]]:
    out = []
    cur = astq.parent(n)
    while cur is not None and cur is not fn:
        if isinstance(cur, ast.For) and isinstance(cur.target, ast.Name):
            out.append((cur, cur.target.id))
        cur = astq.parent(cur)
    return out


# ---------------------------------------------------------------------
# the walked path


class Paths:
    """which path value a walk call walks, and whether two expressions denote the same value."""

    def __init__(self, m: Matcher):
        self.m = m

    def _one_def(self, name: str, node: Node, fn: ast.AST) -> Def | None:
        ds = self.m.rd(fn).reaching(node, name)
        if len(ds) != 1:
            return None
        d = next(iter(ds))
        return d if d.kind in ("assign", "walrus") and d.index is None and d.value is not None and d.node is not None else None

    def split_operands(self, e: ast.AST, node: Node, fn: ast.AST, depth: int = 0) -> list[tuple[ast.AST, Node]]:
        """the X of every `X.split("/")` the expression is built from (following locals with one definition)."""
        out: list[tuple[ast.AST, Node]] = []
        if isinstance(e, ast.Call) and isinstance(e.func, ast.Attribute) and e.func.attr == "split" and ((e.args and const_str(e.args[0]) == "/") or any(k.arg == "sep" and const_str(k.value) == "/" for k in e.keywords)):
            return [(e.func.value, node)]
        if isinstance(e, ast.Name):
            d = self._one_def(e.id, node, fn) if depth < 5 else None
            if d is not None:
                return self.split_operands(d.value, d.node, fn, depth + 1)  # type: ignore[arg-type]
            return []
        if isinstance(e, (ast.Lambda, ast.FunctionDef, ast.AsyncFunctionDef)):
            return []
        for ch in ast.iter_child_nodes(e):
            out += self.split_operands(ch, node, fn, depth)
        return out

    def walked(self, call: ast.Call, fn: ast.AST, depth: int = 0) -> list[tuple[ast.AST, Node]] | None:
        """the path value(s) walked by a call that can raise the slash signal, as expressions of fn."""
        m = self.m
        g = m.graphs[id(fn)]
        node = g.node_of(call)
        cal = m.callee(call, fn)
        if node is None or cal is None or depth > 3:
            return None
        if any(m.protected(r, cal) is None for r in m.signal_raises(cal)):
            out: list[tuple[ast.AST, Node]] = []
            for a in list(call.args) + [k.value for k in call.keywords]:
                out += self.split_operands(a.value if isinstance(a, ast.Starred) else a, node, fn)
            return out or None
        binding = m.bind(call, cal)
        if binding is None:
            return None
        out = []
        crd = m.rd(cal)
        for c2 in astq.calls(cal, nested=False):
            c2cal = m.callee(c2, cal)
            if c2cal is None or id(c2cal) not in m.escaping or m.protected(c2, cal) is not None:
                continue
            inner = self.walked(c2, cal, depth + 1)
            if inner is None:
                return None
            for x, xn in inner:
                if not (isinstance(x, ast.Name) and x.id in binding and all(d.kind == "param" for d in crd.reaching(xn, x.id))):
                    return None
                out.append((binding[x.id], node))
        return out or None

    def resolve(self, e: ast.AST, node: Node, fn: ast.AST) -> tuple[ast.AST, Node]:
        for _ in range(5):
            if not isinstance(e, ast.Name):
                break
            d = self._one_def(e.id, node, fn)
            if d is None or not isinstance(d.value, ast.Name):
                break
            e, node = d.value, d.node  # type: ignore[assignment]
        return e, node

    def same(self, a: ast.AST, an: Node, b: ast.AST, bn: Node, fn: ast.AST, via: tuple[Node | None, ast.ExceptHandler] | None = None) -> tuple[bool, str]:
        """via = (node of the walk call, handler): b is evaluated in the handler, entered by the signal that call raised.
        A name the handler does not rebind before b then has the value it had when the call was made (the definitions
        that reach the call), although the handler's entry joins the definitions of every statement of the try body."""
        a, an = self.resolve(a, an, fn)
        b, bn = self.resolve(b, bn, fn)
        if norm(a) != norm(b):
            return False, f"`{norm(a)}` is walked but `{norm(b)}` is used"
        rd = self.m.rd(fn)
        inside = {id(x) for x in ast.walk(via[1])} if via is not None else set()
        if via is not None and (bn.ast is None or id(bn.ast) not in inside):
            via = None  # b stands for a value computed outside the handler (an alias made before the walk): compared there
        for nm in sorted({x.id for x in ast.walk(a) if isinstance(x, ast.Name)}):
            da, db = rd.reaching(an, nm), rd.reaching(bn, nm)
            if via is not None and via[0] is not None and not any(d.stmt is not None and id(d.stmt) in inside for d in db) \
                    and not (via[0].ast is not None and nm in _store_names(via[0].ast)):
                db = rd.reaching(via[0], nm)
            if da != db:
                def show(ds: t.Iterable[Def]) -> str:
                    return "{" + ", ".join(sorted("parameter" if d.kind == "param" else f"L{getattr(d.stmt, 'lineno', '?')}: {norm(d.value)[:40] if d.value is not None else d.kind}" for d in ds)) + "}"
                return False, f"`{nm}` has definitions {show(da)} where it is walked but {show(db)} where it is used"
        return True, f"`{norm(a)}` with the same reaching definitions at both places"


# ---------------------------------------------------------------------


def matcher_rules(ctx: Ctx) -> None:
    m = Matcher(ctx)

    # ---- R12.5 (a): every raise of the slash signal
    proposals = [(r, f) for f in m.funcs for r in m.signal_raises(f)]
    ctx.floor("R12.5", "slash-redirect proposals (raise of the slash signal) in the matcher", len(proposals), 1)
    for i, (r, fn) in enumerate(proposals):
        g = m.graphs[id(fn)]
        where = m.owner_fi[id(fn)]
        node = g.node_of(r)
        loops = _rule_loops(m, r, fn)
        if not loops or node is None:
            raise AnalysisError(f"slash signal raised outside a loop over rules at {where.loc(r)}")
        for attr, what in (("methods", "the request method"), ("websocket", "the websocket flag")):
            verdicts = []
            for loop, var in loops:
                ok, fact = Iteration(m, fn, loop, var).admitted_only(node, attr)
                verdicts.append((ok, fact, loop, var))
                if ok:
                    break
            ok, fact, loop, var = next((v for v in verdicts if v[0]), verdicts[0])
            tag = f"proposal {i + 1} (for {var} in {norm(loop.iter)})"
            ctx.ob("R12.5", f"slash redirect {tag} is proposed only for a rule admitting {what}", ok, fact, where, r, f"slash proposal {i + 1} admits {attr}")

    # calibration: the same semantic admission test guards the rule-returning sites of the loops over rules
    n_ret = 0
    for fn in m.funcs:
        g = m.graphs[id(fn)]
        for ret in astq.returns_of(fn):
            node = g.node_of(ret)
            for loop, var in _rule_loops(m, ret, fn):
                v = ret.value
                if node is not None and isinstance(v, ast.Tuple) and v.elts and astq.is_name(v.elts[0], var) and Iteration(m, fn, loop, var).admitted_only(node, "methods")[0]:
                    n_ret += 1
                    break
    ctx.floor("R12.5", "rule-returning sites decided to be reached only for a rule admitting the request method", n_ret, 1)

    # ---- R12.5 (b): every RequestPath raised outside the slash-signal handlers
    k = 0
    for fn in m.funcs:
        g = m.graphs[id(fn)]
        where = m.owner_fi[id(fn)]
        rd = m.rd(fn)
        for site in m.path_sites(fn):
            r, _value, node, at = site
            h = m.site_handler(site, fn)
            if h is not None and _handler_names(h) and _handler_names(h) <= m.signals:
                continue  # vetted by (a) and R12.6
            k += 1
            vetted = None
            rn = g.node_of(r) if at is not r else None  # target chosen in a local: guards of the assignment and of the raise
            for tn, lb in (list(g.guards(node)) if node is not None else []) + (list(g.guards(rn)) if rn is not None else []):
                if tn.kind != "test" or tn.ast is None:
                    continue
                a = tn.ast
                name: str | None = None
                cp = astq.cmp_parts(a)
                if cp is not None:
                    left, op, right = cp
                    if astq.is_none(left) and not astq.is_none(right):
                        left, right = right, left
                    if isinstance(left, ast.NamedExpr):
                        left = left.target
                    if isinstance(left, ast.Name) and astq.is_none(right) and ((isinstance(op, (ast.Is, ast.Eq)) and lb == "F") or (isinstance(op, (ast.IsNot, ast.NotEq)) and lb == "T")):
                        name = left.id
                elif isinstance(a, ast.Name) and lb == "T":
                    name = a.id  # truthiness: None is false
                elif isinstance(a, ast.NamedExpr) and lb == "T":
                    name = a.target.id
                if name is None:
                    continue
                defs = rd.after(tn, name) if isinstance(a, ast.NamedExpr) or (cp is not None and any(isinstance(x, ast.NamedExpr) for x in (cp[0], cp[2]))) else rd.reaching(tn, name)
                if defs and all(d.kind in ("assign", "walrus") and d.index is None and isinstance(d.value, ast.Call) and (cal := m.callee(d.value, fn)) is not None and id(cal) in m.results for d in defs):
                    vetted = f"`{norm(a)}`={lb} with {name} = {norm(next(iter(defs)).value)[:60]}"
            ctx.ob("R12.5", "merged-slash redirect is proposed only after the merged path matched a rule", vetted is not None,
                   f"dominated by {vetted}" if vetted else "the raise is not dominated by a `<result of the state machine walk> is not None` edge", where, r, f"merged-slash proposal {k} after a match")
    ctx.floor("R12.5", "RequestPath sites outside the slash-signal handlers", k, 1)

    # ---- R12.6: the slash redirect of a walk of P goes to P + '/'
    paths = Paths(m)
    n_h = 0
    j = 0
    for fn in m.funcs:
        g = m.graphs[id(fn)]
        where = m.owner_fi[id(fn)]
        for tr in sorted((x for x in walk_no_nested(fn) if isinstance(x, ast.Try)), key=lambda x: x.lineno):
            for h in tr.handlers:
                raises = [site for site in m.path_sites(fn) if m.site_handler(site, fn) is h]
                if not raises or not (_handler_names(h) & m.signals):
                    continue
                n_h += 1
                walks = [c for st in tr.body for c in astq.calls(st, nested=False)
                         if (cal := m.callee(c, fn)) is not None and id(cal) in m.escaping]
                if not walks:
                    raise AnalysisError(f"the handler of the slash signal at {where.loc(h)} protects no call that can raise it")
                for r, arg, rnode, _at in raises:
                    if arg is None or rnode is None:
                        raise AnalysisError(f"RequestPath raised without a path at {where.loc(r)}")
                    ps = str_pieces(arg)  # (a target put together in a local first: the site is the assignment)
                    shaped = len(ps) == 2 and ps[0][0] == "e" and ps[1] == ("c", "/")
                    # a target whose pieces are not all plain values (a call, a conditional, ...) is not understood
                    opaque = [p[1] for p in ps if p[0] == "e" and not isinstance(p[1], (ast.Name, ast.Attribute, ast.Subscript))]
                    if not shaped and opaque:
                        raise AnalysisError(f"the slash redirect target `{norm(arg)}` at {where.loc(r)} is put together in a way that is not followed (`{norm(opaque[0])[:60]}`)")
                    in_handler = rnode.ast is not None and any(x is rnode.ast for x in ast.walk(h))
                    for c in walks:
                        j += 1
                        key = f"slash redirect target {j} is the walked path"
                        inst = f"{m.fname(fn)}: a missing-slash signal from `{norm(c)[:70]}` redirects to the path that was walked + '/'"
                        if not shaped:
                            ctx.ob("R12.6", inst, False, f"the target `{norm(arg)}` is not <the walked path> + '/'", where, r, key)
                            continue
                        walked = paths.walked(c, fn)
                        if not walked or len({norm(x) for x, _ in walked}) != 1:
                            raise AnalysisError(f"cannot identify the path value walked by `{norm(c)[:70]}` at {where.loc(c)} (no single `<path>.split('/')` among its arguments)")
                        ok, fact = paths.same(walked[0][0], walked[0][1], ps[0][1], rnode, fn, via=(g.node_of(c), h) if in_handler else None)
                        ctx.ob("R12.6", inst, ok, fact + f" (target `{norm(arg)}`)", where, r, key)
    ctx.floor("R12.6", "handlers that turn the slash signal into RequestPath", n_h, 1)


# ---------------------------------------------------------------------
# R12.7: the alias-redirect signal carries the complete match result
#
# The matcher hands matched values on at two kinds of places: the returns of ``match`` (the match result) and the
# raises of the alias signal (from which the adapter builds the canonical URL).  The redirect target can only denote
# the same arguments when everything that goes into the result's values has also gone into the signal's values.  What
# "goes into" a mapping is computed as may-flow over the CFG: the definitions reaching the place, every statement that
# writes into the mapping (item store, mutating method call, being passed to a helper) and can still be followed by the
# place under consistent guards, each traced back to the attribute chains / parameters / loop sources it reads.


_MUTATORS = {"update", "setdefault", "__setitem__", "append", "extend", "add", "insert", "__ior__"}
_COPIERS = {"dict", "MultiDict", "OrderedDict", "ImmutableDict", "copy", "deepcopy"}


def _attr_chain(e: ast.AST) -> tuple[ast.AST, list[str]]:
    attrs: list[str] = []
    while isinstance(e, ast.Attribute):
        attrs.insert(0, e.attr)
        e = e.value
    return e, attrs


def _pure_atom(e: ast.AST) -> bool:
    return all(isinstance(n, (ast.Name, ast.Attribute, ast.Compare, ast.Constant, ast.UnaryOp, ast.cmpop, ast.unaryop, ast.expr_context)) for n in ast.walk(e))


class Flow:
    """what may have flowed into a local value at a CFG node of one matcher function."""

    def __init__(self, m: Matcher, fn: ast.AST):
        from ..guards import canon  # local import: keeps the module header as it was

        self.canon = canon
        self.m, self.fn = m, fn
        self.g = m.graphs[id(fn)]
        self.rd = m.rd(fn)
        self._reach: dict[int, set[int]] = {}
        self._guards: dict[int, dict[str, tuple[bool, Node]]] = {}
        self.writes: dict[str, list[tuple[Node, list[ast.AST], str]]] = {}
        for n in self.g.nodes:
            if n.ast is None or n.kind not in ("stmt", "test"):
                continue
            a = n.ast
            if isinstance(a, (ast.Assign, ast.AnnAssign, ast.AugAssign)) and a.value is not None:
                for tg in (a.targets if isinstance(a, ast.Assign) else [a.target]):
                    for x in (tg.elts if isinstance(tg, (ast.Tuple, ast.List)) else [tg]):
                        if isinstance(x, (ast.Subscript, ast.Attribute)):
                            root = astq.chain_root(x)
                            if isinstance(root, ast.Name):
                                flows = [a.value] + ([x.slice] if isinstance(x, ast.Subscript) else [])
                                self.writes.setdefault(root.id, []).append((n, flows, norm(a)[:70]))
            for c in (x for x in [a, *walk_no_nested(a)] if isinstance(x, ast.Call)):
                f = c.func
                args = [x.value if isinstance(x, ast.Starred) else x for x in c.args] + [k.value for k in c.keywords]
                if isinstance(f, ast.Attribute) and isinstance(f.value, ast.Name) and f.attr in _MUTATORS:
                    self.writes.setdefault(f.value.id, []).append((n, args, norm(c)[:70]))
                elif isinstance(a, ast.Expr) and a.value is c:
                    # a call made for its effect with the value among its arguments: a helper that may fill it - unless
                    # the helper is a function of the matcher that stores nothing into that parameter
                    cal = m.callee(c, fn)
                    binding = m.bind(c, cal) if cal is not None else None
                    for x in args:
                        if isinstance(x, ast.Name):
                            if binding is not None and cal is not None:
                                ps = [p_ for p_, v in binding.items() if v is x]
                                if ps and not any(_stores_into(cal, p_) for p_ in ps):
                                    continue
                            others = [y for y in args if y is not x] + ([f.value] if isinstance(f, ast.Attribute) and not astq.is_name(f.value, "self") else [])
                            self.writes.setdefault(x.id, []).append((n, others, norm(c)[:70]))

    def reach_from(self, n: Node) -> set[int]:
        r = self._reach.get(n.id)
        if r is None:
            r = self._reach[n.id] = self.g.reach([s for s, lb in n.succs if lb != "raise"])
        return r

    def guards(self, n: Node) -> dict[str, tuple[bool, Node]]:
        r = self._guards.get(n.id)
        if r is None:
            r = {}
            for tn, lb in self.g.guards(n):
                if tn.kind == "test" and tn.ast is not None and _pure_atom(tn.ast) and tn.id not in self.reach_from(tn):
                    k, p = self.canon(tn.ast)
                    r[k] = ((lb == "T") == p, tn)
            self._guards[n.id] = r
        return r

    def contradict(self, a: Node, b: Node) -> str | None:
        """a and b lie under opposite outcomes of the same pure condition (over the same definitions): no run passes both."""
        ga, gb = self.guards(a), self.guards(b)
        for k, (va, ta) in ga.items():
            if k in gb and gb[k][0] != va:
                tb = gb[k][1]
                if all(self.rd.reaching(ta, nm) == self.rd.reaching(tb, nm) for nm in astq.names_in(ta.ast)):  # type: ignore[arg-type]
                    return k
        return None

    def of_name(self, name: str, node: Node, seen: set[tuple[str, int]], skipped: list[str]) -> set[str]:
        if (name, node.id) in seen:
            return set()
        seen.add((name, node.id))
        defs = self.rd.reaching(node, name)
        if not defs:
            return {name}  # a name of an enclosing scope
        out: set[str] = set()
        for d in defs:
            if d.kind in ("assign", "walrus") and d.value is not None and d.node is not None:
                out |= self.sources(d.value, d.node, seen, skipped)
            elif d.kind == "aug" and d.value is not None and d.node is not None:
                out |= self.of_name(name, d.node, seen, skipped) | self.sources(d.value, d.node, seen, skipped)
            elif d.kind in ("for", "with") and d.value is not None and d.node is not None:
                out |= self.sources(d.value, d.node, seen, skipped) or {name}
            else:
                out.add(name)  # parameter, element of an unpacked call result, exception, ...
        for wn, flows, text in self.writes.get(name, []):
            if wn is node or node.id not in self.reach_from(wn) or not (self.rd.reaching(wn, name) & defs):
                continue
            k = self.contradict(wn, node)
            if k is not None:
                skipped.append(f"`{text}` (only when `{k}` is {self.guards(wn)[k][0]})")
                continue
            for x in flows:
                out |= self.sources(x, wn, seen, skipped)
        return out

    def sources(self, e: ast.AST, node: Node, seen: set[tuple[str, int]], skipped: list[str]) -> set[str]:
        if isinstance(e, ast.Name):
            return self.of_name(e.id, node, seen, skipped)
        if isinstance(e, ast.Attribute):
            base, attrs = _attr_chain(e)
            if isinstance(base, ast.Name):
                roots = self._alias_roots(base.id, node, 0)
                return {r + "." + ".".join(attrs) for r in roots}
            return self.sources(base, node, seen, skipped)
        if isinstance(e, (ast.Lambda, ast.FunctionDef, ast.AsyncFunctionDef, ast.Constant)):
            return set()
        out: set[str] = set()
        if isinstance(e, ast.Call):
            if isinstance(e.func, ast.Attribute):
                out |= self.sources(e.func.value, node, seen, skipped)  # the receiver, not the method name
            kids: list[ast.AST] = list(e.args) + [k.value for k in e.keywords]
        else:
            kids = [ch for ch in ast.iter_child_nodes(e) if isinstance(ch, (ast.expr, ast.comprehension, ast.keyword))]
        for ch in kids:
            if isinstance(ch, ast.comprehension):
                out |= self.sources(ch.iter, node, seen, skipped)
                for c in ch.ifs:
                    out |= self.sources(c, node, seen, skipped)
            elif isinstance(ch, ast.keyword):
                out |= self.sources(ch.value, node, seen, skipped)
            else:
                out |= self.sources(ch.value if isinstance(ch, ast.Starred) else ch, node, seen, skipped)
        return out

    def _alias_roots(self, name: str, node: Node, depth: int) -> set[str]:
        """a local that only stands for another name / attribute chain is replaced by it."""
        defs = self.rd.reaching(node, name)
        if depth < 4 and defs and all(d.kind == "assign" and d.index is None and isinstance(d.value, (ast.Name, ast.Attribute)) and d.node is not None for d in defs):
            out: set[str] = set()
            for d in defs:
                base, attrs = _attr_chain(d.value)  # type: ignore[arg-type]
                if not isinstance(base, ast.Name):
                    return {name}
                for r in self._alias_roots(base.id, d.node, depth + 1):  # type: ignore[arg-type]
                    out.add(".".join([r] + attrs))
            return out
        return {name}


def _stores_into(fn: ast.AST, name: str) -> bool:
    """the function may change the value its local `name` holds: item / attribute store, mutating method, the value
    handed on to another call, or an alias of it made (conservative)."""
    for n in walk_no_nested(fn):
        if isinstance(n, (ast.Subscript, ast.Attribute)) and isinstance(n.ctx, (ast.Store, ast.Del)) and astq.is_name(astq.chain_root(n), name):
            return True
        if isinstance(n, ast.Call):
            if isinstance(n.func, ast.Attribute) and astq.is_name(astq.chain_root(n.func.value), name) and n.func.attr in _MUTATORS | {"pop", "popitem", "clear", "remove", "discard", "sort", "reverse"}:
                return True
            for x in list(n.args) + [k.value for k in n.keywords]:
                x = x.value if isinstance(x, ast.Starred) else x
                if astq.is_name(x, name) and not (isinstance(astq.parent(n), ast.Raise) or isinstance(n.func, ast.Name) and n.func.id in ("len", "bool", "str", "repr", "isinstance", "sorted", "list", "tuple", "dict", "set", "frozenset")):
                    return True
        if isinstance(n, (ast.Assign, ast.AnnAssign, ast.NamedExpr)) and n.value is not None and astq.is_name(n.value, name):
            return True
        if isinstance(n, (ast.Yield, ast.Return)) and n.value is not None and astq.is_name(n.value, name):
            return True
    return False


def _covered(key: str, have: set[str]) -> bool:
    return any(key == k or key.startswith(k + ".") for k in have)


def _mapping_index(annotations: list[ast.AST | None]) -> int | None:
    """the one position whose declared type is a mapping."""
    hits = [i for i, a in enumerate(annotations) if a is not None and any(w in norm(a) for w in ("Mapping", "dict", "Dict"))]
    return hits[0] if len(hits) == 1 else None


def alias_values_rule(ctx: Ctx, m: Matcher | None = None) -> None:
    """R12.7"""
    m = m or Matcher(ctx)
    repo = ctx.repo
    mfi = repo.func(f"{MATCHER}.match")
    fnT = mfi.node
    # the signal: the routing exception the matcher raises with a mapping of matched values
    raises: list[tuple[ast.Raise, ast.AST, str]] = []
    for fn in m.funcs:
        owner = m.owner_fi[id(fn)]
        for r in (x for x in walk_no_nested(fn) if isinstance(x, ast.Raise) and isinstance(x.exc, ast.Call)):
            d = dotted(r.exc.func)
            fq = repo.resolve(owner.module, d, owner.module.local_imports(owner.node)) if d else None
            if fq == "werkzeug.routing.exceptions.RequestAliasRedirect":
                raises.append((r, fn, fq))
    ctx.floor("R12.7", "raises of the alias-redirect signal in the matcher", len(raises), 1)
    sig = repo.try_cls("routing.exceptions.RequestAliasRedirect")
    sinit = sig.methods.get("__init__") if sig is not None else None
    if sinit is None:
        raise AnalysisError("RequestAliasRedirect.__init__ missing")
    sargs = sinit.node.args  # type: ignore[attr-defined]
    sparams = [a for a in sargs.posonlyargs + sargs.args][1:]
    sidx = _mapping_index([a.annotation for a in sparams])
    if sidx is None:
        raise AnalysisError("RequestAliasRedirect.__init__: cannot tell which parameter carries the matched values (no single mapping-typed parameter)")
    sname = sparams[sidx].arg
    # the match result: the mapping element of what match() returns
    rann = getattr(fnT, "returns", None)
    relts = rann.slice.elts if isinstance(rann, ast.Subscript) and isinstance(rann.slice, ast.Tuple) else None
    tidx = _mapping_index(list(relts)) if relts else None
    if tidx is None:
        raise AnalysisError("StateMachineMatcher.match: the return annotation does not name one mapping element (the matched values)")
    flowT = Flow(m, fnT)
    flows: dict[int, Flow] = {id(fnT): flowT}

    def flow_of(fn: ast.AST) -> Flow:
        if id(fn) not in flows:
            flows[id(fn)] = Flow(m, fn)
        return flows[id(fn)]

    # (return statement, the values element, node where it is evaluated, function it belongs to): the literal pairs
    # match() returns, also those of a helper of the matcher whose result match() returns as it is
    results: list[tuple[ast.Return, ast.AST, Node, ast.AST]] = []

    def collect(fn: ast.AST, depth: int) -> None:
        fl = flow_of(fn)
        for ret in astq.returns_of(fn):
            node = fl.g.node_of(ret)
            v: ast.AST | None = ret.value
            if isinstance(v, ast.Name) and node is not None:
                ds = fl.rd.reaching(node, v.id)
                if len(ds) == 1 and next(iter(ds)).kind == "assign" and next(iter(ds)).index is None:
                    d0 = next(iter(ds))
                    v, node = d0.value, d0.node
            cal = m.callee(v, fn) if isinstance(v, ast.Call) else None
            if cal is not None and cal is not fn and id(cal) not in m.results and depth < 2:
                collect(cal, depth + 1)  # `return self._finish(rule, values)`: the pairs that helper returns
                continue
            if node is None or not isinstance(v, ast.Tuple) or len(v.elts) != len(relts or []) or any(isinstance(x, ast.Starred) for x in v.elts):
                raise AnalysisError(f"StateMachineMatcher.match: the return at {mfi.loc(ret)} is not a literal (rule, values) pair")
            results.append((ret, v.elts[tidx], node, fn))

    collect(fnT, 0)
    ctx.floor("R12.7", "returns of the match result in StateMachineMatcher.match", len(results), 1)

    def in_match_terms(fn: ast.AST, keys: set[str], skipped: list[str]) -> set[str]:
        """sources found in a helper, with the helper's parameters replaced by what match() passes for them."""
        if fn is fnT:
            return keys
        params = set(_fn_params(fn))
        calls = [c for c in astq.calls(fnT, nested=False) if m.callee(c, fnT) is fn]
        out: set[str] = set()
        for k in keys:
            root, _, rest = k.partition(".")
            if root not in params:
                out.add(k)
                continue
            if not calls:
                raise AnalysisError(f"{m.fname(fn)} is not called from match(): cannot relate its values to the match result")
            for c in calls:
                b = m.bind(c, fn)
                cn = flowT.g.node_of(c)
                if b is None or root not in b or cn is None:
                    raise AnalysisError(f"call of {m.fname(fn)} at {mfi.loc(c)}: the argument for `{root}` is not passed plainly")
                out |= {s + ("." + rest if rest else "") for s in flowT.sources(b[root], cn, set(), skipped)}
        return out

    for i, (r, fn, _fq) in enumerate(raises):
        where = m.owner_fi[id(fn)]
        arg = astq.arg_or_kw(r.exc, sidx, sname)  # type: ignore[arg-type]
        if arg is None:
            raise AnalysisError(f"alias-redirect signal raised without its `{sname}` argument at {where.loc(r)}")
        skipped: list[str] = []
        flowR = flow_of(fn)
        rn = flowR.g.node_of(r)
        if rn is None:
            raise AnalysisError("CFG node missing for the alias raise")
        own = flowR.sources(arg, rn, set(), skipped)  # in the terms of the function that raises
        have_T: set[str] | None = None
        for j, (ret, elt, tnode, gfn) in enumerate(results):
            want = flow_of(gfn).sources(elt, tnode, set(), [])
            if gfn is fn:
                have = own  # raise and result in one function: same names, compared directly
            else:
                # different functions: both in the terms of match() (a helper's parameters replaced by the arguments
                # match() passes)
                if have_T is None:
                    have_T = in_match_terms(fn, own, skipped)
                have, want = have_T, in_match_terms(gfn, want, [])
            missing = sorted(k for k in want if not _covered(k, have))
            tag = f"alias signal {i + 1}" + (f" / result {j + 1}" if len(results) > 1 else "")
            fact = f"match result `{norm(elt)}` is made from {sorted(want)}; the signal's `{norm(arg)}` from {sorted(have)}"
            if missing:
                fact += f"; missing where the signal is raised: {missing}"
                if skipped:
                    fact += f" (not counted: {'; '.join(dict.fromkeys(skipped))})"
            ctx.ob("R12.7", f"{m.fname(fn)}: the values raised with the alias-redirect signal include everything the match result's values are made from", not missing, fact, where, r, f"{tag} carries the complete match result")


# ---------------------------------------------------------------------
# a small executor over constants (R12.8)
#
# Runs one function's CFG forward with an environment of *known constant* locals (everything else is unknown), forking
# on tests whose outcome is unknown, and reports the values watched expressions take where they are evaluated.  It is
# path sensitive, so `x = a` / `if x is None: x = b` / `y = x in {...}` is decided per path, in whatever order and
# spelling the statements come.  Only parses; evaluates nothing but Python constants.


class _Unknown:
    def __repr__(self) -> str:
        return "?"


UNKNOWN = _Unknown()


class FDict(tuple):
    """a constant dict display: tuple of (key, value) pairs."""


class Obj:
    """a symbolic object (one rule of a map): class + the attributes that matter; two objects are equal iff they are
    the same object (`tag`)."""

    __slots__ = ("tag", "cls", "attrs")

    def __init__(self, tag: str, cls: t.Any, attrs: dict[str, t.Any]):
        self.tag, self.cls, self.attrs = tag, cls, attrs

    def __eq__(self, o: object) -> bool:
        return isinstance(o, Obj) and o.tag == self.tag

    def __ne__(self, o: object) -> bool:
        return not self.__eq__(o)

    def __hash__(self) -> int:
        return hash(("Obj", self.tag))

    def __repr__(self) -> str:
        return f"<{self.tag}>"


class BudgetExceeded(Exception):
    pass


_STR_METHODS = {"lower", "upper", "strip", "lstrip", "rstrip", "startswith", "endswith", "removeprefix", "removesuffix", "casefold", "partition", "rpartition", "join"}
_SET_METHODS = {"issuperset", "issubset", "isdisjoint", "union", "intersection", "difference", "symmetric_difference", "copy"}
_BUILTINS = {"str", "bool", "frozenset", "set", "tuple", "list", "len", "int"}


def _uniq(xs: t.Iterable[t.Any]) -> list[t.Any]:
    out: list[t.Any] = []
    for x in xs:
        if not any(x is y or (x is not UNKNOWN and y is not UNKNOWN and type(x) is type(y) and x == y) for y in out):
            out.append(x)
    return out


def _truths(vals: t.Iterable[t.Any]) -> set[bool]:
    out: set[bool] = set()
    for v in vals:
        if v is UNKNOWN:
            out |= {True, False}
        else:
            out.add(bool(v))
    return out


def _store_names(node: ast.AST) -> set[str]:
    out: set[str] = set()
    for n in [node, *walk_no_nested(node)]:
        if isinstance(n, ast.Name) and isinstance(n.ctx, (ast.Store, ast.Del)):
            out.add(n.id)
        elif isinstance(n, (ast.FunctionDef, ast.AsyncFunctionDef, ast.ClassDef)):
            out.add(n.name)
        elif isinstance(n, ast.alias):
            out.add((n.asname or n.name).split(".")[0])
        elif isinstance(n, ast.ExceptHandler) and n.name:
            out.add(n.name)
    return out


class _Scope:
    def __init__(self, fi: FuncInfo, stack: tuple[str, ...]):
        self.fi = fi
        self.stack = stack
        self.locals = set(fi.params) | _store_names(fi.node)


class ConstExec:
    def __init__(self, repo: t.Any, selfattrs: dict[str, t.Any], budget: int = 20000, fill: dict[str, t.Any] | None = None):
        self.repo = repo
        self.selfattrs = selfattrs  # attribute (or dotted attribute chain) of the implicit `self` -> constant
        self.budget = budget
        # function fq -> the value its one parameter that the calling context leaves open is taken to have
        self.fill = fill or {}
        self._memo: dict[tuple, list[t.Any]] = {}

    # -- exploration ----------------------------------------------------
    def explore(self, fi: FuncInfo, params: dict[str, t.Any], watch: t.Sequence[ast.AST] = (), stack: tuple[str, ...] = (), budget: int | None = None) -> tuple[list[t.Any], dict[int, list[t.Any]]]:
        cfg = cfg_of(fi)
        sc = _Scope(fi, stack + (fi.fq,))
        watch_at: dict[int, list[ast.AST]] = {}
        for w in watch:
            n = cfg.node_of(getattr(w, "_anchor", w))  # a synthetic expression is evaluated where its anchor is
            if n is None:
                raise AnalysisError(f"no CFG node for `{norm(w)[:60]}` in {fi.qualname}")
            watch_at.setdefault(n.id, []).append(w)
        seen: dict[int, list[t.Any]] = {id(w): [] for w in watch}
        rets: list[t.Any] = []
        work: list[tuple[Node, dict[str, t.Any]]] = [(cfg.entry, {k: v for k, v in params.items() if v is not UNKNOWN})]
        visited: set[tuple] = set()
        steps, limit = 0, budget or self.budget
        while work:
            node, env = work.pop()
            key = (node.id, frozenset((k, type(v).__name__, v) for k, v in env.items()))
            if key in visited:
                continue
            visited.add(key)
            steps += 1
            if steps > limit:
                raise BudgetExceeded(fi.qualname)
            for w in watch_at.get(node.id, ()):
                seen[id(w)] = _uniq(seen[id(w)] + self.ev(w, dict(env), sc))
            work.extend(self.step(node, env, sc, cfg, rets))
        return _uniq(rets), seen

    def call(self, fi: FuncInfo, params: dict[str, t.Any], stack: tuple[str, ...]) -> list[t.Any]:
        if fi.fq in stack or len(stack) > 4 or any(isinstance(n, (ast.Yield, ast.YieldFrom)) for n in walk_no_nested(fi.node)):
            return [UNKNOWN]
        if fi.fq in self.fill:
            open_ = [p for p in fi.params[(1 if fi.cls is not None and "staticmethod" not in fi.decorators else 0):] if p not in params]
            if len(open_) == 1:
                params = {**params, open_[0]: self.fill[fi.fq]}
        key = (fi.fq, frozenset((k, type(v).__name__, v) for k, v in params.items() if v is not UNKNOWN))
        if key not in self._memo:
            try:
                rets, _ = self.explore(fi, params, (), stack, budget=3000)
            except BudgetExceeded:
                rets = [UNKNOWN]
            self._memo[key] = rets or [UNKNOWN]
        return self._memo[key]

    def _havoc(self, names: t.Iterable[str], env: dict[str, t.Any]) -> dict[str, t.Any]:
        e2 = dict(env)
        for nm in names:
            e2.pop(nm, None)
        return e2

    def _bind(self, tg: ast.AST, v: t.Any, env: dict[str, t.Any]) -> None:
        if isinstance(tg, ast.Name):
            if v is UNKNOWN:
                env.pop(tg.id, None)
            else:
                env[tg.id] = v
        elif isinstance(tg, (ast.Tuple, ast.List)):
            if isinstance(v, tuple) and not isinstance(v, FDict) and len(v) == len(tg.elts) and not any(isinstance(x, ast.Starred) for x in tg.elts):
                for x, xv in zip(tg.elts, v):
                    self._bind(x, xv, env)
            else:
                for nm in _store_names(tg):
                    env.pop(nm, None)

    def _refine(self, a: ast.AST, truth: bool, env: dict[str, t.Any], sc: _Scope) -> dict[str, t.Any]:
        cp = astq.cmp_parts(a)
        if cp is not None and isinstance(cp[0], ast.Name) and cp[0].id in sc.locals and cp[0].id not in env:
            same = (isinstance(cp[1], (ast.Is, ast.Eq)) and truth) or (isinstance(cp[1], (ast.IsNot, ast.NotEq)) and not truth)
            if same:
                vs = self.ev(cp[2], dict(env), sc)
                if len(vs) == 1 and vs[0] is not UNKNOWN and (vs[0] is None or isinstance(vs[0], (str, bool, int))):
                    env = dict(env)
                    env[cp[0].id] = vs[0]
        return env

    def step(self, node: Node, env: dict[str, t.Any], sc: _Scope, cfg: CFG, rets: list[t.Any]) -> list[tuple[Node, dict[str, t.Any]]]:
        a = node.ast
        out: list[tuple[Node, dict[str, t.Any]]] = []
        if node is cfg.exit or node is cfg.raise_exit:
            return out
        if node.kind == "test" and a is not None:
            e2 = dict(env)
            ts = _truths(self.ev(a, e2, sc))
            for s, lb in node.succs:
                if lb == "T" and True in ts:
                    out.append((s, self._refine(a, True, e2, sc)))
                elif lb == "F" and False in ts:
                    out.append((s, self._refine(a, False, e2, sc)))
                elif lb == "exc":
                    out.append((s, dict(env)))
            return out
        if node.kind == "stmt" and a is not None:
            after = self.exec_stmt(a, env, sc, rets)
            for s, lb in node.succs:
                if lb == "raise":
                    continue
                if lb == "exc":
                    out.append((s, self._havoc(_store_names(a), env)))
                    continue
                if s is cfg.exit and not isinstance(a, ast.Return):
                    rets.append(None)
                for e2 in after:
                    out.append((s, e2))
            return out
        # loop / with / handler heads, joins, entry: what they bind is unknown
        e2 = self._havoc(_store_names(a.target) if isinstance(a, (ast.For, ast.AsyncFor)) else
                         set().union(*[_store_names(i.optional_vars) for i in a.items if i.optional_vars is not None]) if isinstance(a, (ast.With, ast.AsyncWith)) else
                         ([a.name] if isinstance(a, ast.ExceptHandler) and a.name else []), env)
        for s, lb in node.succs:
            if lb == "raise":
                continue
            if s is cfg.exit:
                rets.append(None)
            out.append((s, e2))
        return out

    def exec_stmt(self, a: ast.AST, env: dict[str, t.Any], sc: _Scope, rets: list[t.Any]) -> list[dict[str, t.Any]]:
        if isinstance(a, ast.Return):
            rets.extend(self.ev(a.value, dict(env), sc) if a.value is not None else [None])
            return [env]
        if isinstance(a, (ast.Assign, ast.AnnAssign)):
            if a.value is None:
                return [env]
            e2 = dict(env)
            outs = []
            for v in self.ev(a.value, e2, sc):
                e3 = dict(e2)
                for tg in (a.targets if isinstance(a, ast.Assign) else [a.target]):
                    self._bind(tg, v, e3)
                outs.append(e3)
            return outs
        if isinstance(a, ast.AugAssign):
            e2 = dict(env)
            if isinstance(a.target, ast.Name):
                cur = e2.get(a.target.id, UNKNOWN)
                outs = []
                for v in self.ev(a.value, e2, sc):
                    e3 = dict(e2)
                    ok = isinstance(a.op, ast.Add) and cur is not UNKNOWN and v is not UNKNOWN and type(cur) is type(v) and isinstance(cur, (str, int, tuple)) and not isinstance(cur, bool)
                    self._bind(a.target, cur + v if ok else UNKNOWN, e3)
                    outs.append(e3)
                return outs
            return [e2]
        if isinstance(a, ast.Expr):
            e2 = dict(env)
            self.ev(a.value, e2, sc)
            return [e2]
        if isinstance(a, (ast.Raise, ast.Assert, ast.Pass, ast.Break, ast.Continue, ast.Global, ast.Nonlocal)):
            return [env]
        return [self._havoc(_store_names(a), env)]

    # -- expressions -------------------------------------------------------
    def ev(self, e: ast.AST | None, env: dict[str, t.Any], sc: _Scope) -> list[t.Any]:
        if e is None:
            return [None]
        meth = getattr(self, "ev_" + type(e).__name__, None)
        if meth is None:
            return [UNKNOWN]
        return _uniq(meth(e, env, sc))

    def _combos(self, lists: list[list[t.Any]]) -> list[tuple[t.Any, ...]]:
        n = 1
        for x in lists:
            n *= max(len(x), 1)
        if n > 64:
            return [tuple(UNKNOWN for _ in lists)]
        return list(itertools.product(*lists))

    def ev_Constant(self, e: ast.Constant, env, sc):  # noqa: N802
        return [e.value]

    def ev_Name(self, e: ast.Name, env, sc):  # noqa: N802
        if e.id in env:
            return [env[e.id]]
        if e.id in sc.locals:
            return [UNKNOWN]
        exprs = sc.fi.module.assigns.get(e.id) or []
        if len(exprs) == 1 and len(sc.stack) < 6:
            msc = _Scope(sc.fi, sc.stack + ("<module>",))
            msc.locals = set()
            return self.ev(exprs[0], {}, msc)
        return [UNKNOWN]

    def ev_Attribute(self, e: ast.Attribute, env, sc):  # noqa: N802
        d = dotted(e)
        if d is not None and d.startswith("self.") and "self" not in env and sc.fi.cls is not None and d[5:] in self.selfattrs:
            return [self.selfattrs[d[5:]]]
        if not (astq.is_name(e.value, "self") and "self" not in env):
            out = []
            for v in self.ev(e.value, env, sc):
                if isinstance(v, Obj):
                    if e.attr in v.attrs:
                        out.append(v.attrs[e.attr])
                        continue
                    _, what = self.repo.lookup(v.cls, e.attr)
                    if isinstance(what, FuncInfo) and any(x.rsplit(".", 1)[-1] in ("property", "cached_property") for x in what.decorators):
                        out += self.call(what, {"self": v}, sc.stack)
                        continue
                out.append(UNKNOWN)
            return out
        if astq.is_name(e.value, "self") and "self" not in env and sc.fi.cls is not None:
            if e.attr in self.selfattrs:
                return [self.selfattrs[e.attr]]
            _, what = self.repo.lookup(sc.fi.cls, e.attr)
            if isinstance(what, FuncInfo) and any(d.rsplit(".", 1)[-1] in ("property", "cached_property") for d in what.decorators):
                return self.call(what, {}, sc.stack)
            if isinstance(what, ast.expr) and len(sc.stack) < 6 and not any(is_self_attr(n, e.attr) and isinstance(n.ctx, ast.Store) for f in sc.fi.cls.methods.values() for n in ast.walk(f.node)):
                csc = _Scope(sc.fi, sc.stack + ("<class>",))  # a class-level constant no method rebinds
                csc.locals = set()
                return self.ev(what, {}, csc)
        return [UNKNOWN]

    def _seq(self, e, env, sc, make):
        out = []
        for combo in self._combos([self.ev(x.value if isinstance(x, ast.Starred) else x, env, sc) for x in e.elts]):
            flat: list[t.Any] = []
            for x, v in zip(e.elts, combo):
                if isinstance(x, ast.Starred):  # *seq: the elements of a known sequence
                    if isinstance(v, tuple) and not isinstance(v, FDict):
                        flat += list(v)
                    else:
                        flat.append(UNKNOWN)
                else:
                    flat.append(v)
            out.append(UNKNOWN if any(v is UNKNOWN for v in flat) else make(flat))
        return out

    def _comp(self, e, env, sc):
        """a comprehension / generator expression with one `for` over a known sequence: the tuple of its elements."""
        if len(e.generators) != 1 or e.generators[0].is_async:
            return [UNKNOWN]
        gen = e.generators[0]
        outs = []
        for seq in self.ev(gen.iter, env, sc):
            if not isinstance(seq, (tuple, frozenset)) or isinstance(seq, FDict) or len(seq) > 8:
                outs.append(UNKNOWN)
                continue
            items: list[t.Any] = []
            for item in (sorted(seq, key=repr) if isinstance(seq, frozenset) else seq):
                e2 = dict(env)
                self._bind(gen.target, item, e2)
                if any(nm not in e2 for nm in _store_names(gen.target)):
                    items = [UNKNOWN]
                    break
                ts = [_truths(self.ev(c, e2, sc)) for c in gen.ifs]
                if any(t_ == {False} for t_ in ts):
                    continue
                if any(t_ != {True} for t_ in ts):
                    items = [UNKNOWN]
                    break
                items.append(_one(self.ev(e.elt, e2, sc)))
            outs.append(UNKNOWN if any(v is UNKNOWN for v in items) else tuple(items))
        return outs

    def ev_GeneratorExp(self, e, env, sc):  # noqa: N802
        return self._comp(e, env, sc)

    def ev_ListComp(self, e, env, sc):  # noqa: N802
        return self._comp(e, env, sc)

    def ev_Tuple(self, e, env, sc):  # noqa: N802
        return self._seq(e, env, sc, tuple)

    def ev_List(self, e, env, sc):  # noqa: N802
        return self._seq(e, env, sc, tuple)

    def ev_Set(self, e, env, sc):  # noqa: N802
        return self._seq(e, env, sc, frozenset)

    def ev_Dict(self, e: ast.Dict, env, sc):  # noqa: N802
        if any(k is None for k in e.keys):
            return [UNKNOWN]
        out = []
        n = len(e.keys)
        for combo in self._combos([self.ev(x, env, sc) for x in list(e.keys) + list(e.values)]):
            out.append(UNKNOWN if any(v is UNKNOWN for v in combo) else FDict(zip(combo[:n], combo[n:])))
        return out

    @staticmethod
    def _cmp(op: ast.cmpop, a: t.Any, b: t.Any) -> t.Any:
        try:
            if isinstance(op, (ast.Is, ast.IsNot)):
                r = (a is b) if (a is None or b is None or isinstance(a, bool) or isinstance(b, bool)) else (type(a) is type(b) and a == b)
                return r if isinstance(op, ast.Is) else not r
            if isinstance(op, ast.Eq):
                return a == b
            if isinstance(op, ast.NotEq):
                return a != b
            if isinstance(op, (ast.In, ast.NotIn)):
                box = [k for k, _ in b] if isinstance(b, FDict) else b
                if not isinstance(box, (tuple, list, frozenset, str)) or (isinstance(box, str) and not isinstance(a, str)):
                    return UNKNOWN
                r = a in box
                return r if isinstance(op, ast.In) else not r
            if isinstance(op, ast.Lt):
                return a < b
            if isinstance(op, ast.LtE):
                return a <= b
            if isinstance(op, ast.Gt):
                return a > b
            if isinstance(op, ast.GtE):
                return a >= b
        except TypeError:
            pass
        return UNKNOWN

    def ev_Compare(self, e: ast.Compare, env, sc):  # noqa: N802
        out = []
        for combo in self._combos([self.ev(x, env, sc) for x in [e.left, *e.comparators]]):
            if any(v is UNKNOWN for v in combo):
                out.append(UNKNOWN)
                continue
            res: t.Any = True
            for op, a, b in zip(e.ops, combo, combo[1:]):
                r = self._cmp(op, a, b)
                if r is UNKNOWN:
                    res = UNKNOWN
                    break
                if not r:
                    res = False
                    break
            out.append(res)
        return out

    def ev_BoolOp(self, e: ast.BoolOp, env, sc):  # noqa: N802
        is_or = isinstance(e.op, ast.Or)

        def go(i: int) -> list[t.Any]:
            vals = self.ev(e.values[i], env, sc)
            if i == len(e.values) - 1:
                return vals
            out: list[t.Any] = []
            rest: list[t.Any] | None = None
            for v in vals:
                if v is UNKNOWN:
                    out.append(UNKNOWN)
                elif bool(v) == is_or:
                    out.append(v)
                else:
                    if rest is None:
                        rest = go(i + 1)
                    out += rest
            return out

        return go(0)

    def ev_UnaryOp(self, e: ast.UnaryOp, env, sc):  # noqa: N802
        if isinstance(e.op, ast.Not):
            return [UNKNOWN if v is UNKNOWN else (not v) for v in self.ev(e.operand, env, sc)]
        if isinstance(e.op, (ast.USub, ast.UAdd)):
            return [(-v if isinstance(e.op, ast.USub) else +v) if isinstance(v, (int, bool)) else UNKNOWN for v in self.ev(e.operand, env, sc)]
        return [UNKNOWN]

    def ev_IfExp(self, e: ast.IfExp, env, sc):  # noqa: N802
        ts = _truths(self.ev(e.test, env, sc))
        out: list[t.Any] = []
        if True in ts:
            out += self.ev(e.body, env, sc)
        if False in ts:
            out += self.ev(e.orelse, env, sc)
        return out

    @staticmethod
    def _fmt(v: t.Any, conversion: int) -> t.Any:
        if v is UNKNOWN or not (v is None or isinstance(v, (str, int, bool))):
            return UNKNOWN
        if conversion == 114:
            return repr(v)
        return str(v) if conversion in (-1, 115) else UNKNOWN

    def ev_FormattedValue(self, e: ast.FormattedValue, env, sc):  # noqa: N802
        if e.format_spec is not None:
            return [UNKNOWN]
        return [self._fmt(v, e.conversion) for v in self.ev(e.value, env, sc)]

    def ev_JoinedStr(self, e: ast.JoinedStr, env, sc):  # noqa: N802
        out = []
        for combo in self._combos([self.ev(x, env, sc) for x in e.values]):
            out.append(UNKNOWN if any(not isinstance(v, str) for v in combo) else "".join(combo))
        return out

    def _composed(self, parts: list[ast.AST], env, sc) -> list[t.Any]:
        out = []
        for combo in self._combos([[self._fmt(v, -1) for v in self.ev(x, env, sc)] for x in parts]):
            out.append(UNKNOWN if any(not isinstance(v, str) for v in combo) else "".join(combo))
        return out

    def ev_BinOp(self, e: ast.BinOp, env, sc):  # noqa: N802
        comp = composed_parts(e) if isinstance(e.op, ast.Mod) else None
        if comp is not None:
            return self._composed(comp, env, sc)
        out = []
        for a, b in self._combos([self.ev(e.left, env, sc), self.ev(e.right, env, sc)]):
            ok = isinstance(e.op, ast.Add) and a is not UNKNOWN and b is not UNKNOWN and type(a) is type(b) and isinstance(a, (str, int, tuple)) and not isinstance(a, (bool, FDict))
            if ok:
                out.append(a + b)
            elif isinstance(a, frozenset) and isinstance(b, frozenset) and isinstance(e.op, (ast.Sub, ast.BitAnd, ast.BitOr, ast.BitXor)):
                out.append(a - b if isinstance(e.op, ast.Sub) else a & b if isinstance(e.op, ast.BitAnd) else a | b if isinstance(e.op, ast.BitOr) else a ^ b)
            elif isinstance(a, (int, bool)) and isinstance(b, (int, bool)) and isinstance(e.op, (ast.Add, ast.Sub, ast.Mult)):
                out.append(a + b if isinstance(e.op, ast.Add) else a - b if isinstance(e.op, ast.Sub) else a * b)
            else:
                out.append(UNKNOWN)
        return out

    def ev_NamedExpr(self, e: ast.NamedExpr, env, sc):  # noqa: N802
        vals = self.ev(e.value, env, sc)
        self._bind(e.target, vals[0] if len(vals) == 1 else UNKNOWN, env)
        return vals

    def ev_Subscript(self, e: ast.Subscript, env, sc):  # noqa: N802
        out = []
        for b, i in self._combos([self.ev(e.value, env, sc), self.ev(e.slice, env, sc)]):
            r: t.Any = UNKNOWN
            if b is not UNKNOWN and i is not UNKNOWN:
                if isinstance(b, FDict):
                    hit = [v for k, v in b if type(k) is type(i) and k == i]
                    r = hit[-1] if hit else UNKNOWN
                elif isinstance(b, (tuple, str)) and isinstance(i, int) and -len(b) <= i < len(b):
                    r = b[i]  # a bool index is 0 / 1
            out.append(r)
        return out

    def ev_Call(self, e: ast.Call, env, sc):  # noqa: N802
        f = e.func
        plain = not e.keywords and not any(isinstance(x, ast.Starred) for x in e.args)
        if isinstance(f, ast.Name) and f.id in _BUILTINS and f.id not in sc.locals and f.id not in sc.fi.module.assigns and plain and len(e.args) <= 1:
            if not e.args:
                return [{"str": "", "bool": False, "frozenset": frozenset(), "set": frozenset(), "tuple": (), "list": (), "len": UNKNOWN, "int": 0}[f.id]]
            out = []
            for v in self.ev(e.args[0], env, sc):
                r: t.Any = UNKNOWN
                if v is not UNKNOWN:
                    if f.id == "bool":
                        r = bool(v)
                    elif f.id == "str" and (v is None or isinstance(v, (str, int, bool))):
                        r = str(v)
                    elif f.id in ("frozenset", "set") and isinstance(v, (tuple, frozenset, str)):
                        r = frozenset(k for k, _ in v) if isinstance(v, FDict) else frozenset(v)  # a mapping iterates over its keys
                    elif f.id in ("tuple", "list") and isinstance(v, (tuple, str)):
                        r = tuple(k for k, _ in v) if isinstance(v, FDict) else tuple(v)
                    elif f.id == "len" and isinstance(v, (tuple, frozenset, str)):
                        r = len(v)
                    elif f.id == "int" and isinstance(v, (int, bool)):
                        r = int(v)
                out.append(r)
            return out
        if isinstance(f, ast.Name) and f.id in ("all", "any") and f.id not in sc.locals and f.id not in sc.fi.module.assigns and plain and len(e.args) == 1:
            # three-valued: all() is False as soon as one element is known to be false, whatever the others are
            arg = e.args[0]
            if isinstance(arg, (ast.Tuple, ast.List, ast.Set)) and not any(isinstance(x, ast.Starred) for x in arg.elts):
                per = [_truths(self.ev(x, env, sc)) for x in arg.elts]
            else:
                seqs = self.ev(arg, env, sc)
                if len(seqs) != 1 or not isinstance(seqs[0], (tuple, frozenset)) or isinstance(seqs[0], FDict):
                    return [UNKNOWN]
                per = [{bool(v)} for v in seqs[0]]
            stop = f.id == "any"  # the truth value that decides
            if any(t_ == {stop} for t_ in per):
                return [stop]
            if all(t_ == {not stop} for t_ in per):
                return [not stop]
            return [UNKNOWN]
        if isinstance(f, ast.Attribute) and f.attr == "format" and const_str(f.value) is not None:
            comp = composed_parts(e)
            if comp is not None:
                return self._composed(comp, env, sc)
        if isinstance(f, ast.Attribute) and astq.is_name(f.value, "self") and "self" not in env and sc.fi.cls is not None:
            _, what = self.repo.lookup(sc.fi.cls, f.attr)
            if isinstance(what, FuncInfo):
                return self.call(what, self._bind_call(what, e, env, sc), sc.stack)
            return [UNKNOWN]
        if isinstance(f, ast.Name) and f.id not in sc.locals and f.id not in env:
            # a module-level function of the package (a helper extracted from a method)
            fq = self.repo.resolve(sc.fi.module, f.id, sc.fi.module.local_imports(sc.fi.node))
            what = self.repo.try_func(fq) if fq and fq.startswith("werkzeug.") else None
            if isinstance(what, FuncInfo) and what.cls is None:
                return self.call(what, self._bind_call(what, e, env, sc), sc.stack)
        if isinstance(f, ast.Attribute) and isinstance(f.value, (ast.Name, ast.Attribute)):
            recvs = self.ev(f.value, env, sc)
            if len(recvs) == 1 and isinstance(recvs[0], Obj):  # a method of a symbolic object
                _, what = self.repo.lookup(recvs[0].cls, f.attr)
                if isinstance(what, FuncInfo) and "staticmethod" not in what.decorators and "classmethod" not in what.decorators:
                    return self.call(what, {**self._bind_call(what, e, env, sc), what.params[0]: recvs[0]}, sc.stack)
                return [UNKNOWN]
        if isinstance(f, ast.Attribute) and plain:
            out = []
            for combo in self._combos([self.ev(f.value, env, sc)] + [self.ev(x, env, sc) for x in e.args]):
                recv, args = combo[0], combo[1:]
                r = UNKNOWN
                if not any(v is UNKNOWN for v in combo):
                    try:
                        if isinstance(recv, str) and f.attr in _STR_METHODS and all(isinstance(x, (str, tuple)) for x in args):
                            r = getattr(recv, f.attr)(*args)
                        elif isinstance(recv, FDict) and f.attr == "get" and 1 <= len(args) <= 2:
                            hit = [v for k, v in recv if type(k) is type(args[0]) and k == args[0]]
                            r = hit[-1] if hit else (args[1] if len(args) == 2 else None)
                        elif isinstance(recv, FDict) and f.attr == "keys" and not args:
                            r = tuple(k for k, _ in recv)
                        elif isinstance(recv, frozenset) and f.attr in _SET_METHODS and all(isinstance(x, (frozenset, tuple)) and not isinstance(x, FDict) for x in args):
                            r = getattr(recv, f.attr)(*args)
                    except (TypeError, ValueError):
                        r = UNKNOWN
                out.append(r)
            return out
        for x in list(e.args) + [k.value for k in e.keywords]:  # walrus side effects / nothing else
            self.ev(x.value if isinstance(x, ast.Starred) else x, env, sc)
        return [UNKNOWN]

    def _bind_call(self, callee: FuncInfo, call: ast.Call, env, sc) -> dict[str, t.Any]:
        a = callee.node.args  # type: ignore[attr-defined]
        pos = [x.arg for x in a.posonlyargs + a.args]
        out: dict[str, t.Any] = {}
        for name, d in list(zip(reversed(pos), reversed(a.defaults))) + [(k.arg, d) for k, d in zip(a.kwonlyargs, a.kw_defaults) if d is not None]:
            out[name] = d.value if isinstance(d, ast.Constant) else UNKNOWN
        if callee.cls is not None and "staticmethod" not in callee.decorators and pos:
            pos = pos[1:]

        def one(x: ast.AST) -> t.Any:
            vs = self.ev(x, env, sc)
            return vs[0] if len(vs) == 1 else UNKNOWN

        if any(isinstance(x, ast.Starred) for x in call.args) or any(k.arg is None for k in call.keywords):
            return {}
        for i, x in enumerate(call.args):
            if i < len(pos):
                out[pos[i]] = one(x)
        for k in call.keywords:
            out[k.arg] = one(k.value)  # type: ignore[index]
        return {k: v for k, v in out.items() if v is not UNKNOWN}


# ---------------------------------------------------------------------
# R12.10 / R12.11: which rule the router proposes as the canonical form of another
#
# Both are decided on *symbolic rules*: objects that carry only the attributes the decision reads (argument set,
# defaults, alias flag, build-only flag, endpoint), evaluated with the constant executor.  The attributes are found by
# role in Rule.__init__ (assigned from the public keyword of that name; the argument set is the attribute __init__
# derives from the defaults' keys).

ADAPTER = "routing.map.MapAdapter"
RULE = "routing.rules.Rule"
MAPCLS = "routing.map.Map"
RULE_KEYWORDS = ("defaults", "alias", "build_only", "endpoint")  # public keyword names of Rule()


class RuleModel:
    def __init__(self, ctx: Ctx):
        self.repo = ctx.repo
        self.cls = ctx.repo.cls(RULE)
        init = self.cls.methods.get("__init__")
        if init is None:
            raise AnalysisError("Rule.__init__ missing")
        self.attr: dict[str, str] = {}
        derived: set[str] = set()
        for st in walk_no_nested(init.node):
            if isinstance(st, (ast.Assign, ast.AnnAssign)) and st.value is not None:
                for tg in (st.targets if isinstance(st, ast.Assign) else [st.target]):
                    if not is_self_attr(tg):
                        continue
                    if isinstance(st.value, ast.Name) and st.value.id in RULE_KEYWORDS and st.value.id in init.params:
                        self.attr.setdefault(st.value.id, tg.attr)
                    elif "defaults" in astq.names_in(st.value):
                        derived.add(tg.attr)
        missing = [k for k in RULE_KEYWORDS if k not in self.attr]
        derived -= set(self.attr.values())
        if missing or len(derived) != 1:
            raise AnalysisError(f"Rule.__init__: attributes for {missing or 'the argument set'} not found (argument-set candidates: {sorted(derived)})")
        self.attr["arguments"] = next(iter(derived))

    def rule(self, tag: str, arguments: t.Iterable[str], defaults: t.Iterable[str] | None, alias: bool = False, build_only: bool = False, endpoint: str = "ep") -> Obj:
        """defaults: names of the defaulted arguments; None = no defaults given (stored as None)."""
        dv = None if defaults is None else FDict((k, 1) for k in defaults)
        a = self.attr
        return Obj(tag, self.cls, {a["arguments"]: frozenset(arguments), a["defaults"]: dv, a["alias"]: alias, a["build_only"]: build_only, a["endpoint"]: endpoint})

    def show(self, o: Obj) -> str:
        a = self.attr
        dv = o.attrs[a["defaults"]]
        bits = [f"arguments={{{','.join(sorted(o.attrs[a['arguments']]))}}}", "defaults=" + ("None" if dv is None else "{" + ",".join(k for k, _ in dv) + "}")]
        if o.attrs[a["alias"]]:
            bits.append("alias")
        if o.attrs[a["build_only"]]:
            bits.append("build_only")
        return f"{o.tag.split('#')[0]}({' '.join(bits)})"


def _adapter_closure(ctx: Ctx) -> list[FuncInfo]:
    """MapAdapter.match and the adapter methods it calls through self, transitively."""
    repo = ctx.repo
    acls = repo.cls(ADAPTER)
    todo, seen = [repo.func(f"{ADAPTER}.match")], {}
    while todo:
        fi = todo.pop()
        if fi.fq in seen:
            continue
        seen[fi.fq] = fi
        for c in astq.calls(fi.node):
            f = c.func
            if isinstance(f, ast.Attribute) and astq.is_name(f.value, "self"):
                _, what = repo.lookup(acls, f.attr)
                if isinstance(what, FuncInfo):
                    todo.append(what)
    return sorted(seen.values(), key=lambda f: f.fq)


def _one(vals: list[t.Any]) -> t.Any:
    return vals[0] if len(vals) == 1 else UNKNOWN


def defaults_provider_rule(ctx: Ctx) -> None:
    """R12.10"""
    repo = ctx.repo
    rm = RuleModel(ctx)
    # pair predicates: methods of Rule with exactly one parameter besides self - another rule - that the adapter calls on
    # something other than itself while handling match()
    preds: dict[str, tuple[FuncInfo, list[str]]] = {}
    for fi in _adapter_closure(ctx):
        for c in astq.calls(fi.node):
            f = c.func
            if not isinstance(f, ast.Attribute) or astq.is_name(f.value, "self") or len(c.args) + len(c.keywords) != 1:
                continue
            _, what = repo.lookup(rm.cls, f.attr)
            if not isinstance(what, FuncInfo) or "staticmethod" in what.decorators or "classmethod" in what.decorators:
                continue
            a = what.node.args  # type: ignore[attr-defined]
            ps = a.posonlyargs + a.args
            if len(ps) != 2 or a.kwonlyargs or a.vararg or a.kwarg or a.defaults:
                continue
            ann = ps[1].annotation
            if ann is not None and rm.cls.name not in norm(ann):
                continue
            preds.setdefault(what.fq, (what, []))[1].append(f"{fi.qualname}: `{norm(c)[:60]}`")
    ctx.floor("R12.10", "rule-pair predicates (Rule methods taking another rule) the adapter consults while matching", len(preds), 1)
    # candidate r (has defaults for `a`) against the matched rule m
    pairs: list[tuple[str, Obj, Obj]] = []
    for rel, ra, ma in (("equal", "ab", "ab"), ("equal", "a", "a"), ("superset", "ab", "b"), ("superset", "a", ""), ("subset", "a", "ab"),
                        ("overlapping", "ab", "bc"), ("disjoint, same size", "a", "b")):
        for md in ([None, "b"] if "b" in ma else [None]):
            pairs.append((rel, rm.rule("r", ra, "a"), rm.rule("m", ma, md)))
    for fq, (fi, sites) in sorted(preds.items()):
        ctx.saw(fi)
        other = fi.params[1]

        def run(r: Obj, m: Obj) -> t.Any:
            v = _one(ConstExec(repo, {}).call(fi, {fi.params[0]: r, other: m}, ()))
            return v if v is UNKNOWN else bool(v)

        rows, bad, undecided, calibrated = [], [], [], 0
        for rel, r, m in pairs:
            v = run(r, m)
            rows.append(f"{rm.show(r)} / {rm.show(m)} [{rel}] -> {v}")
            if rel == "equal":
                calibrated += v is True
            elif v is UNKNOWN:
                undecided.append(rows[-1])
            elif v:
                bad.append(rows[-1])
        if undecided and not bad:
            ctx.error(f"R12.10: {fi.qualname}: does not evaluate to a constant for the rule pairs {undecided}")
        else:
            ctx.ob("R12.10", f"{fi.qualname}: a rule is the defaults-canonical form only of a rule with the same argument set", not bad,
                   ("true although the argument sets differ: " + "; ".join(bad) + " | " if bad else "") + f"called at {sites}; table (candidate / matched rule): " + "; ".join(rows), fi, fi.node, f"{fi.qualname} requires equal argument sets")
        ctx.floor("R12.10", f"rule pairs with equal argument sets for which {fi.qualname} evaluates to True (calibration)", calibrated, 1)
        # a build-only rule is never matched: a redirect to its URL does not match the same endpoint
        r, m = rm.rule("r", "ab", "a", build_only=True), rm.rule("m", "ab", None)
        v = run(r, m)
        if v is UNKNOWN:
            ctx.error(f"R12.10: {fi.qualname}: does not evaluate to a constant for {rm.show(r)} / {rm.show(m)}")
        else:
            ctx.ob("R12.10", f"{fi.qualname}: a build-only rule is not the defaults-canonical form of a matched rule", not v, f"{rm.show(r)} / {rm.show(m)} -> {v}", fi, fi.node, f"{fi.qualname} excludes build-only rules")


def _sorted_collection(call: ast.Call) -> ast.AST | None:
    """the collection a `.sort(...)` / `sorted(...)` call orders."""
    f = call.func
    if isinstance(f, ast.Attribute) and f.attr == "sort":
        return f.value
    if isinstance(f, ast.Name) and f.id == "sorted" and call.args:
        return call.args[0]
    return None


def build_order_rule(ctx: Ctx) -> None:
    """R12.11"""
    repo = ctx.repo
    rm = RuleModel(ctx)
    acls, mcls = repo.cls(ADAPTER), repo.cls(MAPCLS)
    ainit = acls.methods.get("__init__")
    map_attrs = {tg.attr for st in walk_no_nested(ainit.node) if isinstance(st, (ast.Assign, ast.AnnAssign)) and astq.is_name(st.value, "map")
                 for tg in (st.targets if isinstance(st, ast.Assign) else [st.target]) if is_self_attr(tg)} if ainit is not None else set()
    if not map_attrs:
        raise AnalysisError("MapAdapter.__init__ stores its `map` parameter in no attribute")
    # attributes of the map the adapter iterates / indexes while matching (the per-endpoint rule lists)
    read: set[str] = set()
    for fi in _adapter_closure(ctx):
        for n in ast.walk(fi.node):
            if isinstance(n, ast.Attribute) and isinstance(n.value, ast.Attribute) and is_self_attr(n.value) and n.value.attr in map_attrs:
                read.add(n.attr)
    sorts: list[tuple[FuncInfo, ast.Call]] = []

    def bound_to(fi: FuncInfo, e: ast.AST) -> list[ast.AST]:
        """e and what the names in it are bound to in fi: a loop over / an assignment from some expression."""
        exprs = [e]
        for nm in astq.names_in(e):
            for st in ast.walk(fi.node):
                if isinstance(st, (ast.For, ast.comprehension)) and nm in astq.names_in(st.target):
                    exprs.append(st.iter)
                elif isinstance(st, ast.Assign) and any(nm in astq.names_in(tg) for tg in st.targets):
                    exprs.append(st.value)
        return exprs

    def is_rule_lists(fi: FuncInfo, exprs: list[ast.AST]) -> bool:
        names = {nm for x in list(exprs) for nm in astq.names_in(x)}
        exprs = exprs + [x for nm in names for x in bound_to(fi, ast.Name(id=nm, ctx=ast.Load()))[1:]]  # one more step: `d = self.attr` ... `for k in d: d[k]`
        return fi.cls is mcls and any(is_self_attr(n) and n.attr in read for x in exprs for n in ast.walk(x))

    mmod = mcls.methods["__init__"].module if "__init__" in mcls.methods else next(iter(mcls.methods.values())).module
    holders = list(mcls.methods.values()) + list(mmod.functions.values())
    for fi in holders:
        for c in astq.calls(fi.node):
            col = _sorted_collection(c)
            if col is None:
                continue
            if is_rule_lists(fi, bound_to(fi, col)):
                sorts.append((fi, c))
                continue
            # the sort sits in a helper that is handed the list: look at what the Map's methods pass for that parameter
            root = astq.chain_root(col) if isinstance(col, (ast.Attribute, ast.Subscript)) else col
            if not (isinstance(root, ast.Name) and root.id in fi.params):
                continue
            a = fi.node.args  # type: ignore[attr-defined]
            pos = [x.arg for x in a.posonlyargs + a.args]
            if fi.cls is not None and "staticmethod" not in fi.decorators and pos:
                pos = pos[1:]
            for caller in mcls.methods.values():
                for c2 in astq.calls(caller.node):
                    f2 = c2.func
                    hit = (isinstance(f2, ast.Name) and fi.cls is None and f2.id == fi.name) or \
                        (isinstance(f2, ast.Attribute) and fi.cls is mcls and f2.attr == fi.name and (astq.is_name(f2.value, "self") or astq.is_name(f2.value, mcls.name)))
                    if not hit or any(isinstance(x, ast.Starred) for x in c2.args):
                        continue
                    given = astq.arg_or_kw(c2, pos.index(root.id), root.id) if root.id in pos else next((k.value for k in c2.keywords if k.arg == root.id), None)
                    if given is not None and is_rule_lists(caller, bound_to(caller, given)) and not any(x[1] is c for x in sorts):
                        sorts.append((fi, c))
    ctx.floor("R12.11", "sorts of the per-endpoint rule lists in Map", len(sorts), 1)
    configs = [(k, d) for k in range(3) for d in range(k + 1)]

    def mk(tag: str, k: int, d: int, alias: bool, empty: bool) -> Obj:
        # one tag per configuration: objects are compared (and the executor's call results cached) by tag
        return rm.rule(f"{tag}#{k}{d}{'e' if empty else ''}", "abc"[:k], ("abc"[:d] if d or empty else None), alias=alias)

    for fi, c in sorts:
        ctx.saw(fi)
        kw = {k.arg: k.value for k in c.keywords}
        key, rev = kw.get("key"), kw.get("reverse")
        if key is None or (rev is not None and not (isinstance(rev, ast.Constant) and isinstance(rev.value, bool))):
            raise AnalysisError(f"{fi.qualname}: the sort at {fi.loc(c)} has no key function / a computed `reverse` (order not modelled)")
        reverse = bool(rev is not None and rev.value)
        ex = ConstExec(repo, {})
        sc = _Scope(fi, (fi.fq,))

        def keyof(o: Obj, key: ast.AST = key, depth: int = 0) -> t.Any:
            if isinstance(key, ast.Name) and depth < 3 and key.id not in dict(nested_funcs(fi.node)) and key.id not in _store_names(fi.node):
                exprs = fi.module.assigns.get(key.id) or []
                if len(exprs) == 1:  # a key function kept in a module-level constant
                    return keyof(o, exprs[0], depth + 1)
            if isinstance(key, ast.Lambda):
                a = key.args
                if len(a.args) != 1 or a.posonlyargs or a.kwonlyargs or a.vararg or a.kwarg:
                    return UNKNOWN
                return _one(ex.ev(key.body, {a.args[0].arg: o}, sc))
            local = dict(nested_funcs(fi.node)).get(key.id) if isinstance(key, ast.Name) else None
            if local is not None:  # a key function defined inside the method: one parameter, one return
                body = [st for st in local.body if not (isinstance(st, ast.Expr) and isinstance(st.value, ast.Constant))]  # type: ignore[attr-defined]
                ps = _fn_params(local)
                if len(ps) == 1 and len(body) == 1 and isinstance(body[0], ast.Return) and body[0].value is not None:
                    return _one(ex.ev(body[0].value, {ps[0]: o}, sc))
                return UNKNOWN
            if isinstance(key, ast.Call) and (dotted(key.func) or "").rsplit(".", 1)[-1] == "methodcaller" and len(key.args) == 1 and const_str(key.args[0]) is not None:
                _, what = repo.lookup(rm.cls, const_str(key.args[0]))
            else:
                d = dotted(key)
                fq = repo.resolve(fi.module, d, fi.module.local_imports(fi.node)) if d else None
                what = repo.try_func(fq) if fq and fq.startswith("werkzeug.") else None
            if isinstance(what, FuncInfo) and what.params:
                return _one(ex.call(what, {what.params[0]: o}, ()))
            return UNKNOWN

        bad, undecided, rows = [], [], []
        for k, dn in configs:
            for da in range(k + 1):
                for en, ea in ((False, False), (True, True)) if 0 in (dn, da) else ((False, False),):
                    n_, a_ = mk("canonical", k, dn, False, en), mk("alias", k, da, True, ea)
                    kn, ka = keyof(n_), keyof(a_)
                    txt = f"{rm.show(n_)} key {kn} vs {rm.show(a_)} key {ka}"
                    if kn is UNKNOWN or ka is UNKNOWN:
                        undecided.append(txt)
                        continue
                    try:
                        first = (kn > ka) if reverse else (kn < ka)
                    except TypeError:
                        undecided.append(txt)
                        continue
                    rows.append(f"{k} args, defaults {dn}/{da}: {kn} {'>' if reverse else '<'} {ka}")
                    if not first:
                        bad.append(txt)
        if undecided and not bad:
            ctx.error(f"R12.11: {fi.qualname}: the sort key of `{norm(c)[:70]}` at {fi.loc(c)} does not evaluate to comparable constants for {undecided[:3]}")
            continue
        ctx.ob("R12.11", f"{fi.qualname}: in the build order an alias rule comes after every non-alias rule with the same number of arguments, whatever their defaults", not bad,
               ("the alias rule does not sort strictly after the canonical rule: " + "; ".join(bad[:4]) + " | " if bad else "") + f"key `{norm(key)[:70]}`{' reversed' if reverse else ''}; " + "; ".join(dict.fromkeys(rows)),
               fi, c, f"{fi.qualname} sorts alias rules last")
