"""helpers for C15: backward value-origin evaluation with operation traces.

``Flow(repo, fi).leaves(expr)`` answers "which terminal expressions can the value
of *expr* be built from, and which non-transparent operations were applied on the
way" - flow-sensitive (reaching definitions over the CFG), through local names,
tuple unpacking of split-family calls, loop-carried accumulation, f-strings,
concatenation, ``or`` defaults, comprehensions (the element expression over the
iterated value, ``enumerate`` / ``zip`` positions respected) and calls of helper
functions, which are inlined with their arguments bound: nested functions,
methods of the same class (``self._helper(...)``), module-level functions of the
package called with several arguments, and callables that arrive as an argument
(``convert(username)`` with ``convert`` bound to ``_unquote_user``).  A helper
that returns a tuple which the caller unpacks contributes, per target, only the
matching element of each returned tuple.

Transparent (they keep every character of the operand that they keep at all, so
they neither encode nor decode): slicing / indexing, ``split rsplit partition
rpartition strip lstrip rstrip removeprefix removesuffix join``, ``+``, f-strings,
``a or b``, ``a if c else b``.

Recorded operations: the two WSGI dances, ``quote`` / ``unquote`` (urllib),
``.encode(codec)`` / ``.decode(codec)``, and a call of a module-level callable of
the package with a single positional argument (``_unquote_path(x)``).

On top of the leaves, :func:`text_class` assigns the *transport class* of a text:

    T  latin-1 tunnelled str (what PEP 3333 wants in environ)       A  ASCII constant
    B  the raw request bytes                                         D  decoded text
    X  unknown (attribute, parameter, foreign call)                  M  mis-transcoded
"""

from __future__ import annotations

import ast
import typing as t

from ..cfg import CFG
from ..dataflow import Def, ReachingDefs, bound_in_enclosing_comp
from ..loader import FuncInfo, Repo, dotted, walk_no_nested

ENC_DANCE = "werkzeug._internal._wsgi_encoding_dance"
DEC_DANCE = "werkzeug._internal._wsgi_decoding_dance"
QUOTE_FQ = {"urllib.parse.quote", "urllib.parse.quote_plus"}
UNQUOTE_FQ = {"urllib.parse.unquote", "urllib.parse.unquote_plus"}
TRANSPARENT = {"split", "rsplit", "partition", "rpartition", "strip", "lstrip", "rstrip", "removeprefix", "removesuffix"}
TEXT_KEYS = ("PATH_INFO", "QUERY_STRING", "SCRIPT_NAME")

# codec aliases (python's encodings.aliases, the relevant rows; names normalised: lower case, '_' -> '-')
UTF8 = {"utf-8", "utf8", "u8", "utf", "utf8-ucs2", "utf8-ucs4", "cp65001"}
LATIN1 = {"latin1", "latin-1", "iso-8859-1", "iso8859-1", "8859", "cp819", "latin", "l1", "iso-ir-100", "ibm819", "csisolatin1"}
ASCII = {"ascii", "us-ascii", "646", "ansi-x3.4-1968", "iso646-us", "us", "cp367", "ibm367"}


def codec_kind(name: str | None) -> str:
    """'U' utf-8, 'L' latin-1 (the one total, identity-mapped single byte codec), 'ASCII', 'idna', else 'other'."""
    if name is None:
        return "U"  # str.encode() / bytes.decode() default
    n = name.lower().replace("_", "-")
    if n in UTF8:
        return "U"
    if n in LATIN1:
        return "L"
    if n in ASCII:
        return "ASCII"
    if n == "idna":
        return "idna"
    return "other"


class Op(t.NamedTuple):
    kind: str  # quote unquote encdance decdance encode decode call
    node: ast.Call
    target: str | None = None  # fq of the callee for kind == call
    codec: str | None = None  # raw codec name for encode / decode (None = default)
    errors: str | None = None
    sc: t.Any = None  # scope the call was evaluated in (a helper's parameters are bound there)

    def text(self) -> str:
        if self.kind in ("encode", "decode"):
            return f"{self.kind}({self.codec or 'utf-8 (default)'}{', errors=' + self.errors if self.errors else ''})"
        if self.kind == "call":
            return (self.target or "?").rsplit(".", 1)[-1]
        return self.kind


class Leaf(t.NamedTuple):
    kind: str  # const environ attr param global call other
    node: ast.AST | None
    ops: tuple[Op, ...] = ()
    key: str | None = None  # environ key / attribute text / parameter name
    # how the value was cut out of its origin: 'tail' = the last piece of an rsplit(sep, 1) / rpartition(sep),
    # 'head' = what that call left on the left
    tags: frozenset = frozenset()

    def with_op(self, op: Op) -> "Leaf":
        return Leaf(self.kind, self.node, self.ops + (op,), self.key, self.tags)

    def with_tag(self, tag: str | None) -> "Leaf":
        return self if tag is None else Leaf(self.kind, self.node, self.ops, self.key, self.tags | {tag})

    def text(self) -> str:
        if self.kind == "const":
            base = repr(getattr(self.node, "value", None))
        elif self.kind == "environ":
            base = f"environ[{self.key!r}]"
        else:
            base = self.key or (ast.unparse(self.node)[:50] if self.node is not None else self.kind)
        for o in self.ops:
            base = f"{o.text()}({base})"
        return base


class Scope:
    def __init__(self, fn: ast.AST, parent: "Scope | None" = None, bind: dict[str, tuple[ast.AST, "Scope"]] | None = None,
                 module: t.Any = None, li: dict[str, str] | None = None, cls: t.Any = None):
        self.fn = fn
        self.parent = parent
        self.bind = bind or {}
        # where names of this function body are resolved (a helper of another module resolves in its own module)
        self.module = module if module is not None else (parent.module if parent is not None else None)
        self.li = li if li is not None else (parent.li if parent is not None else {})
        self.cls = cls if cls is not None else (parent.cls if parent is not None else None)
        self.cfg = CFG(fn)
        a = fn.args  # type: ignore[attr-defined]
        self.params = [x.arg for x in a.posonlyargs + a.args + a.kwonlyargs] + ([a.vararg.arg] if a.vararg else []) + ([a.kwarg.arg] if a.kwarg else [])
        self.rd = ReachingDefs(self.cfg, self.params)
        self.nested = {n.name: n for n in walk_no_nested(fn) if isinstance(n, (ast.FunctionDef, ast.AsyncFunctionDef))}

    def lookup_nested(self, name: str) -> tuple[ast.AST, "Scope"] | None:
        sc: Scope | None = self
        while sc is not None:
            if name in sc.nested:
                return sc.nested[name], sc
            sc = sc.parent
        return None


class Flow:
    def __init__(self, repo: Repo, fi: FuncInfo):
        self.repo = repo
        self.fi = fi
        self.module = fi.module
        self.li = fi.module.local_imports(fi.node)
        self.root = Scope(fi.node, module=fi.module, li=self.li, cls=fi.cls)
        self._nested_scopes: dict[int, Scope] = {}
        # helper functions (other than nested ones) that were looked into: id(def) -> FuncInfo
        self.inlined: dict[int, FuncInfo] = {}
        # scope in which an attribute leaf was evaluated (its receiver may be a parameter of a helper)
        self.attr_scope: dict[int, Scope] = {}

    # -- resolution ------------------------------------------------------
    def resolve(self, d: str | None, sc: "Scope | None" = None) -> str | None:
        if not d:
            return None
        if sc is not None and sc.module is not None:
            return self.repo.resolve(sc.module, d, sc.li)
        return self.repo.resolve(self.module, d, self.li)

    def scope_of(self, node: ast.AST) -> Scope:
        """scope (outer function or a directly nested def, un-inlined) that contains node."""
        cur = getattr(node, "_parent", None)
        chain = []
        while cur is not None and cur is not self.fi.node:
            if isinstance(cur, (ast.FunctionDef, ast.AsyncFunctionDef)):
                chain.append(cur)
            cur = getattr(cur, "_parent", None)
        sc = self.root
        for fn in reversed(chain):
            key = id(fn)
            if key not in self._nested_scopes:
                self._nested_scopes[key] = Scope(fn, sc)
            sc = self._nested_scopes[key]
        return sc

    def const_keys(self, e: ast.AST, sc: Scope) -> list[str] | None:
        """the string constants a key expression can be: a literal, a parameter bound to one at the call site, or a
        variable that runs over a literal table (``for key in ("A", "B")`` / ``for arg, key in (("a", "A"), ...)``,
        loop or comprehension)."""
        if isinstance(e, ast.Constant) and isinstance(e.value, str):
            return [e.value]
        if isinstance(e, ast.Name) and e.id in sc.bind:
            arg, asc = sc.bind[e.id]
            return self.const_keys(arg, asc)
        if isinstance(e, ast.Name):
            return table_values(e, sc.fn)
        return None

    def environ_read(self, e: ast.AST, sc: Scope) -> tuple[list[str], list[ast.AST]] | None:
        """``X[K]`` / ``X.get(K[, default])`` with K a WSGI text key (or a variable over a table of them) ->
        (keys, default exprs)."""
        k, dflt = None, []
        if isinstance(e, ast.Subscript) and not isinstance(e.slice, ast.Slice):
            k = self.const_keys(e.slice, sc)
        elif isinstance(e, ast.Call) and isinstance(e.func, ast.Attribute) and e.func.attr == "get" and e.args:
            k, dflt = self.const_keys(e.args[0], sc), list(e.args[1:])
        if k and all(_is_env_key(x) for x in k):
            return list(dict.fromkeys(k)), dflt
        return None

    # -- backward evaluation ---------------------------------------------
    def leaves(self, e: ast.AST | None, sc: Scope | None = None) -> list[Leaf]:
        return self._lv(e, sc or (self.scope_of(e) if e is not None else self.root), frozenset())

    def _lv(self, e: ast.AST | None, sc: Scope, seen: frozenset[int]) -> list[Leaf]:
        if e is None:
            return []
        if isinstance(e, ast.Constant):
            return [Leaf("const", e)]
        if isinstance(e, ast.JoinedStr):
            out: list[Leaf] = []
            for v in e.values:
                out += self._lv(v, sc, seen)
            return out
        if isinstance(e, ast.FormattedValue):
            return self._lv(e.value, sc, seen)
        if isinstance(e, ast.BinOp) and isinstance(e.op, ast.Add):
            return self._lv(e.left, sc, seen) + self._lv(e.right, sc, seen)
        if isinstance(e, ast.BinOp) and isinstance(e.op, ast.Mod) and (isinstance(e.left, ast.JoinedStr) or (isinstance(e.left, ast.Constant) and isinstance(e.left.value, (str, bytes)))):
            # printf-style formatting: the template and the formatted values, like an f-string
            return self._lv(e.left, sc, seen) + self._lv(e.right, sc, seen)
        if isinstance(e, ast.BoolOp):
            out = []
            for v in e.values:
                out += self._lv(v, sc, seen)
            return out
        if isinstance(e, ast.IfExp):
            return self._lv(e.body, sc, seen) + self._lv(e.orelse, sc, seen)
        if isinstance(e, (ast.NamedExpr, ast.Starred)):
            return self._lv(e.value, sc, seen)
        if isinstance(e, (ast.Tuple, ast.List)):
            out = []
            for v in e.elts:
                out += self._lv(v, sc, seen)
            return out
        if isinstance(e, ast.Dict):
            # a mapping used as a holder of pieces: what can be read out of it are its values (`**other` included)
            out = []
            for v in e.values:
                out += self._lv(v, sc, seen)
            return out
        if isinstance(e, ast.Subscript):
            er = self.environ_read(e, sc)
            if er is not None:
                return [Leaf("environ", e, (), k) for k in er[0]]
            tag = None
            if isinstance(e.slice, ast.Constant) and isinstance(e.slice.value, int):
                src = e.value
                if isinstance(src, ast.Name):
                    node = sc.cfg.node_of(src)
                    ds = sc.rd.reaching(node, src.id) if node is not None else frozenset()
                    if len(ds) == 1 and next(iter(ds)).kind == "assign" and next(iter(ds)).index is None:
                        src = next(iter(ds)).value
                tag = peel_tag(src, e.slice.value, None)
            elif isinstance(e.slice, ast.Slice):
                tag = slice_peel(sc, e)
            return [l.with_tag(tag) for l in self._lv(e.value, sc, seen)]
        if isinstance(e, (ast.ListComp, ast.SetComp, ast.GeneratorExp)):
            # the elements of the result are the element expression over the iterated values
            return self._lv(e.elt, sc, seen)
        if isinstance(e, ast.Attribute):
            self.attr_scope[id(e)] = sc
            return [Leaf("attr", e, (), ast.unparse(e))]
        if isinstance(e, ast.Name):
            return self._name(e, sc, seen)
        if isinstance(e, ast.Call):
            return self._call(e, sc, seen)
        return [Leaf("other", e, (), None)]

    def _name(self, e: ast.Name, sc: Scope, seen: frozenset[int]) -> list[Leaf]:
        g = bound_in_enclosing_comp(e, sc.fn)
        if g is not None:
            return self._element(g.target, g.iter, e.id, sc, seen)
        node = sc.cfg.node_of(e)
        if node is None:
            if e.id in sc.bind:
                arg, asc = sc.bind[e.id]
                return self._lv(arg, asc, seen)
            return self._defs(e.id, frozenset(), e, sc, seen)
        defs = sc.rd.reaching(node, e.id)
        return self._defs(e.id, defs, e, sc, seen) + self._grown(e.id, defs, node, sc, seen)

    def _grown(self, name: str, defs: t.Iterable[Def], node: t.Any, sc: Scope, seen: frozenset[int]) -> list[Leaf]:
        """what was put *into* the object bound to ``name`` after it was created: a list / set / dict / bytearray
        that is grown in place (``L.append(x)``, ``L.extend(xs)``, ``L.insert(i, x)``, ``L[i] = x``, ``D[k] = x``,
        ``D.update(k=x)``, ``D.setdefault(k, x)``, ``S.add(x)``) holds those values as much as the ones of its display.
        A growth statement counts when it works on one of the bindings that reach the use and can run before it."""
        defs = frozenset(defs)
        if not defs:
            return []
        out: list[Leaf] = []
        for st, vals in _growths(sc).get(name, ()):
            if id(st) in seen:
                continue
            gn = sc.cfg.node_of(st)
            if gn is None or not (sc.rd.reaching(gn, name) & defs):
                continue
            if gn is not node and node.id not in sc.cfg.reach(gn):
                continue
            for v in vals:
                out += self._lv(v, sc, seen | {id(st)})
        return out

    def _element(self, target: ast.AST, it: ast.AST, name: str, sc: Scope, seen: frozenset[int]) -> list[Leaf]:
        """origins of ``name`` when ``target`` is bound to the elements of the iterable ``it``
        (``for target in it`` / comprehension generator): positions of ``enumerate`` / ``zip`` are kept apart."""
        if isinstance(target, (ast.Tuple, ast.List)) and isinstance(it, ast.Call) and dotted(it.func):
            fq = self.resolve(dotted(it.func), sc)
            pos = next((i for i, x in enumerate(target.elts) if isinstance(x, ast.Name) and x.id == name), None)
            args = it.args
            plain = not any(isinstance(a, ast.Starred) for a in args) and all(k.arg in ("start", "fillvalue", "strict") for k in it.keywords)
            if pos is not None and plain:
                if fq == "builtins.enumerate" and len(target.elts) == 2 and args:
                    return [Leaf("other", it, (), "index")] if pos == 0 else self._lv(args[0], sc, seen)
                if fq in ("builtins.zip", "itertools.zip_longest") and len(target.elts) == len(args):
                    return self._lv(args[pos], sc, seen)
        if isinstance(target, (ast.Tuple, ast.List)) and isinstance(it, (ast.Tuple, ast.List)) and it.elts:
            # a literal table of rows: the variable takes its own column only
            pos = next((i for i, x in enumerate(target.elts) if isinstance(x, ast.Name) and x.id == name), None)
            if pos is not None and all(isinstance(r, (ast.Tuple, ast.List)) and len(r.elts) == len(target.elts) and not any(isinstance(x, ast.Starred) for x in r.elts) for r in it.elts):
                out: list[Leaf] = []
                for r in it.elts:
                    out += self._lv(r.elts[pos], sc, seen)  # type: ignore[attr-defined]
                return out
        return self._lv(it, sc, seen)

    def _defs(self, name: str, defs: t.Iterable[Def], at: ast.AST, sc: Scope, seen: frozenset[int]) -> list[Leaf]:
        defs = sorted(defs, key=lambda d: (getattr(d.stmt, "lineno", 0), getattr(d.stmt, "col_offset", 0)))
        if not defs:
            if sc.parent is not None:
                # free variable of a nested function: the bindings visible where the function is defined
                pn = sc.parent.cfg.node_of(sc.fn)
                pd = sc.parent.rd.after(pn, name) if pn is not None else frozenset()
                if not pd and name in sc.parent.bind:
                    arg, asc = sc.parent.bind[name]
                    return self._lv(arg, asc, seen)
                return self._defs(name, pd, at, sc.parent, seen)
            return [Leaf("global", at, (), name)]
        out: list[Leaf] = []
        for d in defs:
            if id(d) in seen:
                continue
            s2 = seen | {id(d)}
            if d.kind == "param":
                if name in sc.bind:
                    arg, asc = sc.bind[name]
                    out += self._lv(arg, asc, s2)
                else:
                    out.append(Leaf("param", at, (), name))
            elif d.kind in ("assign", "walrus"):
                out += self._lv(d.value, sc, s2)
            elif d.kind == "unpack":
                v = d.value
                if isinstance(v, (ast.Tuple, ast.List)) and d.index is not None and d.index < len(v.elts) and not any(isinstance(x, ast.Starred) for x in v.elts):
                    out += self._lv(v.elts[d.index], sc, s2)
                elif isinstance(v, ast.Call) and d.index is not None and self.callee_scope(v, sc) is not None:
                    out += self._call(v, sc, s2, d.index)
                else:
                    par = getattr(d.target, "_parent", None)
                    arity = len(par.elts) if isinstance(par, (ast.Tuple, ast.List)) else None
                    tag = peel_tag(v, d.index, arity) if d.index is not None else None
                    out += [l.with_tag(tag) for l in self._lv(v, sc, s2)]
            elif d.kind == "aug":
                if d.node is not None:
                    out += self._defs(name, sc.rd.reaching(d.node, name), at, sc, s2)
                out += self._lv(d.value, sc, s2)
            elif d.kind == "for":
                st = d.stmt
                if isinstance(st, (ast.For, ast.AsyncFor)) and d.index is not None:
                    out += self._element(st.target, st.iter, name, sc, s2)
                else:
                    out += self._lv(d.value, sc, s2)
            else:
                out.append(Leaf("other", d.stmt if isinstance(d.stmt, ast.AST) else at, (), f"{name} bound by {d.kind}"))
        return out

    def _codec_args(self, c: ast.Call, skip: int = 0) -> tuple[str | None, str | None, bool]:
        """(codec, errors, foldable) of an .encode / .decode call; ``skip`` = leading arguments that are not the
        codec (``bytes(s, codec, errors)``, ``str(b, codec, errors)``, ``codecs.encode(s, codec, errors)``)."""
        enc = c.args[skip] if len(c.args) > skip else None
        err = c.args[skip + 1] if len(c.args) > skip + 1 else None
        for kw in c.keywords:
            if kw.arg == "encoding":
                enc = kw.value
            elif kw.arg == "errors":
                err = kw.value
        ok = True
        codec = errors = None
        if enc is not None:
            if isinstance(enc, ast.Constant) and isinstance(enc.value, str):
                codec = enc.value
            else:
                ok = False
                codec = "?" + ast.unparse(enc)
        if err is not None:
            if isinstance(err, ast.Constant) and isinstance(err.value, str):
                errors = err.value
            else:
                errors = "?" + ast.unparse(err)
        return codec, errors, ok

    # -- callees -----------------------------------------------------------
    def callable_target(self, f: ast.AST, sc: Scope, depth: int = 0) -> tuple[str, t.Any, t.Any] | None:
        """what a callee expression denotes: ('nested', def, defining scope) | ('method', FuncInfo, None) |
        ('fq', dotted name, None) | ('lambda', Lambda, scope).  Follows parameters bound to a callable argument
        (``convert`` -> ``_unquote_user``) and plain local aliases."""
        if depth > 6:
            return None
        if isinstance(f, ast.Lambda):
            return "lambda", f, sc
        if isinstance(f, ast.Name):
            node = sc.cfg.node_of(f)
            defs = sc.rd.reaching(node, f.id) if node is not None else frozenset()
            if defs:
                if len(defs) != 1:
                    return None
                d = next(iter(defs))
                if d.kind == "param" and f.id in sc.bind:
                    arg, asc = sc.bind[f.id]
                    return self.callable_target(arg, asc, depth + 1)
                if d.kind == "assign" and d.index is None and isinstance(d.value, (ast.Name, ast.Attribute, ast.Lambda)):
                    return self.callable_target(d.value, sc, depth + 1)
                if d.kind == "def":
                    nf = sc.lookup_nested(f.id)
                    return ("nested", nf[0], nf[1]) if nf is not None else None
                if d.kind == "import":
                    return "fq", self.resolve(f.id, sc), None
                return None
            if node is None and f.id in sc.bind:
                arg, asc = sc.bind[f.id]
                return self.callable_target(arg, asc, depth + 1)
            nf = sc.lookup_nested(f.id)
            if nf is not None:
                return "nested", nf[0], nf[1]
            # free variable of a nested function bound in an enclosing inlined scope
            p = sc.parent
            while p is not None:
                if f.id in p.bind:
                    arg, asc = p.bind[f.id]
                    return self.callable_target(arg, asc, depth + 1)
                p = p.parent
            return "fq", self.resolve(f.id, sc), None
        if isinstance(f, ast.Attribute):
            if isinstance(f.value, ast.Name) and sc.cls is not None and self._is_receiver(f.value.id, sc):
                try:
                    _, what = self.repo.lookup(sc.cls, f.attr)
                except Exception:  # unresolvable base class: the method is simply not looked into
                    return None
                if isinstance(what, FuncInfo):
                    return "method", what, None
                return None
            d = dotted(f)
            return ("fq", self.resolve(d, sc), None) if d else None
        return None

    def _is_receiver(self, name: str, sc: Scope) -> bool:
        top = sc
        while top.parent is not None:
            top = top.parent
        a = top.fn.args  # type: ignore[attr-defined]
        first = (a.posonlyargs + a.args)[:1]
        return bool(first) and first[0].arg == name and name in ("self", "cls") and name not in top.bind

    def callee_scope(self, call: ast.Call, sc: Scope) -> Scope | None:
        """a scope for the body of the helper that ``call`` invokes, with its parameters bound to the arguments
        (evaluated in ``sc``); None when the callee is not a helper that is looked into: only nested functions,
        methods of the same class, lambdas and module-level functions of the package qualify."""
        tgt = self.callable_target(call.func, sc)
        if tgt is None:
            return None
        kind, what, dsc = tgt
        skip = 0
        if kind == "nested":
            fn, parent, module, li, cls = what, dsc, None, None, None
        elif kind == "lambda":
            fn, parent, module, li, cls = what, dsc, None, None, None
        elif kind == "method":
            fi: FuncInfo = what
            decs = fi.decorators
            if any(d.endswith("property") or d.endswith(".setter") for d in decs):
                return None
            skip = 0 if any(d.endswith("staticmethod") for d in decs) else 1
            fn, parent, module, li, cls = fi.node, None, fi.module, fi.module.local_imports(fi.node), fi.cls
            self.inlined[id(fn)] = fi
        else:
            if not what or not what.startswith("werkzeug.") or what in (ENC_DANCE, DEC_DANCE):
                return None
            fi2 = self.repo.try_func(what)
            if fi2 is None or fi2.cls is not None:
                return None
            fn, parent, module, li, cls = fi2.node, None, fi2.module, fi2.module.local_imports(fi2.node), None
            self.inlined[id(fn)] = fi2
        a = fn.args
        if a.vararg is not None or a.kwarg is not None:
            return None
        names = [x.arg for x in a.posonlyargs + a.args][skip:]
        bind: dict[str, tuple[ast.AST, Scope]] = {}
        for i, arg in enumerate(call.args):
            if isinstance(arg, ast.Starred) or i >= len(names):
                return None
            bind[names[i]] = (arg, sc)
        allnames = set(names) | {x.arg for x in a.kwonlyargs}
        for kw in call.keywords:
            if kw.arg is None or kw.arg not in allnames:
                return None
            bind[kw.arg] = (kw.value, sc)
        inner = Scope(fn, parent, bind, module=module, li=li, cls=cls)
        # parameters left to a constant default
        pos = a.posonlyargs + a.args
        for p_, dflt in zip(pos[len(pos) - len(a.defaults):], a.defaults):
            if p_.arg not in bind and isinstance(dflt, ast.Constant):
                bind[p_.arg] = (dflt, inner)
        for p_, dflt in zip(a.kwonlyargs, a.kw_defaults):
            if p_.arg not in bind and isinstance(dflt, ast.Constant):
                bind[p_.arg] = (dflt, inner)
        return inner

    def _call(self, e: ast.Call, sc: Scope, seen: frozenset[int], index: int | None = None) -> list[Leaf]:
        f = e.func
        er = self.environ_read(e, sc)
        if er is not None:
            out = [Leaf("environ", e, (), k) for k in er[0]]
            for dflt in er[1]:
                out += self._lv(dflt, sc, seen)
            return out
        if isinstance(f, ast.Attribute):
            m = f.attr
            if m in TRANSPARENT:
                return self._lv(f.value, sc, seen)
            if m == "join" and len(e.args) == 1:
                return self._lv(f.value, sc, seen) + self._lv(e.args[0], sc, seen)
            if m == "format" and isinstance(f.value, ast.Constant) and isinstance(f.value.value, str):
                out = self._lv(f.value, sc, seen)
                for a in list(e.args) + [k.value for k in e.keywords]:
                    out += self._lv(a, sc, seen)
                return out
            if m in ("encode", "decode") and not self._is_module_name(f.value):
                codec, errors, _ = self._codec_args(e)
                op = Op(m, e, None, codec, errors)
                return [l.with_op(op) for l in self._lv(f.value, sc, seen)]
        tgt = self.callable_target(f, sc)
        d = dotted(f)
        if tgt is None:
            return [Leaf("call", e, (), d)]
        kind, what, _ = tgt
        if kind in ("nested", "lambda", "method"):
            return self._inline(e, sc, seen, index)
        fq = what
        arg0 = e.args[0] if e.args and not isinstance(e.args[0], ast.Starred) else None
        if fq == ENC_DANCE and arg0 is not None:
            return [l.with_op(Op("encdance", e)) for l in self._lv(arg0, sc, seen)]
        if fq == DEC_DANCE and arg0 is not None:
            return [l.with_op(Op("decdance", e)) for l in self._lv(arg0, sc, seen)]
        if fq in QUOTE_FQ and arg0 is not None:
            return [l.with_op(Op("quote", e, fq, None, None, sc)) for l in self._lv(arg0, sc, seen)]
        if fq in UNQUOTE_FQ and arg0 is not None:
            return [l.with_op(Op("unquote", e, fq)) for l in self._lv(arg0, sc, seen)]
        if fq in ("builtins.list", "builtins.tuple", "builtins.sorted", "builtins.reversed", "builtins.iter", "builtins.set", "builtins.frozenset", "builtins.bytearray", "collections.deque") and arg0 is not None and len(e.args) == 1 and (not e.keywords or fq == "builtins.sorted"):
            # same elements: neither encodes nor decodes
            return self._lv(arg0, sc, seen)
        conv = codec_call(fq, e)
        if conv is not None and arg0 is not None:
            # the constructor / codecs spelling of s.encode(codec, errors) and b.decode(codec, errors)
            codec, errors, _ = self._codec_args(e, 1)
            return [l.with_op(Op(conv, e, None, codec, errors)) for l in self._lv(arg0, sc, seen)]
        if fq in ("builtins.str", "builtins.int", "builtins.format") and arg0 is not None and len(e.args) == 1 and not e.keywords:
            return self._lv(arg0, sc, seen)  # the text of the value (one-argument str() does not decode)
        if fq == "builtins.map" and len(e.args) == 2 and not e.keywords and not any(isinstance(a, ast.Starred) for a in e.args):
            return self._lv(self._map_comp(e).elt, sc, seen)  # map(f, xs) delivers f(x) for x in xs
        if fq == "builtins.filter" and len(e.args) == 2 and not e.keywords and not isinstance(e.args[1], ast.Starred):
            return self._lv(e.args[1], sc, seen)  # a selection of the same elements
        if fq in ("itertools.chain", "itertools.chain.from_iterable") and e.args and not e.keywords:
            out = []
            for a in e.args:
                out += self._lv(a, sc, seen)
            return out
        if fq == "builtins.dict" and not e.args:
            out = []
            for k in e.keywords:
                out += self._lv(k.value, sc, seen)
            return out
        if fq and fq.startswith("werkzeug.") and arg0 is not None and len(e.args) == 1 and not e.keywords:
            mn, _, nm = fq.rpartition(".")
            m_ = self.repo.modules.get(mn)
            if m_ is not None and (nm in m_.functions or nm in m_.assigns):
                return [l.with_op(Op("call", e, fq)) for l in self._lv(arg0, sc, seen)]
        if fq and fq.startswith("werkzeug.") and self.callee_scope(e, sc) is not None:
            return self._inline(e, sc, seen, index)
        return [Leaf("call", e, (), fq or d)]

    def _map_comp(self, e: ast.Call) -> ast.GeneratorExp:
        """``map(f, xs)`` rewritten as the generator expression ``(f(x) for x in xs)`` it abbreviates (cached, hung
        into the tree where the call stands so that scopes and comprehension variables resolve as usual)."""
        cache = self.__dict__.setdefault("_map_comps", {})
        if id(e) not in cache:
            var = "__map_item__"
            arg = ast.Name(id=var, ctx=ast.Load())
            call = ast.Call(func=e.args[0], args=[arg], keywords=[])
            gen = ast.comprehension(target=ast.Name(id=var, ctx=ast.Store()), iter=e.args[1], ifs=[], is_async=0)
            comp = ast.GeneratorExp(elt=call, generators=[gen])
            for n in (arg, call, comp, gen.target):
                ast.copy_location(n, e)
            arg._parent, call._parent, comp._parent = call, comp, getattr(e, "_parent", None)  # type: ignore[attr-defined]
            cache[id(e)] = (comp, e)  # keep e alive: the key is its id
        return cache[id(e)][0]

    def _is_module_name(self, v: ast.AST) -> bool:
        """receiver of .encode/.decode is an imported module (``codecs.encode``), not a value."""
        return isinstance(v, ast.Name) and (v.id in self.li or v.id in self.module.imports) and v.id not in self.root.params

    def _inline(self, call: ast.Call, sc: Scope, seen: frozenset[int], index: int | None = None) -> list[Leaf]:
        inner = self.callee_scope(call, sc)
        if inner is None:
            return [Leaf("call", call, (), "unbindable call")]
        fn = inner.fn
        if id(fn) in seen:
            return [Leaf("call", call, (), "recursive")]
        s2 = seen | {id(fn)}
        if isinstance(fn, ast.Lambda):
            return self._returned(fn.body, inner, s2, index)
        out: list[Leaf] = []
        yields = [n for n in walk_no_nested(fn) if isinstance(n, (ast.Yield, ast.YieldFrom))]
        if yields:
            # a generator function: what the call delivers (joined, iterated, unpacked) are the yielded values;
            # which of them and how often is control flow, not origin
            for y in sorted(yields, key=lambda y: (y.lineno, y.col_offset)):
                if y.value is not None:
                    out += self._lv(y.value, inner, s2)
            return out
        rets = [n for n in walk_no_nested(fn) if isinstance(n, ast.Return)]
        for r in sorted(rets, key=lambda r: r.lineno):
            if r.value is None:
                continue
            out += self._returned(r.value, inner, s2, index)
        return out

    def _returned(self, v: ast.AST, sc: Scope, seen: frozenset[int], index: int | None, depth: int = 0) -> list[Leaf]:
        """origins of a returned value; with ``index``: of that element of a returned tuple."""
        if index is None or depth > 4:
            return self._lv(v, sc, seen)
        if isinstance(v, (ast.Tuple, ast.List)) and not any(isinstance(x, ast.Starred) for x in v.elts):
            return self._lv(v.elts[index], sc, seen) if index < len(v.elts) else []
        if isinstance(v, ast.IfExp):
            return self._returned(v.body, sc, seen, index, depth + 1) + self._returned(v.orelse, sc, seen, index, depth + 1)
        if isinstance(v, ast.Name):
            node = sc.cfg.node_of(v)
            defs = sc.rd.reaching(node, v.id) if node is not None else frozenset()
            if defs and all(d.kind == "assign" and d.index is None and isinstance(d.value, (ast.Tuple, ast.List, ast.IfExp)) for d in defs):
                out: list[Leaf] = []
                for d in sorted(defs, key=lambda d: getattr(d.stmt, "lineno", 0)):
                    out += self._returned(d.value, sc, seen, index, depth + 1)  # type: ignore[arg-type]
                return out
        if isinstance(v, ast.Call) and self.callee_scope(v, sc) is not None:
            return self._call(v, sc, seen, index)
        return self._lv(v, sc, seen)


_GROW_ALL = {"append", "appendleft", "extend", "extendleft", "add", "update"}  # every argument goes in
_GROW_LAST = {"insert", "setdefault"}  # (position / key, value)


def _growths(sc: "Scope") -> dict[str, list[tuple[ast.AST, list[ast.AST]]]]:
    """name -> [(statement or call, value expressions put into the object)] for the in-place growth steps of a
    function body (cached on the scope)."""
    tab = getattr(sc, "_growths", None)
    if tab is not None:
        return tab
    tab = {}
    for n in walk_no_nested(sc.fn):
        if isinstance(n, ast.Call) and isinstance(n.func, ast.Attribute) and isinstance(n.func.value, ast.Name):
            m = n.func.attr
            vals: list[ast.AST] | None = None
            if m in _GROW_ALL:
                vals = list(n.args) + [k.value for k in n.keywords]
            elif m in _GROW_LAST and n.args:
                vals = [n.args[-1]]
            if vals:
                tab.setdefault(n.func.value.id, []).append((n, vals))
        elif isinstance(n, (ast.Assign, ast.AugAssign, ast.AnnAssign)) and getattr(n, "value", None) is not None:
            tgs = n.targets if isinstance(n, ast.Assign) else [n.target]
            for tg in tgs:
                if isinstance(tg, ast.Subscript) and isinstance(tg.value, ast.Name):
                    tab.setdefault(tg.value.id, []).append((n, [n.value]))
    sc._growths = tab  # type: ignore[attr-defined]
    return tab


def table_values(name: ast.Name, stop: ast.AST | None = None) -> list[str] | None:
    """the string constants a loop / comprehension variable takes when it runs over a literal table: rows that are
    constants (``for k in ("A", "B")``) or equally long tuples of which the variable is one position
    (``for arg, k in (("a", "A"), ("b", "B"))``).  None when the variable is not bound that way."""
    cur = getattr(name, "_parent", None)
    while cur is not None:
        pairs: list[tuple[ast.AST, ast.AST]] = []
        if isinstance(cur, (ast.ListComp, ast.SetComp, ast.GeneratorExp, ast.DictComp)):
            pairs = [(g.target, g.iter) for g in cur.generators]
        elif isinstance(cur, (ast.For, ast.AsyncFor)):
            pairs = [(cur.target, cur.iter)]
        for target, it in pairs:
            pos: int | None = None
            if isinstance(target, ast.Name) and target.id == name.id:
                pos = -1
            elif isinstance(target, (ast.Tuple, ast.List)):
                pos = next((i for i, x in enumerate(target.elts) if isinstance(x, ast.Name) and x.id == name.id), None)
                if pos is None and any(isinstance(x, ast.Name) and x.id == name.id for x in ast.walk(target)):
                    return None
            if pos is None:
                continue
            if isinstance(it, ast.Call) and isinstance(it.func, ast.Attribute) and it.func.attr == "items" and not it.args and isinstance(it.func.value, ast.Dict) and pos in (0, 1):
                rows: list[ast.AST] = list(it.func.value.keys if pos == 0 else it.func.value.values)  # type: ignore[arg-type]
                pos = -1
            elif isinstance(it, (ast.Tuple, ast.List, ast.Set)):
                rows = list(it.elts)
            elif isinstance(it, ast.Dict) and pos == -1:
                rows = list(it.keys)  # type: ignore[arg-type]
            else:
                return None
            out: list[str] = []
            for r in rows:
                if pos >= 0:
                    if not isinstance(r, (ast.Tuple, ast.List)) or len(r.elts) != len(target.elts):  # type: ignore[union-attr]
                        return None
                    r = r.elts[pos]
                if not (isinstance(r, ast.Constant) and isinstance(r.value, str)):
                    return None
                out.append(r.value)
            return out or None
        if cur is stop or isinstance(cur, (ast.FunctionDef, ast.AsyncFunctionDef, ast.Lambda)):
            return None
        cur = getattr(cur, "_parent", None)
    return None


def codec_call(fq: str | None, e: ast.Call) -> str | None:
    """'encode' / 'decode' when the call is the function spelling of a codec step: ``bytes(s, codec[, errors])``,
    ``str(b, codec[, errors])``, ``codecs.encode(s[, codec])``, ``codecs.decode(b[, codec])``."""
    coded = len(e.args) >= 2 or any(k.arg in ("encoding", "errors") for k in e.keywords)
    if fq in ("builtins.bytes", "builtins.bytearray") and coded:
        return "encode"
    if fq == "builtins.str" and coded:
        return "decode"
    if fq == "codecs.encode":
        return "encode"
    if fq == "codecs.decode":
        return "decode"
    return None


def peel_tag(call: ast.AST | None, index: int, arity: int | None) -> str | None:
    """'tail' / 'head' for the pieces of ``x.rsplit(sep, 1)`` / ``x.rpartition(sep)`` taken by position."""
    if not (isinstance(call, ast.Call) and isinstance(call.func, ast.Attribute)):
        return None
    m = call.func.attr
    if m == "rpartition":
        width = 3
    elif m == "rsplit":
        ms = call.args[1] if len(call.args) > 1 else next((k.value for k in call.keywords if k.arg == "maxsplit"), None)
        if not (isinstance(ms, ast.Constant) and ms.value == 1):
            return None
        width = 2
    else:
        return None
    if arity is not None and arity != width:
        return None
    if index in (width - 1, -1):
        return "tail"
    if index in (0, -width):
        return "head"
    return None


def slice_peel(sc: "Scope", e: ast.Subscript) -> str | None:
    """``x[i + 1:]`` / ``x[:i]`` with ``i = x.rfind(sep)`` / ``x.rindex(sep)``: 'tail' / 'head' (as peel_tag)."""
    sl = e.slice
    if not isinstance(sl, ast.Slice) or sl.step is not None:
        return None

    def from_rfind(b: ast.AST | None) -> bool:
        if b is None:
            return False
        for n in ast.walk(b):
            c = None
            if isinstance(n, ast.Call):
                c = n
            elif isinstance(n, ast.Name):
                node = sc.cfg.node_of(n)
                ds = sc.rd.reaching(node, n.id) if node is not None else frozenset()
                if len(ds) == 1 and next(iter(ds)).kind in ("assign", "walrus") and next(iter(ds)).index is None:
                    c = next(iter(ds)).value
            if isinstance(c, ast.Call) and isinstance(c.func, ast.Attribute) and c.func.attr in ("rfind", "rindex") and len(c.args) == 1:
                return True
        return False

    if sl.upper is None and from_rfind(sl.lower):
        return "tail"
    if sl.lower is None and from_rfind(sl.upper):
        return "head"
    return None


def _is_env_key(k: str) -> bool:
    return k in TEXT_KEYS or k in ("REQUEST_URI", "RAW_URI") or k.startswith("HTTP_")


def expand(flow: Flow, leaf: Leaf, keep: t.Callable[[str], bool] | None = None, depth: int = 0) -> list[Leaf]:
    """replace a recorded call of a module-level *function* of the package (``helper(x)``) by what the function
    does to its first parameter ("helper extracted" must not change the verdict). Calls for which ``keep(fq)``
    holds, methods, and callables that are not plain functions stay as recorded."""
    if depth > 4:
        return [leaf]
    for i, op in enumerate(leaf.ops):
        if op.kind != "call" or not op.target or (keep is not None and keep(op.target)):
            continue
        fi = flow.repo.try_func(op.target)
        if fi is None or fi.cls is not None or not fi.params:
            continue
        inner = Flow(flow.repo, fi)
        out: list[Leaf] = []
        for r in [n for n in walk_no_nested(fi.node) if isinstance(n, ast.Return)]:
            for il in inner.leaves(r.value) if r.value is not None else []:
                if il.kind == "param" and il.key == fi.params[0]:
                    nl = Leaf(leaf.kind, leaf.node, leaf.ops[:i] + il.ops + leaf.ops[i + 1 :], leaf.key, leaf.tags | il.tags)
                else:
                    nl = Leaf(il.kind, il.node, il.ops + leaf.ops[i + 1 :], il.key, il.tags)
                out += expand(flow, nl, keep, depth + 1)
        return out or [leaf]
    return [leaf]


# ---------------------------------------------------------------------
# transport class


def text_class(leaf: Leaf) -> tuple[str, str]:
    """(class, explanation) of the value a leaf contributes after its operations."""
    if leaf.kind == "const":
        v = getattr(leaf.node, "value", None)
        if v is None or isinstance(v, (int, bool)):
            cls = "A"
        elif isinstance(v, str):
            cls = "A" if v.isascii() else "D"
        elif isinstance(v, bytes):
            cls = "B"
        else:
            cls = "X"
    elif leaf.kind == "environ":
        cls = "T"
    else:
        cls = "X"
    why = [cls]
    for op in leaf.ops:
        if cls == "M":
            break
        if op.kind == "quote":
            cls = "A"
        elif op.kind == "unquote":
            cls = {"A": "X", "D": "D", "X": "X"}.get(cls, "M")
        elif op.kind == "encdance":
            cls = "M" if cls in ("T", "B") else "T"
        elif op.kind == "decdance":
            cls = {"T": "D", "X": "D", "A": "A"}.get(cls, "M")
        elif op.kind == "encode":
            k = codec_kind(op.codec)
            if cls == "A":
                cls = "B"
            elif cls == "T":
                cls = "B" if k == "L" else "M"
            elif cls == "D":
                cls = "B" if k == "U" else "M"
            elif cls == "X":
                cls = "B" if k in ("U", "L") else "X"
            else:
                cls = "M"
        elif op.kind == "decode":
            k = codec_kind(op.codec)
            if cls in ("B", "X"):
                cls = {"U": "D", "L": "T"}.get(k, "M" if cls == "B" else "X")
            else:
                cls = "M"
        else:
            cls = "X"
        why.append(f"{op.text()}->{cls}")
    return cls, " ".join(why)


# ---------------------------------------------------------------------
# forward: where does the value of an expression escape to


def _value_parent(cur: ast.AST, flow: Flow) -> tuple[str, ast.AST | None]:
    """one step outwards from cur. ('up', node) continue at node; ('test', None) value only tested;
    ('bind', stmt) assigned to local name(s); ('stop', None) cur is the escaping expression."""
    p = getattr(cur, "_parent", None)
    if p is None:
        return "stop", None
    if isinstance(p, ast.BoolOp):
        # operands of a BoolOp that is itself a branch condition are only tested
        if _in_test_position(p):
            return "test", None
        return "up", p
    if isinstance(p, ast.IfExp):
        return ("test", None) if p.test is cur else ("up", p)
    if isinstance(p, (ast.If, ast.While, ast.Assert)) and p.test is cur:
        return "test", None
    if isinstance(p, ast.UnaryOp) and isinstance(p.op, ast.Not):
        return "test", None
    if isinstance(p, ast.Compare):
        return "test", None
    if isinstance(p, ast.Subscript) and p.value is cur:
        return "up", p
    if isinstance(p, (ast.JoinedStr, ast.FormattedValue, ast.Starred)):
        return "up", p
    if isinstance(p, ast.BinOp) and isinstance(p.op, ast.Add):
        return "up", p
    if isinstance(p, ast.Attribute) and p.value is cur:
        gp = getattr(p, "_parent", None)
        if isinstance(gp, ast.Call) and gp.func is p and (p.attr in TRANSPARENT or p.attr in ("encode", "decode")):
            return "up", gp
        return "stop", None
    if isinstance(p, ast.Call) and p.args and p.args[0] is cur:
        d = dotted(p.func)
        fq = flow.resolve(d) if d else None
        if fq in (ENC_DANCE, DEC_DANCE) or fq in QUOTE_FQ or fq in UNQUOTE_FQ or codec_call(fq, p) is not None:
            return "up", p
        if isinstance(p.func, ast.Attribute) and p.func.attr == "join":
            return "up", p
    if isinstance(p, ast.Call) and (any(a is cur for a in p.args) or any(k.value is cur for k in p.keywords)):
        # an argument of a helper that is looked into stays inside the tracked world - unless the value is
        # already decoded at this point (what the helper then does with decoded text is not this property's business)
        if lookable(flow, p) and not _already_decoded(flow, cur):
            return "up", p
        return "stop", None
    if isinstance(p, (ast.Assign, ast.AnnAssign, ast.NamedExpr)) and getattr(p, "value", None) is cur:
        tgs = p.targets if isinstance(p, ast.Assign) else [p.target]
        if all(_simple_target(tg) for tg in tgs):
            return "bind", p
        return "stop", None
    return "stop", None


def lookable(flow: Flow, call: ast.Call) -> bool:
    """the callee is a helper whose body the origin analysis follows (inlined, or recorded and expanded)."""
    sc = flow.scope_of(call)
    if flow.callee_scope(call, sc) is not None:
        return True
    tgt = flow.callable_target(call.func, sc)
    if tgt is None or tgt[0] != "fq" or not tgt[1] or not tgt[1].startswith("werkzeug."):
        return False
    fi = flow.repo.try_func(tgt[1])
    return fi is not None and fi.cls is None and len(call.args) == 1 and not call.keywords


def _already_decoded(flow: Flow, e: ast.AST) -> bool:
    env = [l for l0 in flow.leaves(e) for l in expand(flow, l0) if l.kind == "environ"]
    return bool(env) and all(text_class(l)[0] in ("D", "B") for l in env)


def _in_test_position(e: ast.AST) -> bool:
    p = getattr(e, "_parent", None)
    while isinstance(p, (ast.BoolOp, ast.UnaryOp)):
        e, p = p, getattr(p, "_parent", None)
    return isinstance(p, (ast.If, ast.While, ast.Assert, ast.IfExp)) and p.test is e


def _simple_target(tg: ast.AST) -> bool:
    if isinstance(tg, ast.Name):
        return True
    if isinstance(tg, (ast.Tuple, ast.List)):
        return all(_simple_target(x.value if isinstance(x, ast.Starred) else x) for x in tg.elts)
    return False


def _target_names(p: ast.AST) -> list[str]:
    tgs = p.targets if isinstance(p, ast.Assign) else [p.target]  # type: ignore[attr-defined]
    out = []
    for tg in tgs:
        for n in ast.walk(tg):
            if isinstance(n, ast.Name):
                out.append(n.id)
    return out


def escapes(flow: Flow, site: ast.AST, _seen: set[int] | None = None) -> list[ast.AST]:
    """maximal expressions through which the value read at *site* leaves the tracked world
    (argument of a foreign call, return value, store into an attribute / subscript, dict value ...)."""
    seen = _seen if _seen is not None else set()
    if id(site) in seen:
        return []
    seen.add(id(site))
    cur = site
    while True:
        kind, nxt = _value_parent(cur, flow)
        if kind == "up":
            cur = nxt  # type: ignore[assignment]
            continue
        if kind == "test":
            return []
        if kind == "stop":
            return [cur]
        # bind: follow every later use of the bound names that this definition reaches
        stmt = nxt
        sc = flow.scope_of(cur)
        out: list[ast.AST] = []
        names = set(_target_names(stmt))  # type: ignore[arg-type]
        for u in ast.walk(sc.fn):
            if isinstance(u, ast.Name) and isinstance(u.ctx, ast.Load) and u.id in names:
                usc = flow.scope_of(u)
                if usc is sc:
                    n = sc.cfg.node_of(u)
                    ds = sc.rd.reaching(n, u.id) if n is not None else frozenset()
                    if any(d.stmt is stmt for d in ds):
                        out += escapes(flow, u, seen)
                else:
                    # read by a nested function (closure): conservatively an escape of the raw value
                    out.append(u)
        return out
