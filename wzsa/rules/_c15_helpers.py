"""helpers for C15: backward value-origin evaluation with operation traces.

``Flow(repo, fi).leaves(expr)`` answers "which terminal expressions can the value
of *expr* be built from, and which non-transparent operations were applied on the
way" - flow-sensitive (reaching definitions over the CFG), through local names,
tuple unpacking of split-family calls, loop-carried accumulation, f-strings,
concatenation, ``or`` defaults and calls of nested helper functions (inlined).

Transparent (they keep every character of the operand that they keep at all, so
they neither encode nor decode): slicing / indexing, ``split rsplit partition
rpartition strip lstrip rstrip removeprefix removesuffix join``, ``+``, f-strings,
``a or b``, ``a if c else b``.

Recorded operations: the two WSGI dances, ``quote`` / ``unquote`` (urllib),
``.encode(codec)`` / ``.decode(codec)``, and a call of a module-level callable of
the package with a single positional argument (``_unquote_path(x)``).

On top of the leaves, :func:`text_class` assigns the *transport class* of a text:

    T  latin-1 tunnelled str (what PEP 3333 wants in environ)       A  ASCII constant
    B  the raw request bytes                                         D  decoded text
    X  unknown (attribute, parameter, foreign call)                  M  mis-transcoded
"""

from __future__ import annotations

import ast
import typing as t

from ..cfg import CFG
from ..dataflow import Def, ReachingDefs
from ..loader import FuncInfo, Repo, dotted, walk_no_nested

ENC_DANCE = "werkzeug._internal._wsgi_encoding_dance"
DEC_DANCE = "werkzeug._internal._wsgi_decoding_dance"
QUOTE_FQ = {"urllib.parse.quote", "urllib.parse.quote_plus"}
UNQUOTE_FQ = {"urllib.parse.unquote", "urllib.parse.unquote_plus"}
TRANSPARENT = {"split", "rsplit", "partition", "rpartition", "strip", "lstrip", "rstrip", "removeprefix", "removesuffix"}
TEXT_KEYS = ("PATH_INFO", "QUERY_STRING", "SCRIPT_NAME")

# codec aliases (python's encodings.aliases, the relevant rows; names normalised: lower case, '_' -> '-')
UTF8 = {"utf-8", "utf8", "u8", "utf", "utf8-ucs2", "utf8-ucs4", "cp65001"}
LATIN1 = {"latin1", "latin-1", "iso-8859-1", "iso8859-1", "8859", "cp819", "latin", "l1", "iso-ir-100", "ibm819", "csisolatin1"}
ASCII = {"ascii", "us-ascii", "646", "ansi-x3.4-1968", "iso646-us", "us", "cp367", "ibm367"}


def codec_kind(name: str | None) -> str:
    """'U' utf-8, 'L' latin-1 (the one total, identity-mapped single byte codec), 'ASCII', 'idna', else 'other'."""
    if name is None:
        return "U"  # str.encode() / bytes.decode() default
    n = name.lower().replace("_", "-")
    if n in UTF8:
        return "U"
    if n in LATIN1:
        return "L"
    if n in ASCII:
        return "ASCII"
    if n == "idna":
        return "idna"
    return "other"


class Op(t.NamedTuple):
    kind: str  # quote unquote encdance decdance encode decode call
    node: ast.Call
    target: str | None = None  # fq of the callee for kind == call
    codec: str | None = None  # raw codec name for encode / decode (None = default)
    errors: str | None = None

    def text(self) -> str:
        if self.kind in ("encode", "decode"):
            return f"{self.kind}({self.codec or 'utf-8 (default)'}{', errors=' + self.errors if self.errors else ''})"
        if self.kind == "call":
            return (self.target or "?").rsplit(".", 1)[-1]
        return self.kind


class Leaf(t.NamedTuple):
    kind: str  # const environ attr param global call other
    node: ast.AST | None
    ops: tuple[Op, ...] = ()
    key: str | None = None  # environ key / attribute text / parameter name

    def with_op(self, op: Op) -> "Leaf":
        return Leaf(self.kind, self.node, self.ops + (op,), self.key)

    def text(self) -> str:
        if self.kind == "const":
            base = repr(getattr(self.node, "value", None))
        elif self.kind == "environ":
            base = f"environ[{self.key!r}]"
        else:
            base = self.key or (ast.unparse(self.node)[:50] if self.node is not None else self.kind)
        for o in self.ops:
            base = f"{o.text()}({base})"
        return base


class Scope:
    def __init__(self, fn: ast.AST, parent: "Scope | None" = None, bind: dict[str, tuple[ast.AST, "Scope"]] | None = None):
        self.fn = fn
        self.parent = parent
        self.bind = bind or {}
        self.cfg = CFG(fn)
        a = fn.args  # type: ignore[attr-defined]
        self.params = [x.arg for x in a.posonlyargs + a.args + a.kwonlyargs] + ([a.vararg.arg] if a.vararg else []) + ([a.kwarg.arg] if a.kwarg else [])
        self.rd = ReachingDefs(self.cfg, self.params)
        self.nested = {n.name: n for n in walk_no_nested(fn) if isinstance(n, (ast.FunctionDef, ast.AsyncFunctionDef))}

    def lookup_nested(self, name: str) -> tuple[ast.AST, "Scope"] | None:
        sc: Scope | None = self
        while sc is not None:
            if name in sc.nested:
                return sc.nested[name], sc
            sc = sc.parent
        return None


class Flow:
    def __init__(self, repo: Repo, fi: FuncInfo):
        self.repo = repo
        self.fi = fi
        self.module = fi.module
        self.li = fi.module.local_imports(fi.node)
        self.root = Scope(fi.node)
        self._nested_scopes: dict[int, Scope] = {}

    # -- resolution ------------------------------------------------------
    def resolve(self, d: str | None) -> str | None:
        if not d:
            return None
        return self.repo.resolve(self.module, d, self.li)

    def scope_of(self, node: ast.AST) -> Scope:
        """scope (outer function or a directly nested def, un-inlined) that contains node."""
        cur = getattr(node, "_parent", None)
        chain = []
        while cur is not None and cur is not self.fi.node:
            if isinstance(cur, (ast.FunctionDef, ast.AsyncFunctionDef)):
                chain.append(cur)
            cur = getattr(cur, "_parent", None)
        sc = self.root
        for fn in reversed(chain):
            key = id(fn)
            if key not in self._nested_scopes:
                self._nested_scopes[key] = Scope(fn, sc)
            sc = self._nested_scopes[key]
        return sc

    def const_key(self, e: ast.AST, sc: Scope) -> str | None:
        if isinstance(e, ast.Constant) and isinstance(e.value, str):
            return e.value
        if isinstance(e, ast.Name) and e.id in sc.bind:
            arg, asc = sc.bind[e.id]
            return self.const_key(arg, asc)
        return None

    def environ_read(self, e: ast.AST, sc: Scope) -> tuple[str, list[ast.AST]] | None:
        """``X[K]`` / ``X.get(K[, default])`` with K a WSGI text key -> (K, default exprs)."""
        if isinstance(e, ast.Subscript) and not isinstance(e.slice, ast.Slice):
            k = self.const_key(e.slice, sc)
            if k is not None and _is_env_key(k):
                return k, []
        if isinstance(e, ast.Call) and isinstance(e.func, ast.Attribute) and e.func.attr == "get" and e.args:
            k = self.const_key(e.args[0], sc)
            if k is not None and _is_env_key(k):
                return k, list(e.args[1:])
        return None

    # -- backward evaluation ---------------------------------------------
    def leaves(self, e: ast.AST | None, sc: Scope | None = None) -> list[Leaf]:
        return self._lv(e, sc or (self.scope_of(e) if e is not None else self.root), frozenset())

    def _lv(self, e: ast.AST | None, sc: Scope, seen: frozenset[int]) -> list[Leaf]:
        if e is None:
            return []
        if isinstance(e, ast.Constant):
            return [Leaf("const", e)]
        if isinstance(e, ast.JoinedStr):
            out: list[Leaf] = []
            for v in e.values:
                out += self._lv(v, sc, seen)
            return out
        if isinstance(e, ast.FormattedValue):
            return self._lv(e.value, sc, seen)
        if isinstance(e, ast.BinOp) and isinstance(e.op, ast.Add):
            return self._lv(e.left, sc, seen) + self._lv(e.right, sc, seen)
        if isinstance(e, ast.BoolOp):
            out = []
            for v in e.values:
                out += self._lv(v, sc, seen)
            return out
        if isinstance(e, ast.IfExp):
            return self._lv(e.body, sc, seen) + self._lv(e.orelse, sc, seen)
        if isinstance(e, (ast.NamedExpr, ast.Starred)):
            return self._lv(e.value, sc, seen)
        if isinstance(e, (ast.Tuple, ast.List)):
            out = []
            for v in e.elts:
                out += self._lv(v, sc, seen)
            return out
        if isinstance(e, ast.Subscript):
            er = self.environ_read(e, sc)
            if er is not None:
                return [Leaf("environ", e, (), er[0])]
            return self._lv(e.value, sc, seen)
        if isinstance(e, ast.Attribute):
            return [Leaf("attr", e, (), ast.unparse(e))]
        if isinstance(e, ast.Name):
            return self._name(e, sc, seen)
        if isinstance(e, ast.Call):
            return self._call(e, sc, seen)
        return [Leaf("other", e, (), None)]

    def _name(self, e: ast.Name, sc: Scope, seen: frozenset[int]) -> list[Leaf]:
        if e.id in sc.bind:
            arg, asc = sc.bind[e.id]
            return self._lv(arg, asc, seen)
        node = sc.cfg.node_of(e)
        defs = sc.rd.reaching(node, e.id) if node is not None else frozenset()
        return self._defs(e.id, defs, e, sc, seen)

    def _defs(self, name: str, defs: t.Iterable[Def], at: ast.AST, sc: Scope, seen: frozenset[int]) -> list[Leaf]:
        defs = sorted(defs, key=lambda d: (getattr(d.stmt, "lineno", 0), getattr(d.stmt, "col_offset", 0)))
        if not defs:
            if sc.parent is not None:
                # free variable of a nested function: the bindings visible where the function is defined
                if name in sc.parent.bind:
                    arg, asc = sc.parent.bind[name]
                    return self._lv(arg, asc, seen)
                pn = sc.parent.cfg.node_of(sc.fn)
                pd = sc.parent.rd.after(pn, name) if pn is not None else frozenset()
                return self._defs(name, pd, at, sc.parent, seen)
            return [Leaf("global", at, (), name)]
        out: list[Leaf] = []
        for d in defs:
            if id(d) in seen:
                continue
            s2 = seen | {id(d)}
            if d.kind == "param":
                out.append(Leaf("param", at, (), name))
            elif d.kind in ("assign", "walrus"):
                out += self._lv(d.value, sc, s2)
            elif d.kind == "unpack":
                v = d.value
                if isinstance(v, (ast.Tuple, ast.List)) and d.index is not None and d.index < len(v.elts) and not any(isinstance(x, ast.Starred) for x in v.elts):
                    out += self._lv(v.elts[d.index], sc, s2)
                else:
                    out += self._lv(v, sc, s2)
            elif d.kind == "aug":
                if d.node is not None:
                    out += self._defs(name, sc.rd.reaching(d.node, name), at, sc, s2)
                out += self._lv(d.value, sc, s2)
            elif d.kind == "for":
                out += self._lv(d.value, sc, s2)
            else:
                out.append(Leaf("other", d.stmt if isinstance(d.stmt, ast.AST) else at, (), f"{name} bound by {d.kind}"))
        return out

    def _codec_args(self, c: ast.Call) -> tuple[str | None, str | None, bool]:
        """(codec, errors, foldable) of an .encode / .decode call."""
        enc = c.args[0] if c.args else None
        err = c.args[1] if len(c.args) > 1 else None
        for kw in c.keywords:
            if kw.arg == "encoding":
                enc = kw.value
            elif kw.arg == "errors":
                err = kw.value
        ok = True
        codec = errors = None
        if enc is not None:
            if isinstance(enc, ast.Constant) and isinstance(enc.value, str):
                codec = enc.value
            else:
                ok = False
                codec = "?" + ast.unparse(enc)
        if err is not None:
            if isinstance(err, ast.Constant) and isinstance(err.value, str):
                errors = err.value
            else:
                errors = "?" + ast.unparse(err)
        return codec, errors, ok

    def _call(self, e: ast.Call, sc: Scope, seen: frozenset[int]) -> list[Leaf]:
        f = e.func
        er = self.environ_read(e, sc)
        if er is not None:
            out = [Leaf("environ", e, (), er[0])]
            for dflt in er[1]:
                out += self._lv(dflt, sc, seen)
            return out
        if isinstance(f, ast.Attribute):
            m = f.attr
            if m in TRANSPARENT:
                return self._lv(f.value, sc, seen)
            if m == "join" and len(e.args) == 1:
                return self._lv(f.value, sc, seen) + self._lv(e.args[0], sc, seen)
            if m in ("encode", "decode") and not self._is_module_name(f.value):
                codec, errors, _ = self._codec_args(e)
                op = Op(m, e, None, codec, errors)
                return [l.with_op(op) for l in self._lv(f.value, sc, seen)]
        d = dotted(f)
        if d is None:
            return [Leaf("call", e, (), None)]
        if isinstance(f, ast.Name):
            nf = sc.lookup_nested(f.id)
            if nf is not None:
                return self._inline(nf[0], nf[1], e, sc, seen)
        fq = self.resolve(d)
        arg0 = e.args[0] if e.args and not isinstance(e.args[0], ast.Starred) else None
        if fq == ENC_DANCE and arg0 is not None:
            return [l.with_op(Op("encdance", e)) for l in self._lv(arg0, sc, seen)]
        if fq == DEC_DANCE and arg0 is not None:
            return [l.with_op(Op("decdance", e)) for l in self._lv(arg0, sc, seen)]
        if fq in QUOTE_FQ and arg0 is not None:
            return [l.with_op(Op("quote", e, fq)) for l in self._lv(arg0, sc, seen)]
        if fq in UNQUOTE_FQ and arg0 is not None:
            return [l.with_op(Op("unquote", e, fq)) for l in self._lv(arg0, sc, seen)]
        if fq and fq.startswith("werkzeug.") and arg0 is not None and len(e.args) == 1 and not e.keywords:
            mn, _, nm = fq.rpartition(".")
            m_ = self.repo.modules.get(mn)
            if m_ is not None and (nm in m_.functions or nm in m_.assigns):
                return [l.with_op(Op("call", e, fq)) for l in self._lv(arg0, sc, seen)]
        return [Leaf("call", e, (), fq or d)]

    def _is_module_name(self, v: ast.AST) -> bool:
        """receiver of .encode/.decode is an imported module (``codecs.encode``), not a value."""
        return isinstance(v, ast.Name) and (v.id in self.li or v.id in self.module.imports) and v.id not in self.root.params

    def _inline(self, fn: ast.AST, def_scope: Scope, call: ast.Call, sc: Scope, seen: frozenset[int]) -> list[Leaf]:
        if id(fn) in seen:
            return [Leaf("call", call, (), "recursive")]
        a = fn.args  # type: ignore[attr-defined]
        names = [x.arg for x in a.posonlyargs + a.args]
        bind: dict[str, tuple[ast.AST, Scope]] = {}
        for i, arg in enumerate(call.args):
            if isinstance(arg, ast.Starred) or i >= len(names):
                return [Leaf("call", call, (), "unbindable call")]
            bind[names[i]] = (arg, sc)
        for kw in call.keywords:
            if kw.arg is None:
                return [Leaf("call", call, (), "unbindable call")]
            bind[kw.arg] = (kw.value, sc)
        inner = Scope(fn, def_scope, bind)
        out: list[Leaf] = []
        rets = [n for n in walk_no_nested(fn) if isinstance(n, ast.Return)]
        for r in sorted(rets, key=lambda r: r.lineno):
            if r.value is None:
                continue
            out += self._lv(r.value, inner, seen | {id(fn)})
        return out


def _is_env_key(k: str) -> bool:
    return k in TEXT_KEYS or k in ("REQUEST_URI", "RAW_URI") or k.startswith("HTTP_")


def expand(flow: Flow, leaf: Leaf, keep: t.Callable[[str], bool] | None = None, depth: int = 0) -> list[Leaf]:
    """replace a recorded call of a module-level *function* of the package (``helper(x)``) by what the function
    does to its first parameter ("helper extracted" must not change the verdict). Calls for which ``keep(fq)``
    holds, methods, and callables that are not plain functions stay as recorded."""
    if depth > 4:
        return [leaf]
    for i, op in enumerate(leaf.ops):
        if op.kind != "call" or not op.target or (keep is not None and keep(op.target)):
            continue
        fi = flow.repo.try_func(op.target)
        if fi is None or fi.cls is not None or not fi.params:
            continue
        inner = Flow(flow.repo, fi)
        out: list[Leaf] = []
        for r in [n for n in walk_no_nested(fi.node) if isinstance(n, ast.Return)]:
            for il in inner.leaves(r.value) if r.value is not None else []:
                if il.kind == "param" and il.key == fi.params[0]:
                    nl = Leaf(leaf.kind, leaf.node, leaf.ops[:i] + il.ops + leaf.ops[i + 1 :], leaf.key)
                else:
                    nl = Leaf(il.kind, il.node, il.ops + leaf.ops[i + 1 :], il.key)
                out += expand(flow, nl, keep, depth + 1)
        return out or [leaf]
    return [leaf]


# ---------------------------------------------------------------------
# transport class


def text_class(leaf: Leaf) -> tuple[str, str]:
    """(class, explanation) of the value a leaf contributes after its operations."""
    if leaf.kind == "const":
        v = getattr(leaf.node, "value", None)
        if v is None or isinstance(v, (int, bool)):
            cls = "A"
        elif isinstance(v, str):
            cls = "A" if v.isascii() else "D"
        elif isinstance(v, bytes):
            cls = "B"
        else:
            cls = "X"
    elif leaf.kind == "environ":
        cls = "T"
    else:
        cls = "X"
    why = [cls]
    for op in leaf.ops:
        if cls == "M":
            break
        if op.kind == "quote":
            cls = "A"
        elif op.kind == "unquote":
            cls = {"A": "X", "D": "D", "X": "X"}.get(cls, "M")
        elif op.kind == "encdance":
            cls = "M" if cls in ("T", "B") else "T"
        elif op.kind == "decdance":
            cls = {"T": "D", "X": "D", "A": "A"}.get(cls, "M")
        elif op.kind == "encode":
            k = codec_kind(op.codec)
            if cls == "A":
                cls = "B"
            elif cls == "T":
                cls = "B" if k == "L" else "M"
            elif cls == "D":
                cls = "B" if k == "U" else "M"
            elif cls == "X":
                cls = "B" if k in ("U", "L") else "X"
            else:
                cls = "M"
        elif op.kind == "decode":
            k = codec_kind(op.codec)
            if cls in ("B", "X"):
                cls = {"U": "D", "L": "T"}.get(k, "M" if cls == "B" else "X")
            else:
                cls = "M"
        else:
            cls = "X"
        why.append(f"{op.text()}->{cls}")
    return cls, " ".join(why)


# ---------------------------------------------------------------------
# forward: where does the value of an expression escape to


def _value_parent(cur: ast.AST, flow: Flow) -> tuple[str, ast.AST | None]:
    """one step outwards from cur. ('up', node) continue at node; ('test', None) value only tested;
    ('bind', stmt) assigned to local name(s); ('stop', None) cur is the escaping expression."""
    p = getattr(cur, "_parent", None)
    if p is None:
        return "stop", None
    if isinstance(p, ast.BoolOp):
        # operands of a BoolOp that is itself a branch condition are only tested
        if _in_test_position(p):
            return "test", None
        return "up", p
    if isinstance(p, ast.IfExp):
        return ("test", None) if p.test is cur else ("up", p)
    if isinstance(p, (ast.If, ast.While, ast.Assert)) and p.test is cur:
        return "test", None
    if isinstance(p, ast.UnaryOp) and isinstance(p.op, ast.Not):
        return "test", None
    if isinstance(p, ast.Compare):
        return "test", None
    if isinstance(p, ast.Subscript) and p.value is cur:
        return "up", p
    if isinstance(p, (ast.JoinedStr, ast.FormattedValue, ast.Starred)):
        return "up", p
    if isinstance(p, ast.BinOp) and isinstance(p.op, ast.Add):
        return "up", p
    if isinstance(p, ast.Attribute) and p.value is cur:
        gp = getattr(p, "_parent", None)
        if isinstance(gp, ast.Call) and gp.func is p and (p.attr in TRANSPARENT or p.attr in ("encode", "decode")):
            return "up", gp
        return "stop", None
    if isinstance(p, ast.Call) and p.args and p.args[0] is cur:
        d = dotted(p.func)
        fq = flow.resolve(d) if d else None
        if fq in (ENC_DANCE, DEC_DANCE) or fq in QUOTE_FQ or fq in UNQUOTE_FQ:
            return "up", p
        if isinstance(p.func, ast.Attribute) and p.func.attr == "join":
            return "up", p
        return "stop", None
    if isinstance(p, (ast.Assign, ast.AnnAssign, ast.NamedExpr)) and getattr(p, "value", None) is cur:
        tgs = p.targets if isinstance(p, ast.Assign) else [p.target]
        if all(_simple_target(tg) for tg in tgs):
            return "bind", p
        return "stop", None
    return "stop", None


def _in_test_position(e: ast.AST) -> bool:
    p = getattr(e, "_parent", None)
    while isinstance(p, (ast.BoolOp, ast.UnaryOp)):
        e, p = p, getattr(p, "_parent", None)
    return isinstance(p, (ast.If, ast.While, ast.Assert, ast.IfExp)) and p.test is e


def _simple_target(tg: ast.AST) -> bool:
    if isinstance(tg, ast.Name):
        return True
    if isinstance(tg, (ast.Tuple, ast.List)):
        return all(_simple_target(x.value if isinstance(x, ast.Starred) else x) for x in tg.elts)
    return False


def _target_names(p: ast.AST) -> list[str]:
    tgs = p.targets if isinstance(p, ast.Assign) else [p.target]  # type: ignore[attr-defined]
    out = []
    for tg in tgs:
        for n in ast.walk(tg):
            if isinstance(n, ast.Name):
                out.append(n.id)
    return out


def escapes(flow: Flow, site: ast.AST, _seen: set[int] | None = None) -> list[ast.AST]:
    """maximal expressions through which the value read at *site* leaves the tracked world
    (argument of a foreign call, return value, store into an attribute / subscript, dict value ...)."""
    seen = _seen if _seen is not None else set()
    if id(site) in seen:
        return []
    seen.add(id(site))
    cur = site
    while True:
        kind, nxt = _value_parent(cur, flow)
        if kind == "up":
            cur = nxt  # type: ignore[assignment]
            continue
        if kind == "test":
            return []
        if kind == "stop":
            return [cur]
        # bind: follow every later use of the bound names that this definition reaches
        stmt = nxt
        sc = flow.scope_of(cur)
        out: list[ast.AST] = []
        names = set(_target_names(stmt))  # type: ignore[arg-type]
        for u in ast.walk(sc.fn):
            if isinstance(u, ast.Name) and isinstance(u.ctx, ast.Load) and u.id in names:
                usc = flow.scope_of(u)
                if usc is sc:
                    n = sc.cfg.node_of(u)
                    ds = sc.rd.reaching(n, u.id) if n is not None else frozenset()
                    if any(d.stmt is stmt for d in ds):
                        out += escapes(flow, u, seen)
                else:
                    # read by a nested function (closure): conservatively an escape of the raw value
                    out.append(u)
        return out
