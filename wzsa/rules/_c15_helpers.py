"""helpers for C15: backward value-origin evaluation with operation traces.

``Flow(repo, fi).leaves(expr)`` answers "which terminal expressions can the value
of *expr* be built from, and which non-transparent operations were applied on the
way" - flow-sensitive (reaching definitions over the CFG), through local names,
tuple unpacking of split-family calls, loop-carried accumulation, f-strings,
concatenation, ``or`` defaults, comprehensions (the element expression over the
iterated value, ``enumerate`` / ``zip`` positions respected) and calls of helper
functions, which are inlined with their arguments bound: nested functions,
methods of the same class (``self._helper(...)``), module-level functions of the
package called with several arguments, and callables that arrive as an argument
(``convert(username)`` with ``convert`` bound to ``_unquote_user``).  A helper
that returns a tuple which the caller unpacks contributes, per target, only the
matching element of each returned tuple.

Transparent (they keep every character of the operand that they keep at all, so
they neither encode nor decode): slicing / indexing, ``split rsplit partition
rpartition strip lstrip rstrip removeprefix removesuffix join``, ``+``, f-strings,
``a or b``, ``a if c else b``.

Recorded operations: the two WSGI dances, ``quote`` / ``unquote`` (urllib),
``.encode(codec)`` / ``.decode(codec)``, and a call of a module-level callable of
the package with a single positional argument (``_unquote_path(x)``).

On top of the leaves, :func:`text_class` assigns the *transport class* of a text:

    T  latin-1 tunnelled str (what PEP 3333 wants in environ)       A  ASCII constant
    B  the raw request bytes                                         D  decoded text
    X  unknown (attribute, parameter, foreign call)                  M  mis-transcoded
"""

from __future__ import annotations

import ast
import typing as t

from ..cfg import CFG
from ..dataflow import Def, ReachingDefs, bound_in_enclosing_comp
from ..loader import FuncInfo, Repo, dotted, walk_no_nested

ENC_DANCE = "werkzeug._internal._wsgi_encoding_dance"
DEC_DANCE = "werkzeug._internal._wsgi_decoding_dance"
QUOTE_FQ = {"urllib.parse.quote", "urllib.parse.quote_plus"}
UNQUOTE_FQ = {"urllib.parse.unquote", "urllib.parse.unquote_plus"}
TRANSPARENT = {"split", "rsplit", "partition", "rpartition", "strip", "lstrip", "rstrip", "removeprefix", "removesuffix"}
TEXT_KEYS = ("PATH_INFO", "QUERY_STRING", "SCRIPT_NAME")

# codec aliases (python's encodings.aliases, the relevant rows; names normalised: lower case, '_' -> '-')
UTF8 = {"utf-8", "utf8", "u8", "utf", "utf8-ucs2", "utf8-ucs4", "cp65001"}
LATIN1 = {"latin1", "latin-1", "iso-8859-1", "iso8859-1", "8859", "cp819", "latin", "l1", "iso-ir-100", "ibm819", "csisolatin1"}
ASCII = {"ascii", "us-ascii", "646", "ansi-x3.4-1968", "iso646-us", "us", "cp367", "ibm367"}


def codec_kind(name: str | None) -> str:
    """'U' utf-8, 'L' latin-1 (the one total, identity-mapped single byte codec), 'ASCII', 'idna', else 'other'."""
    if name is None:
        return "U"  # str.encode() / bytes.decode() default
    n = name.lower().replace("_", "-")
    if n in UTF8:
        return "U"
    if n in LATIN1:
        return "L"
    if n in ASCII:
        return "ASCII"
    if n == "idna":
        return "idna"
    return "other"


class Op(t.NamedTuple):
    kind: str  # quote unquote encdance decdance encode decode call
    node: ast.Call
    target: str | None = None  # fq of the callee for kind == call
    codec: str | None = None  # raw codec name for encode / decode (None = default)
    errors: str | None = None
    sc: t.Any = None  # scope the call was evaluated in (a helper's parameters are bound there)

    def text(self) -> str:
        if self.kind in ("encode", "decode"):
            return f"{self.kind}({self.codec or 'utf-8 (default)'}{', errors=' + self.errors if self.errors else ''})"
        if self.kind == "call":
            return (self.target or "?").rsplit(".", 1)[-1]
        return self.kind


class Leaf(t.NamedTuple):
    kind: str  # const environ attr param global call other
    node: ast.AST | None
    ops: tuple[Op, ...] = ()
    key: str | None = None  # environ key / attribute text / parameter name
    # how the value was cut out of its origin: 'tail' = the last piece of an rsplit(sep, 1) / rpartition(sep),
    # 'head' = what that call left on the left
    tags: frozenset = frozenset()

    def with_op(self, op: Op) -> "Leaf":
        return Leaf(self.kind, self.node, self.ops + (op,), self.key, self.tags)

    def with_tag(self, tag: str | None) -> "Leaf":
        return self if tag is None else Leaf(self.kind, self.node, self.ops, self.key, self.tags | {tag})

    def text(self) -> str:
        if self.kind == "const":
            base = repr(getattr(self.node, "value", None))
        elif self.kind == "environ":
            base = f"environ[{self.key!r}]"
        else:
            base = self.key or (ast.unparse(self.node)[:50] if self.node is not None else self.kind)
        for o in self.ops:
            base = f"{o.text()}({base})"
        return base


class Scope:
    def __init__(self, fn: ast.AST, parent: "Scope | None" = None, bind: dict[str, tuple[ast.AST, "Scope"]] | None = None,
                 module: t.Any = None, li: dict[str, str] | None = None, cls: t.Any = None):
        self.fn = fn
        self.parent = parent
        self.bind = bind or {}
        # where names of this function body are resolved (a helper of another module resolves in its own module)
        self.module = module if module is not None else (parent.module if parent is not None else None)
        self.li = li if li is not None else (parent.li if parent is not None else {})
        self.cls = cls if cls is not None else (parent.cls if parent is not None else None)
        self.cfg = CFG(fn)
        a = fn.args  # type: ignore[attr-defined]
        self.params = [x.arg for x in a.posonlyargs + a.args + a.kwonlyargs] + ([a.vararg.arg] if a.vararg else []) + ([a.kwarg.arg] if a.kwarg else [])
        self.rd = ReachingDefs(self.cfg, self.params)
        self.nested = {n.name: n for n in walk_no_nested(fn) if isinstance(n, (ast.FunctionDef, ast.AsyncFunctionDef))}

    def lookup_nested(self, name: str) -> tuple[ast.AST, "Scope"] | None:
        sc: Scope | None = self
        while sc is not None:
            if name in sc.nested:
                return sc.nested[name], sc
            sc = sc.parent
        return None


class Flow:
    def __init__(self, repo: Repo, fi: FuncInfo):
        self.repo = repo
        self.fi = fi
        self.module = fi.module
        self.li = fi.module.local_imports(fi.node)
        self.root = Scope(fi.node, module=fi.module, li=self.li, cls=fi.cls)
        self._nested_scopes: dict[int, Scope] = {}
        # helper functions (other than nested ones) that were looked into: id(def) -> FuncInfo
        self.inlined: dict[int, FuncInfo] = {}
        # scope in which an attribute leaf was evaluated (its receiver may be a parameter of a helper)
        self.attr_scope: dict[int, Scope] = {}
        # attribute read inside a helper that was looked through by `expand`: id(attribute) -> what the caller handed in
        self.attr_origin: dict[int, Leaf] = {}

    # -- resolution ------------------------------------------------------
    def resolve(self, d: str | None, sc: "Scope | None" = None) -> str | None:
        if not d:
            return None
        if sc is not None and sc.module is not None:
            return self.repo.resolve(sc.module, d, sc.li)
        return self.repo.resolve(self.module, d, self.li)

    def scope_of(self, node: ast.AST) -> Scope:
        """scope (outer function or a directly nested def, un-inlined) that contains node."""
        cur = getattr(node, "_parent", None)
        chain = []
        while cur is not None and cur is not self.fi.node:
            if isinstance(cur, (ast.FunctionDef, ast.AsyncFunctionDef)):
                chain.append(cur)
            cur = getattr(cur, "_parent", None)
        sc = self.root
        for fn in reversed(chain):
            key = id(fn)
            if key not in self._nested_scopes:
                self._nested_scopes[key] = Scope(fn, sc)
            sc = self._nested_scopes[key]
        return sc

    def const_keys(self, e: ast.AST, sc: Scope) -> list[str] | None:
        """the string constants a key expression can be: a literal, a parameter bound to one at the call site, or a
        variable that runs over a literal table (``for key in ("A", "B")`` / ``for arg, key in (("a", "A"), ...)``,
        loop or comprehension)."""
        if isinstance(e, ast.Constant) and isinstance(e.value, str):
            return [e.value]
        if isinstance(e, ast.Name) and e.id in sc.bind:
            arg, asc = sc.bind[e.id]
            return self.const_keys(arg, asc)
        if isinstance(e, ast.Name):
            return table_values(e, sc.fn)
        return None

    def environ_read(self, e: ast.AST, sc: Scope) -> tuple[list[str], list[ast.AST]] | None:
        """``X[K]`` / ``X.get(K[, default])`` with K a WSGI text key (or a variable over a table of them) ->
        (keys, default exprs)."""
        k, dflt = None, []
        if isinstance(e, ast.Subscript) and not isinstance(e.slice, ast.Slice):
            k = self.const_keys(e.slice, sc)
        elif isinstance(e, ast.Call) and isinstance(e.func, ast.Attribute) and e.func.attr == "get" and e.args:
            k, dflt = self.const_keys(e.args[0], sc), list(e.args[1:])
        if k and all(_is_env_key(x) for x in k):
            return list(dict.fromkeys(k)), dflt
        return None

    # -- backward evaluation ---------------------------------------------
    def leaves(self, e: ast.AST | None, sc: Scope | None = None) -> list[Leaf]:
        return self._lv(e, sc or (self.scope_of(e) if e is not None else self.root), frozenset())

    def _lv(self, e: ast.AST | None, sc: Scope, seen: frozenset[int]) -> list[Leaf]:
        if e is None:
            return []
        if isinstance(e, ast.Constant):
            return [Leaf("const", e)]
        if isinstance(e, ast.JoinedStr):
            out: list[Leaf] = []
            for v in e.values:
                out += self._lv(v, sc, seen)
            return out
        if isinstance(e, ast.FormattedValue):
            return self._lv(e.value, sc, seen)
        if isinstance(e, ast.BinOp) and isinstance(e.op, ast.Add):
            return self._lv(e.left, sc, seen) + self._lv(e.right, sc, seen)
        if isinstance(e, ast.BinOp) and isinstance(e.op, ast.Mod) and (isinstance(e.left, ast.JoinedStr) or (isinstance(e.left, ast.Constant) and isinstance(e.left.value, (str, bytes)))):
            # printf-style formatting: the template and the formatted values, like an f-string
            return self._lv(e.left, sc, seen) + self._lv(e.right, sc, seen)
        if isinstance(e, ast.BoolOp):
            out = []
            for v in e.values:
                out += self._lv(v, sc, seen)
            return out
        if isinstance(e, ast.IfExp):
            return self._lv(e.body, sc, seen) + self._lv(e.orelse, sc, seen)
        if isinstance(e, (ast.NamedExpr, ast.Starred)):
            return self._lv(e.value, sc, seen)
        if isinstance(e, (ast.Tuple, ast.List)):
            out = []
            for v in e.elts:
                out += self._lv(v, sc, seen)
            return out
        if isinstance(e, ast.Dict):
            # a mapping used as a holder of pieces: what can be read out of it are its values (`**other` included)
            out = []
            for v in e.values:
                out += self._lv(v, sc, seen)
            return out
        if isinstance(e, ast.Subscript):
            er = self.environ_read(e, sc)
            if er is not None:
                return [Leaf("environ", e, (), k) for k in er[0]]
            tag = None
            if isinstance(e.slice, ast.Constant) and isinstance(e.slice.value, int):
                src = e.value
                if isinstance(src, ast.Name):
                    node = sc.cfg.node_of(src)
                    ds = sc.rd.reaching(node, src.id) if node is not None else frozenset()
                    if len(ds) == 1 and next(iter(ds)).kind == "assign" and next(iter(ds)).index is None:
                        src = next(iter(ds)).value
                tag = peel_tag(src, e.slice.value, None)
            elif isinstance(e.slice, ast.Slice):
                tag = slice_peel(sc, e)
                if tag is None and self.complement_of_head(e, sc, seen):
                    tag = "tail"
                if tag is None and any(b is not None and not isinstance(b, ast.Constant) and not (isinstance(b, ast.UnaryOp) and isinstance(b.operand, ast.Constant)) for b in (e.slice.lower, e.slice.upper)):
                    tag = "cut?"  # cut at a computed position that is not understood: which end it is, is not known
            return [l.with_tag(tag) for l in self._lv(e.value, sc, seen)]
        if isinstance(e, (ast.ListComp, ast.SetComp, ast.GeneratorExp)):
            # the elements of the result are the element expression over the iterated values
            return self._lv(e.elt, sc, seen)
        if isinstance(e, ast.Attribute):
            self.attr_scope[id(e)] = sc
            return [Leaf("attr", e, (), ast.unparse(e))]
        if isinstance(e, ast.Name):
            return self._name(e, sc, seen)
        if isinstance(e, ast.Call):
            return self._call(e, sc, seen)
        return [Leaf("other", e, (), None)]

    def complement_of_head(self, e: ast.Subscript, sc: Scope, seen: frozenset[int] = frozenset()) -> bool:
        """`X[len(P):]` where P is a prefix of X - X an untouched environ value, P that same value or what
        right-peeling (rsplit / rpartition / `[:rfind]`) left of it, through copies: the remainder that, put behind P,
        gives X back.  (A piece peeled off the right end in other words - computed once instead of accumulated.)"""
        sl = e.slice
        if not isinstance(sl, ast.Slice) or sl.upper is not None or sl.step is not None:
            return False
        lo = sl.lower
        if not (isinstance(lo, ast.Call) and isinstance(lo.func, ast.Name) and lo.func.id == "len" and len(lo.args) == 1 and not lo.keywords and isinstance(lo.args[0], ast.Name)):
            return False
        lp = self._lv(lo.args[0], sc, seen)
        lx = self._lv(e.value, sc, seen)
        if not lp or not lx:
            return False
        def empty(l: Leaf) -> bool:  # the "" default of environ.get(key, ""): every prefix and remainder of it is ""
            return l.kind == "const" and isinstance(l.node, ast.Constant) and l.node.value == "" and not l.ops

        lx, lp = [l for l in lx if not empty(l)], [l for l in lp if not empty(l)]
        keys = {l.key for l in lx}
        return (
            len(keys) == 1
            and bool(lp)
            and isinstance(e.value, ast.Name)
            and all(l.kind == "environ" and not l.ops and not l.tags for l in lx)
            and all(l.kind == "environ" and not l.ops and l.key in keys and l.tags <= {"head"} for l in lp)
            and self._prefix_of(lo.args[0], e.value, sc, set())
        )

    def _prefix_of(self, p: ast.AST, x: ast.Name, sc: Scope, busy: set[int], depth: int = 0) -> bool:
        """is the value of name `p` a prefix of the value of name `x` (as read at its place) - on every reaching
        definition: a copy of x or of another prefix, or what right-peeling left of one (`q[:q.rfind(s)]`,
        `q.rsplit(s, 1)[0]`, `q.rpartition(s)[0]`, by index or by unpacking)?  A definition met again on the way (the
        loop that shortens the prefix) is taken to hold."""
        if depth > 8 or not isinstance(p, ast.Name):
            return False
        pn, xn = sc.cfg.node_of(p), sc.cfg.node_of(x)
        if pn is None or xn is None:
            return False
        defs = sc.rd.reaching(pn, p.id)
        if p.id == x.id:
            return bool(defs) and defs == sc.rd.reaching(xn, x.id)
        if not defs:
            return False
        for d in defs:
            if id(d) in busy:
                continue
            busy.add(id(d))
            v = d.value
            while isinstance(v, ast.NamedExpr):
                v = v.value
            src: ast.AST | None = None
            if d.kind in ("assign", "walrus") and d.index is None:
                if isinstance(v, ast.Name):
                    src = v
                elif isinstance(v, ast.Subscript) and isinstance(v.slice, ast.Slice) and slice_peel(sc, v) == "head":
                    src = v.value
                elif isinstance(v, ast.Subscript) and isinstance(v.slice, ast.Constant) and isinstance(v.slice.value, int) and peel_tag(v.value, v.slice.value, None) == "head":
                    src = v.value.func.value  # type: ignore[attr-defined]
            elif d.kind == "unpack" and d.index is not None:
                par = getattr(d.target, "_parent", None)
                arity = len(par.elts) if isinstance(par, (ast.Tuple, ast.List)) else None
                if peel_tag(v, d.index, arity) == "head":
                    src = v.func.value  # type: ignore[union-attr]
            if src is None or not self._prefix_of(src, x, sc, busy, depth + 1):
                return False
        return True

    def _name(self, e: ast.Name, sc: Scope, seen: frozenset[int]) -> list[Leaf]:
        g = bound_in_enclosing_comp(e, sc.fn)
        if g is not None:
            return self._element(g.target, g.iter, e.id, sc, seen)
        node = sc.cfg.node_of(e)
        if node is None:
            if e.id in sc.bind:
                arg, asc = sc.bind[e.id]
                return self._lv(arg, asc, seen)
            return self._defs(e.id, frozenset(), e, sc, seen)
        defs = sc.rd.reaching(node, e.id)
        w = self._bound_by_enclosing_test(e)
        if w is not None and not any(d.kind == "walrus" and d.value is w.value for d in defs):
            # `f(h) if (h := x) else ""` / `(h := x) and f(h)`: the test is evaluated before the arm the name stands in,
            # although it stands after it in the text (and in the same statement, so no definition "reaches" it)
            return self._lv(w.value, sc, seen)
        return self._defs(e.id, defs, e, sc, seen) + self._grown(e.id, defs, node, sc, seen)

    @staticmethod
    def _bound_by_enclosing_test(e: ast.Name) -> ast.NamedExpr | None:
        cur: ast.AST = e
        par = getattr(cur, "_parent", None)
        while par is not None and not isinstance(par, (ast.stmt, ast.Lambda, ast.FunctionDef, ast.AsyncFunctionDef)):
            tests: list[ast.AST] = []
            if isinstance(par, ast.IfExp) and cur is not par.test:
                tests = [par.test]
            elif isinstance(par, ast.BoolOp) and cur in par.values:
                tests = par.values[: par.values.index(cur)]
            hits = [w for t0 in tests for w in ast.walk(t0) if isinstance(w, ast.NamedExpr) and isinstance(w.target, ast.Name) and w.target.id == e.id]
            if hits:
                return hits[-1]
            cur, par = par, getattr(par, "_parent", None)
        return None

    def _grown(self, name: str, defs: t.Iterable[Def], node: t.Any, sc: Scope, seen: frozenset[int]) -> list[Leaf]:
        """what was put *into* the object bound to ``name`` after it was created: a list / set / dict / bytearray
        that is grown in place (``L.append(x)``, ``L.extend(xs)``, ``L.insert(i, x)``, ``L[i] = x``, ``D[k] = x``,
        ``D.update(k=x)``, ``D.setdefault(k, x)``, ``S.add(x)``) holds those values as much as the ones of its display.
        A growth statement counts when it works on one of the bindings that reach the use and can run before it."""
        defs = frozenset(defs)
        if not defs:
            return []
        out: list[Leaf] = []
        for st, vals in _growths(sc).get(name, ()):
            if id(st) in seen:
                continue
            gn = sc.cfg.node_of(st)
            if gn is None or not (sc.rd.reaching(gn, name) & defs):
                continue
            if gn is not node and node.id not in sc.cfg.reach(gn):
                continue
            for v in vals:
                out += self._lv(v, sc, seen | {id(st)})
        return out

    def _element(self, target: ast.AST, it: ast.AST, name: str, sc: Scope, seen: frozenset[int]) -> list[Leaf]:
        """origins of ``name`` when ``target`` is bound to the elements of the iterable ``it``
        (``for target in it`` / comprehension generator): positions of ``enumerate`` / ``zip`` are kept apart."""
        if isinstance(target, (ast.Tuple, ast.List)) and isinstance(it, ast.Call) and dotted(it.func):
            fq = self.resolve(dotted(it.func), sc)
            pos = next((i for i, x in enumerate(target.elts) if isinstance(x, ast.Name) and x.id == name), None)
            args = it.args
            plain = not any(isinstance(a, ast.Starred) for a in args) and all(k.arg in ("start", "fillvalue", "strict") for k in it.keywords)
            if pos is not None and plain:
                if fq == "builtins.enumerate" and len(target.elts) == 2 and args:
                    return [Leaf("other", it, (), "index")] if pos == 0 else self._lv(args[0], sc, seen)
                if fq in ("builtins.zip", "itertools.zip_longest") and len(target.elts) == len(args):
                    return self._lv(args[pos], sc, seen)
        if isinstance(target, (ast.Tuple, ast.List)) and isinstance(it, (ast.Tuple, ast.List)) and it.elts:
            # a literal table of rows: the variable takes its own column only
            pos = next((i for i, x in enumerate(target.elts) if isinstance(x, ast.Name) and x.id == name), None)
            if pos is not None and all(isinstance(r, (ast.Tuple, ast.List)) and len(r.elts) == len(target.elts) and not any(isinstance(x, ast.Starred) for x in r.elts) for r in it.elts):
                out: list[Leaf] = []
                for r in it.elts:
                    out += self._lv(r.elts[pos], sc, seen)  # type: ignore[attr-defined]
                return out
        return self._lv(it, sc, seen)

    def _defs(self, name: str, defs: t.Iterable[Def], at: ast.AST, sc: Scope, seen: frozenset[int]) -> list[Leaf]:
        defs = sorted(defs, key=lambda d: (getattr(d.stmt, "lineno", 0), getattr(d.stmt, "col_offset", 0)))
        if not defs:
            if sc.parent is not None:
                # free variable of a nested function: the bindings visible where the function is defined
                pn = sc.parent.cfg.node_of(sc.fn)
                pd = sc.parent.rd.after(pn, name) if pn is not None else frozenset()
                if not pd and name in sc.parent.bind:
                    arg, asc = sc.parent.bind[name]
                    return self._lv(arg, asc, seen)
                return self._defs(name, pd, at, sc.parent, seen)
            return [Leaf("global", at, (), name)]
        out: list[Leaf] = []
        for d in defs:
            if id(d) in seen:
                continue
            s2 = seen | {id(d)}
            if d.kind == "param":
                if name in sc.bind:
                    arg, asc = sc.bind[name]
                    out += self._lv(arg, asc, s2)
                else:
                    out.append(Leaf("param", at, (), name))
            elif d.kind in ("assign", "walrus"):
                out += self._lv(d.value, sc, s2)
            elif d.kind == "unpack":
                v = d.value
                if isinstance(v, (ast.Tuple, ast.List)) and d.index is not None and d.index < len(v.elts) and not any(isinstance(x, ast.Starred) for x in v.elts):
                    out += self._lv(v.elts[d.index], sc, s2)
                elif isinstance(v, ast.Call) and d.index is not None and self.callee_scope(v, sc) is not None:
                    out += self._call(v, sc, s2, d.index)
                else:
                    par = getattr(d.target, "_parent", None)
                    arity = len(par.elts) if isinstance(par, (ast.Tuple, ast.List)) else None
                    tag = peel_tag(v, d.index, arity) if d.index is not None else None
                    out += [l.with_tag(tag) for l in self._lv(v, sc, s2)]
            elif d.kind == "aug":
                if d.node is not None:
                    out += self._defs(name, sc.rd.reaching(d.node, name), at, sc, s2)
                out += self._lv(d.value, sc, s2)
            elif d.kind == "for":
                st = d.stmt
                if isinstance(st, (ast.For, ast.AsyncFor)) and d.index is not None:
                    out += self._element(st.target, st.iter, name, sc, s2)
                else:
                    out += self._lv(d.value, sc, s2)
            else:
                out.append(Leaf("other", d.stmt if isinstance(d.stmt, ast.AST) else at, (), f"{name} bound by {d.kind}"))
        return out

    def _codec_args(self, c: ast.Call, skip: int = 0) -> tuple[str | None, str | None, bool]:
        """(codec, errors, foldable) of an .encode / .decode call; ``skip`` = leading arguments that are not the
        codec (``bytes(s, codec, errors)``, ``str(b, codec, errors)``, ``codecs.encode(s, codec, errors)``)."""
        enc = c.args[skip] if len(c.args) > skip else None
        err = c.args[skip + 1] if len(c.args) > skip + 1 else None
        for kw in c.keywords:
            if kw.arg == "encoding":
                enc = kw.value
            elif kw.arg == "errors":
                err = kw.value
        ok = True
        codec = errors = None
        if enc is not None:
            if isinstance(enc, ast.Constant) and isinstance(enc.value, str):
                codec = enc.value
            else:
                ok = False
                codec = "?" + ast.unparse(enc)
        if err is not None:
            if isinstance(err, ast.Constant) and isinstance(err.value, str):
                errors = err.value
            else:
                errors = "?" + ast.unparse(err)
        return codec, errors, ok

    # -- callees -----------------------------------------------------------
    def callable_target(self, f: ast.AST, sc: Scope, depth: int = 0) -> tuple[str, t.Any, t.Any] | None:
        """what a callee expression denotes: ('nested', def, defining scope) | ('method', FuncInfo, None) |
        ('fq', dotted name, None) | ('lambda', Lambda, scope).  Follows parameters bound to a callable argument
        (``convert`` -> ``_unquote_user``) and plain local aliases."""
        if depth > 6:
            return None
        forced = self.__dict__.get("_forced_fq", {}).get(id(f))
        if forced is not None:
            return "fq", forced, None  # the function of an expanded functools.partial call (see `partial_call`)
        if isinstance(f, ast.Lambda):
            return "lambda", f, sc
        if isinstance(f, ast.Name):
            node = sc.cfg.node_of(f)
            defs = sc.rd.reaching(node, f.id) if node is not None else frozenset()
            if defs:
                if len(defs) != 1:
                    return None
                d = next(iter(defs))
                if d.kind == "param" and f.id in sc.bind:
                    arg, asc = sc.bind[f.id]
                    return self.callable_target(arg, asc, depth + 1)
                if d.kind == "assign" and d.index is None and isinstance(d.value, (ast.Name, ast.Attribute, ast.Lambda)):
                    return self.callable_target(d.value, sc, depth + 1)
                if d.kind == "def":
                    nf = sc.lookup_nested(f.id)
                    return ("nested", nf[0], nf[1]) if nf is not None else None
                if d.kind == "import":
                    return "fq", self.resolve(f.id, sc), None
                return None
            if node is None and f.id in sc.bind:
                arg, asc = sc.bind[f.id]
                return self.callable_target(arg, asc, depth + 1)
            nf = sc.lookup_nested(f.id)
            if nf is not None:
                return "nested", nf[0], nf[1]
            # free variable of a nested function bound in an enclosing inlined scope
            p = sc.parent
            while p is not None:
                if f.id in p.bind:
                    arg, asc = p.bind[f.id]
                    return self.callable_target(arg, asc, depth + 1)
                p = p.parent
            return "fq", self.resolve(f.id, sc), None
        if isinstance(f, ast.Attribute):
            if isinstance(f.value, ast.Name) and sc.cls is not None and self._is_receiver(f.value.id, sc):
                try:
                    _, what = self.repo.lookup(sc.cls, f.attr)
                except Exception:  # unresolvable base class: the method is simply not looked into
                    return None
                if isinstance(what, FuncInfo):
                    return "method", what, None
                return None
            d = dotted(f)
            return ("fq", self.resolve(d, sc), None) if d else None
        return None

    def partial_target(self, f: ast.AST, sc: Scope, depth: int = 0) -> tuple[ast.Call, t.Any, "Scope | None"] | None:
        """`f` denotes `functools.partial(F, bound...)`: (that partial(...) call, the module it is written in, the
        scope it is written in or None for module level).  Followed like `callable_target`: a local bound once to the
        partial, a parameter bound to a callable argument, a module-level name of the package assigned once."""
        if depth > 6:
            return None
        if isinstance(f, ast.Call):
            if self.resolve(dotted(f.func), sc) == "functools.partial" and f.args and not isinstance(f.args[0], ast.Starred):
                return f, (sc.module or self.module), sc
            return None
        if not isinstance(f, ast.Name):
            return None
        node = sc.cfg.node_of(f)
        defs = sc.rd.reaching(node, f.id) if node is not None else frozenset()
        if defs:
            if len(defs) != 1:
                return None
            d = next(iter(defs))
            if d.kind == "param" and f.id in sc.bind:
                arg, asc = sc.bind[f.id]
                return self.partial_target(arg, asc, depth + 1)
            if d.kind == "assign" and d.index is None and isinstance(d.value, (ast.Name, ast.Call)):
                return self.partial_target(d.value, sc, depth + 1)
            return None
        if node is None and f.id in sc.bind:
            arg, asc = sc.bind[f.id]
            return self.partial_target(arg, asc, depth + 1)
        if sc.lookup_nested(f.id) is not None:
            return None
        p = sc.parent
        while p is not None:
            if f.id in p.bind:
                arg, asc = p.bind[f.id]
                return self.partial_target(arg, asc, depth + 1)
            p = p.parent
        fq = self.resolve(f.id, sc)
        if fq and fq.startswith("werkzeug."):
            mn, _, nm = fq.rpartition(".")
            m_ = self.repo.modules.get(mn)
            vals = m_.assigns.get(nm, []) if m_ is not None else []
            if len(vals) == 1 and isinstance(vals[0], ast.Call) and self.repo.resolve(m_, dotted(vals[0].func) or "") == "functools.partial" and vals[0].args and not isinstance(vals[0].args[0], ast.Starred):
                return vals[0], m_, None
        return None

    def partial_call(self, e: ast.Call, sc: Scope) -> ast.Call | None:
        """the call `F(bound..., args...)` that `p(args...)` performs when `p` is `functools.partial(F, bound...)`;
        None when `p` is no such partial - or when what is bound cannot be read at the place of the call (anything but
        constants and module-level names of the module the call is written in)."""
        cache = self.__dict__.setdefault("_partial_calls", {})
        if id(e) in cache:
            return cache[id(e)][0]
        out: ast.Call | None = None
        pt = self.partial_target(e.func, sc)
        if pt is not None:
            pc, mod, psc = pt
            here = sc.module or self.module
            bound = list(pc.args[1:]) + [k.value for k in pc.keywords]
            names = [n for b in bound for n in ast.walk(b) if isinstance(n, ast.Name)]
            plain = all(k.arg is not None for k in pc.keywords) and not any(isinstance(b, ast.Starred) for b in bound)
            module_level = mod is here and all(n.id in mod.assigns or n.id in mod.imports or n.id in mod.functions for n in names) and not any(psc is not None and psc.rd.reaching(psc.cfg.node_of(n), n.id) for n in names if psc is not None and psc.cfg.node_of(n) is not None)
            fq = self.repo.resolve(mod, dotted(pc.args[0]) or "", psc.li if psc is not None else None) if dotted(pc.args[0]) else None
            if plain and fq and (not names or module_level):
                fn = ast.Name(id="__partial_target__", ctx=ast.Load())
                out = ast.Call(func=fn, args=list(pc.args[1:]) + list(e.args), keywords=list(pc.keywords) + list(e.keywords))
                for n in (fn, out):
                    ast.copy_location(n, e)
                fn._parent, out._parent = out, getattr(e, "_parent", None)  # type: ignore[attr-defined]
                self.__dict__.setdefault("_forced_fq", {})[id(fn)] = fq
        cache[id(e)] = (out, e)  # keep e alive: the key is its id
        return out

    def _is_receiver(self, name: str, sc: Scope) -> bool:
        top = sc
        while top.parent is not None:
            top = top.parent
        a = top.fn.args  # type: ignore[attr-defined]
        first = (a.posonlyargs + a.args)[:1]
        return bool(first) and first[0].arg == name and name in ("self", "cls") and name not in top.bind

    def callee_scope(self, call: ast.Call, sc: Scope) -> Scope | None:
        """a scope for the body of the helper that ``call`` invokes, with its parameters bound to the arguments
        (evaluated in ``sc``); None when the callee is not a helper that is looked into: only nested functions,
        methods of the same class, lambdas and module-level functions of the package qualify."""
        tgt = self.callable_target(call.func, sc)
        if tgt is None:
            return None
        kind, what, dsc = tgt
        skip = 0
        if kind == "nested":
            fn, parent, module, li, cls = what, dsc, None, None, None
        elif kind == "lambda":
            fn, parent, module, li, cls = what, dsc, None, None, None
        elif kind == "method":
            fi: FuncInfo = what
            decs = fi.decorators
            if any(d.endswith("property") or d.endswith(".setter") for d in decs):
                return None
            skip = 0 if any(d.endswith("staticmethod") for d in decs) else 1
            fn, parent, module, li, cls = fi.node, None, fi.module, fi.module.local_imports(fi.node), fi.cls
            self.inlined[id(fn)] = fi
        else:
            if not what or not what.startswith("werkzeug.") or what in (ENC_DANCE, DEC_DANCE):
                return None
            fi2 = self.repo.try_func(what)
            if fi2 is None or fi2.cls is not None:
                return None
            fn, parent, module, li, cls = fi2.node, None, fi2.module, fi2.module.local_imports(fi2.node), None
            self.inlined[id(fn)] = fi2
        a = fn.args
        if a.vararg is not None or a.kwarg is not None:
            return None
        names = [x.arg for x in a.posonlyargs + a.args][skip:]
        bind: dict[str, tuple[ast.AST, Scope]] = {}
        for i, arg in enumerate(call.args):
            if isinstance(arg, ast.Starred) or i >= len(names):
                return None
            bind[names[i]] = (arg, sc)
        allnames = set(names) | {x.arg for x in a.kwonlyargs}
        for kw in call.keywords:
            if kw.arg is None or kw.arg not in allnames:
                return None
            bind[kw.arg] = (kw.value, sc)
        inner = Scope(fn, parent, bind, module=module, li=li, cls=cls)
        # parameters left to a constant default
        pos = a.posonlyargs + a.args
        for p_, dflt in zip(pos[len(pos) - len(a.defaults):], a.defaults):
            if p_.arg not in bind and isinstance(dflt, ast.Constant):
                bind[p_.arg] = (dflt, inner)
        for p_, dflt in zip(a.kwonlyargs, a.kw_defaults):
            if p_.arg not in bind and isinstance(dflt, ast.Constant):
                bind[p_.arg] = (dflt, inner)
        return inner

    def _call(self, e: ast.Call, sc: Scope, seen: frozenset[int], index: int | None = None) -> list[Leaf]:
        f = e.func
        er = self.environ_read(e, sc)
        if er is not None:
            out = [Leaf("environ", e, (), k) for k in er[0]]
            for dflt in er[1]:
                out += self._lv(dflt, sc, seen)
            return out
        if isinstance(f, ast.Attribute):
            m = f.attr
            if m in TRANSPARENT:
                return self._lv(f.value, sc, seen)
            if m == "join" and len(e.args) == 1:
                return self._lv(f.value, sc, seen) + self._lv(e.args[0], sc, seen)
            if m == "format" and isinstance(f.value, ast.Constant) and isinstance(f.value.value, str):
                out = self._lv(f.value, sc, seen)
                for a in list(e.args) + [k.value for k in e.keywords]:
                    out += self._lv(a, sc, seen)
                return out
            if m in ("encode", "decode") and not self._is_module_name(f.value):
                codec, errors, _ = self._codec_args(e)
                op = Op(m, e, None, codec, errors)
                return [l.with_op(op) for l in self._lv(f.value, sc, seen)]
        pc = self.partial_call(e, sc)
        if pc is not None:
            return self._call(pc, sc, seen, index)  # p = partial(F, safe=...); p(x)  is  F(x, safe=...)
        tgt = self.callable_target(f, sc)
        d = dotted(f)
        if tgt is None:
            return [Leaf("call", e, (), d)]
        kind, what, _ = tgt
        if kind in ("nested", "lambda", "method"):
            return self._inline(e, sc, seen, index)
        fq = what
        arg0 = e.args[0] if e.args and not isinstance(e.args[0], ast.Starred) else None
        if fq == ENC_DANCE and arg0 is not None:
            return [l.with_op(Op("encdance", e)) for l in self._lv(arg0, sc, seen)]
        if fq == DEC_DANCE and arg0 is not None:
            return [l.with_op(Op("decdance", e)) for l in self._lv(arg0, sc, seen)]
        if fq in QUOTE_FQ and arg0 is not None:
            return [l.with_op(Op("quote", e, fq, None, None, sc)) for l in self._lv(arg0, sc, seen)]
        if fq in UNQUOTE_FQ and arg0 is not None:
            return [l.with_op(Op("unquote", e, fq)) for l in self._lv(arg0, sc, seen)]
        if fq in ("builtins.list", "builtins.tuple", "builtins.sorted", "builtins.reversed", "builtins.iter", "builtins.set", "builtins.frozenset", "builtins.bytearray", "collections.deque") and arg0 is not None and len(e.args) == 1 and (not e.keywords or fq == "builtins.sorted"):
            # same elements: neither encodes nor decodes
            return self._lv(arg0, sc, seen)
        conv = codec_call(fq, e)
        if conv is not None and arg0 is not None:
            # the constructor / codecs spelling of s.encode(codec, errors) and b.decode(codec, errors)
            codec, errors, _ = self._codec_args(e, 1)
            return [l.with_op(Op(conv, e, None, codec, errors)) for l in self._lv(arg0, sc, seen)]
        if fq in ("builtins.str", "builtins.int", "builtins.format") and arg0 is not None and len(e.args) == 1 and not e.keywords:
            return self._lv(arg0, sc, seen)  # the text of the value (one-argument str() does not decode)
        if fq == "builtins.map" and len(e.args) == 2 and not e.keywords and not any(isinstance(a, ast.Starred) for a in e.args):
            return self._lv(self._map_comp(e).elt, sc, seen)  # map(f, xs) delivers f(x) for x in xs
        if fq == "builtins.filter" and len(e.args) == 2 and not e.keywords and not isinstance(e.args[1], ast.Starred):
            return self._lv(e.args[1], sc, seen)  # a selection of the same elements
        if fq in ("itertools.chain", "itertools.chain.from_iterable") and e.args and not e.keywords:
            out = []
            for a in e.args:
                out += self._lv(a, sc, seen)
            return out
        if fq == "builtins.dict" and not e.args:
            out = []
            for k in e.keywords:
                out += self._lv(k.value, sc, seen)
            return out
        if fq and fq.startswith("werkzeug.") and arg0 is not None and len(e.args) == 1 and not e.keywords:
            mn, _, nm = fq.rpartition(".")
            m_ = self.repo.modules.get(mn)
            if m_ is not None and (nm in m_.functions or nm in m_.assigns):
                return [l.with_op(Op("call", e, fq)) for l in self._lv(arg0, sc, seen)]
        if fq and fq.startswith("werkzeug.") and self.callee_scope(e, sc) is not None:
            return self._inline(e, sc, seen, index)
        return [Leaf("call", e, (), fq or d)]

    def _map_comp(self, e: ast.Call) -> ast.GeneratorExp:
        """``map(f, xs)`` rewritten as the generator expression ``(f(x) for x in xs)`` it abbreviates (cached, hung
        into the tree where the call stands so that scopes and comprehension variables resolve as usual)."""
        cache = self.__dict__.setdefault("_map_comps", {})
        if id(e) not in cache:
            var = "__map_item__"
            arg = ast.Name(id=var, ctx=ast.Load())
            call = ast.Call(func=e.args[0], args=[arg], keywords=[])
            gen = ast.comprehension(target=ast.Name(id=var, ctx=ast.Store()), iter=e.args[1], ifs=[], is_async=0)
            comp = ast.GeneratorExp(elt=call, generators=[gen])
            for n in (arg, call, comp, gen.target):
                ast.copy_location(n, e)
            arg._parent, call._parent, comp._parent = call, comp, getattr(e, "_parent", None)  # type: ignore[attr-defined]
            cache[id(e)] = (comp, e)  # keep e alive: the key is its id
        return cache[id(e)][0]

    def _is_module_name(self, v: ast.AST) -> bool:
        """receiver of .encode/.decode is an imported module (``codecs.encode``), not a value."""
        return isinstance(v, ast.Name) and (v.id in self.li or v.id in self.module.imports) and v.id not in self.root.params

    def _inline(self, call: ast.Call, sc: Scope, seen: frozenset[int], index: int | None = None) -> list[Leaf]:
        inner = self.callee_scope(call, sc)
        if inner is None:
            return [Leaf("call", call, (), "unbindable call")]
        fn = inner.fn
        if id(fn) in seen:
            return [Leaf("call", call, (), "recursive")]
        s2 = seen | {id(fn)}
        if isinstance(fn, ast.Lambda):
            return self._returned(fn.body, inner, s2, index)
        out: list[Leaf] = []
        yields = [n for n in walk_no_nested(fn) if isinstance(n, (ast.Yield, ast.YieldFrom))]
        if yields:
            # a generator function: what the call delivers (joined, iterated, unpacked) are the yielded values;
            # which of them and how often is control flow, not origin
            for y in sorted(yields, key=lambda y: (y.lineno, y.col_offset)):
                if y.value is not None:
                    out += self._lv(y.value, inner, s2)
            return out
        rets = [n for n in walk_no_nested(fn) if isinstance(n, ast.Return)]
        for r in sorted(rets, key=lambda r: r.lineno):
            if r.value is None:
                continue
            out += self._returned(r.value, inner, s2, index)
        return out

    def _returned(self, v: ast.AST, sc: Scope, seen: frozenset[int], index: int | None, depth: int = 0) -> list[Leaf]:
        """origins of a returned value; with ``index``: of that element of a returned tuple."""
        if index is None or depth > 4:
            return self._lv(v, sc, seen)
        if isinstance(v, (ast.Tuple, ast.List)) and not any(isinstance(x, ast.Starred) for x in v.elts):
            return self._lv(v.elts[index], sc, seen) if index < len(v.elts) else []
        if isinstance(v, ast.IfExp):
            return self._returned(v.body, sc, seen, index, depth + 1) + self._returned(v.orelse, sc, seen, index, depth + 1)
        if isinstance(v, ast.Name):
            node = sc.cfg.node_of(v)
            defs = sc.rd.reaching(node, v.id) if node is not None else frozenset()
            if defs and all(d.kind == "assign" and d.index is None and isinstance(d.value, (ast.Tuple, ast.List, ast.IfExp)) for d in defs):
                out: list[Leaf] = []
                for d in sorted(defs, key=lambda d: getattr(d.stmt, "lineno", 0)):
                    out += self._returned(d.value, sc, seen, index, depth + 1)  # type: ignore[arg-type]
                return out
        if isinstance(v, ast.Call) and self.callee_scope(v, sc) is not None:
            return self._call(v, sc, seen, index)
        return self._lv(v, sc, seen)


_GROW_ALL = {"append", "appendleft", "extend", "extendleft", "add", "update"}  # every argument goes in
_GROW_LAST = {"insert", "setdefault"}  # (position / key, value)


def _growths(sc: "Scope") -> dict[str, list[tuple[ast.AST, list[ast.AST]]]]:
    """name -> [(statement or call, value expressions put into the object)] for the in-place growth steps of a
    function body (cached on the scope)."""
    tab = getattr(sc, "_growths", None)
    if tab is not None:
        return tab
    tab = {}
    for n in walk_no_nested(sc.fn):
        if isinstance(n, ast.Call) and isinstance(n.func, ast.Attribute) and isinstance(n.func.value, ast.Name):
            m = n.func.attr
            vals: list[ast.AST] | None = None
            if m in _GROW_ALL:
                vals = list(n.args) + [k.value for k in n.keywords]
            elif m in _GROW_LAST and n.args:
                vals = [n.args[-1]]
            if vals:
                tab.setdefault(n.func.value.id, []).append((n, vals))
        elif isinstance(n, (ast.Assign, ast.AugAssign, ast.AnnAssign)) and getattr(n, "value", None) is not None:
            tgs = n.targets if isinstance(n, ast.Assign) else [n.target]
            for tg in tgs:
                if isinstance(tg, ast.Subscript) and isinstance(tg.value, ast.Name):
                    tab.setdefault(tg.value.id, []).append((n, [n.value]))
    sc._growths = tab  # type: ignore[attr-defined]
    return tab


def table_values(name: ast.Name, stop: ast.AST | None = None) -> list[str] | None:
    """the string constants a loop / comprehension variable takes when it runs over a literal table: rows that are
    constants (``for k in ("A", "B")``) or equally long tuples of which the variable is one position
    (``for arg, k in (("a", "A"), ("b", "B"))``).  None when the variable is not bound that way."""
    cur = getattr(name, "_parent", None)
    while cur is not None:
        pairs: list[tuple[ast.AST, ast.AST]] = []
        if isinstance(cur, (ast.ListComp, ast.SetComp, ast.GeneratorExp, ast.DictComp)):
            pairs = [(g.target, g.iter) for g in cur.generators]
        elif isinstance(cur, (ast.For, ast.AsyncFor)):
            pairs = [(cur.target, cur.iter)]
        for target, it in pairs:
            pos: int | None = None
            if isinstance(target, ast.Name) and target.id == name.id:
                pos = -1
            elif isinstance(target, (ast.Tuple, ast.List)):
                pos = next((i for i, x in enumerate(target.elts) if isinstance(x, ast.Name) and x.id == name.id), None)
                if pos is None and any(isinstance(x, ast.Name) and x.id == name.id for x in ast.walk(target)):
                    return None
            if pos is None:
                continue
            if isinstance(it, ast.Call) and isinstance(it.func, ast.Attribute) and it.func.attr == "items" and not it.args and isinstance(it.func.value, ast.Dict) and pos in (0, 1):
                rows: list[ast.AST] = list(it.func.value.keys if pos == 0 else it.func.value.values)  # type: ignore[arg-type]
                pos = -1
            elif isinstance(it, (ast.Tuple, ast.List, ast.Set)):
                rows = list(it.elts)
            elif isinstance(it, ast.Dict) and pos == -1:
                rows = list(it.keys)  # type: ignore[arg-type]
            else:
                return None
            out: list[str] = []
            for r in rows:
                if pos >= 0:
                    if not isinstance(r, (ast.Tuple, ast.List)) or len(r.elts) != len(target.elts):  # type: ignore[union-attr]
                        return None
                    r = r.elts[pos]
                if not (isinstance(r, ast.Constant) and isinstance(r.value, str)):
                    return None
                out.append(r.value)
            return out or None
        if cur is stop or isinstance(cur, (ast.FunctionDef, ast.AsyncFunctionDef, ast.Lambda)):
            return None
        cur = getattr(cur, "_parent", None)
    return None


def codec_call(fq: str | None, e: ast.Call) -> str | None:
    """'encode' / 'decode' when the call is the function spelling of a codec step: ``bytes(s, codec[, errors])``,
    ``str(b, codec[, errors])``, ``codecs.encode(s[, codec])``, ``codecs.decode(b[, codec])``."""
    coded = len(e.args) >= 2 or any(k.arg in ("encoding", "errors") for k in e.keywords)
    if fq in ("builtins.bytes", "builtins.bytearray") and coded:
        return "encode"
    if fq == "builtins.str" and coded:
        return "decode"
    if fq == "codecs.encode":
        return "encode"
    if fq == "codecs.decode":
        return "decode"
    return None


def peel_tag(call: ast.AST | None, index: int, arity: int | None) -> str | None:
    """'tail' / 'head' for the pieces of ``x.rsplit(sep, 1)`` / ``x.rpartition(sep)`` taken by position."""
    if not (isinstance(call, ast.Call) and isinstance(call.func, ast.Attribute)):
        return None
    m = call.func.attr
    if m == "rpartition":
        width = 3
    elif m == "rsplit":
        ms = call.args[1] if len(call.args) > 1 else next((k.value for k in call.keywords if k.arg == "maxsplit"), None)
        if not (isinstance(ms, ast.Constant) and ms.value == 1):
            return None
        width = 2
    else:
        return None
    if arity is not None and arity != width:
        return None
    if index in (width - 1, -1):
        return "tail"
    if index in (0, -width):
        return "head"
    return None


def slice_peel(sc: "Scope", e: ast.Subscript) -> str | None:
    """``x[i + 1:]`` / ``x[:i]`` with ``i = x.rfind(sep)`` / ``x.rindex(sep)``: 'tail' / 'head' (as peel_tag)."""
    sl = e.slice
    if not isinstance(sl, ast.Slice) or sl.step is not None:
        return None

    def from_rfind(b: ast.AST | None) -> bool:
        if b is None:
            return False
        for n in ast.walk(b):
            c = None
            if isinstance(n, ast.Call):
                c = n
            elif isinstance(n, ast.Name):
                node = sc.cfg.node_of(n)
                ds = sc.rd.reaching(node, n.id) if node is not None else frozenset()
                if len(ds) == 1 and next(iter(ds)).kind in ("assign", "walrus") and next(iter(ds)).index is None:
                    c = next(iter(ds)).value
            if isinstance(c, ast.Call) and isinstance(c.func, ast.Attribute) and c.func.attr in ("rfind", "rindex") and len(c.args) == 1:
                return True
        return False

    if sl.upper is None and from_rfind(sl.lower):
        return "tail"
    if sl.lower is None and from_rfind(sl.upper):
        return "head"
    return None


def _is_env_key(k: str) -> bool:
    return k in TEXT_KEYS or k in ("REQUEST_URI", "RAW_URI") or k.startswith("HTTP_")


def _only_param(inner: Flow, attr: ast.Attribute, param: str) -> bool:
    src = inner.leaves(attr.value, inner.attr_scope.get(id(attr)))
    return bool(src) and all(x.kind == "param" and x.key == param and not x.ops for x in src)


def expand(flow: Flow, leaf: Leaf, keep: t.Callable[[str], bool] | None = None, depth: int = 0) -> list[Leaf]:
    """replace a recorded call of a module-level *function* of the package (``helper(x)``) by what the function
    does to its first parameter ("helper extracted" must not change the verdict). Calls for which ``keep(fq)``
    holds, methods, and callables that are not plain functions stay as recorded."""
    if depth > 4:
        return [leaf]
    for i, op in enumerate(leaf.ops):
        if op.kind != "call" or not op.target or (keep is not None and keep(op.target)):
            continue
        fi = flow.repo.try_func(op.target)
        if fi is None or fi.cls is not None or not fi.params:
            continue
        inner = Flow(flow.repo, fi)
        out: list[Leaf] = []
        for r in [n for n in walk_no_nested(fi.node) if isinstance(n, ast.Return)]:
            for il in inner.leaves(r.value) if r.value is not None else []:
                if il.kind == "param" and il.key == fi.params[0]:
                    nl = Leaf(leaf.kind, leaf.node, leaf.ops[:i] + il.ops + leaf.ops[i + 1 :], leaf.key, leaf.tags | il.tags)
                elif i == 0 and il.kind == "attr" and isinstance(il.node, ast.Attribute) and isinstance(il.node.value, ast.Name) and _only_param(inner, il.node, fi.params[0]):
                    # an attribute of the helper's first parameter (`helper(parts)` reading `parts.hostname`): an
                    # attribute of whatever the caller handed in
                    flow.attr_origin[id(il.node)] = Leaf(leaf.kind, leaf.node, (), leaf.key, leaf.tags)
                    nl = Leaf("attr", il.node, il.ops + leaf.ops[1:], il.key, il.tags)
                else:
                    nl = Leaf(il.kind, il.node, il.ops + leaf.ops[i + 1 :], il.key, il.tags)
                out += expand(flow, nl, keep, depth + 1)
        return out or [leaf]
    return [leaf]


# ---------------------------------------------------------------------
# transport class


def text_class(leaf: Leaf) -> tuple[str, str]:
    """(class, explanation) of the value a leaf contributes after its operations."""
    if leaf.kind == "const":
        v = getattr(leaf.node, "value", None)
        if v is None or isinstance(v, (int, bool)):
            cls = "A"
        elif isinstance(v, str):
            cls = "A" if v.isascii() else "D"
        elif isinstance(v, bytes):
            cls = "B"
        else:
            cls = "X"
    elif leaf.kind == "environ":
        cls = "T"
    else:
        cls = "X"
    why = [cls]
    for op in leaf.ops:
        if cls == "M":
            break
        if op.kind == "quote":
            cls = "A"
        elif op.kind == "unquote":
            cls = {"A": "X", "D": "D", "X": "X"}.get(cls, "M")
        elif op.kind == "encdance":
            cls = "M" if cls in ("T", "B") else "T"
        elif op.kind == "decdance":
            cls = {"T": "D", "X": "D", "A": "A"}.get(cls, "M")
        elif op.kind == "encode":
            k = codec_kind(op.codec)
            if cls == "A":
                cls = "B"
            elif cls == "T":
                cls = "B" if k == "L" else "M"
            elif cls == "D":
                cls = "B" if k == "U" else "M"
            elif cls == "X":
                cls = "B" if k in ("U", "L") else "X"
            else:
                cls = "M"
        elif op.kind == "decode":
            k = codec_kind(op.codec)
            if cls in ("B", "X"):
                cls = {"U": "D", "L": "T"}.get(k, "M" if cls == "B" else "X")
            else:
                cls = "M"
        else:
            cls = "X"
        why.append(f"{op.text()}->{cls}")
    return cls, " ".join(why)


# ---------------------------------------------------------------------
# forward: where does the value of an expression escape to


def _value_parent(cur: ast.AST, flow: Flow) -> tuple[str, ast.AST | None]:
    """one step outwards from cur. ('up', node) continue at node; ('test', None) value only tested;
    ('bind', stmt) assigned to local name(s); ('stop', None) cur is the escaping expression."""
    p = getattr(cur, "_parent", None)
    if p is None:
        return "stop", None
    if isinstance(p, ast.BoolOp):
        # operands of a BoolOp that is itself a branch condition are only tested
        if _in_test_position(p):
            return "test", None
        return "up", p
    if isinstance(p, ast.IfExp):
        return ("test", None) if p.test is cur else ("up", p)
    if isinstance(p, (ast.If, ast.While, ast.Assert)) and p.test is cur:
        return "test", None
    if isinstance(p, ast.UnaryOp) and isinstance(p.op, ast.Not):
        return "test", None
    if isinstance(p, ast.Compare):
        return "test", None
    if isinstance(p, ast.Subscript) and p.value is cur:
        return "up", p
    if isinstance(p, (ast.JoinedStr, ast.FormattedValue, ast.Starred)):
        return "up", p
    if isinstance(p, ast.BinOp) and isinstance(p.op, ast.Add):
        return "up", p
    if isinstance(p, ast.Attribute) and p.value is cur:
        gp = getattr(p, "_parent", None)
        if isinstance(gp, ast.Call) and gp.func is p and (p.attr in TRANSPARENT or p.attr in ("encode", "decode")):
            return "up", gp
        return "stop", None
    if isinstance(p, ast.Call) and p.args and p.args[0] is cur:
        d = dotted(p.func)
        fq = flow.resolve(d) if d else None
        if fq in (ENC_DANCE, DEC_DANCE) or fq in QUOTE_FQ or fq in UNQUOTE_FQ or codec_call(fq, p) is not None:
            return "up", p
        if isinstance(p.func, ast.Attribute) and p.func.attr == "join":
            return "up", p
    if isinstance(p, ast.Call) and (any(a is cur for a in p.args) or any(k.value is cur for k in p.keywords)):
        # an argument of a helper that is looked into stays inside the tracked world - unless the value is
        # already decoded at this point (what the helper then does with decoded text is not this property's business)
        if lookable(flow, p) and not _already_decoded(flow, cur):
            return "up", p
        return "stop", None
    if isinstance(p, (ast.Assign, ast.AnnAssign, ast.NamedExpr)) and getattr(p, "value", None) is cur:
        tgs = p.targets if isinstance(p, ast.Assign) else [p.target]
        if all(_simple_target(tg) for tg in tgs):
            return "bind", p
        return "stop", None
    return "stop", None


def lookable(flow: Flow, call: ast.Call) -> bool:
    """the callee is a helper whose body the origin analysis follows (inlined, or recorded and expanded)."""
    sc = flow.scope_of(call)
    if flow.callee_scope(call, sc) is not None:
        return True
    tgt = flow.callable_target(call.func, sc)
    if tgt is None or tgt[0] != "fq" or not tgt[1] or not tgt[1].startswith("werkzeug."):
        return False
    fi = flow.repo.try_func(tgt[1])
    return fi is not None and fi.cls is None and len(call.args) == 1 and not call.keywords


def _already_decoded(flow: Flow, e: ast.AST) -> bool:
    env = [l for l0 in flow.leaves(e) for l in expand(flow, l0) if l.kind == "environ"]
    return bool(env) and all(text_class(l)[0] in ("D", "B") for l in env)


def _in_test_position(e: ast.AST) -> bool:
    p = getattr(e, "_parent", None)
    while isinstance(p, (ast.BoolOp, ast.UnaryOp)):
        e, p = p, getattr(p, "_parent", None)
    return isinstance(p, (ast.If, ast.While, ast.Assert, ast.IfExp)) and p.test is e


def _simple_target(tg: ast.AST) -> bool:
    if isinstance(tg, ast.Name):
        return True
    if isinstance(tg, (ast.Tuple, ast.List)):
        return all(_simple_target(x.value if isinstance(x, ast.Starred) else x) for x in tg.elts)
    return False


def _target_names(p: ast.AST) -> list[str]:
    tgs = p.targets if isinstance(p, ast.Assign) else [p.target]  # type: ignore[attr-defined]
    out = []
    for tg in tgs:
        for n in ast.walk(tg):
            if isinstance(n, ast.Name):
                out.append(n.id)
    return out


def escapes(flow: Flow, site: ast.AST, _seen: set[int] | None = None) -> list[ast.AST]:
    """maximal expressions through which the value read at *site* leaves the tracked world
    (argument of a foreign call, return value, store into an attribute / subscript, dict value ...)."""
    seen = _seen if _seen is not None else set()
    if id(site) in seen:
        return []
    seen.add(id(site))
    cur = site
    while True:
        kind, nxt = _value_parent(cur, flow)
        if kind == "up":
            cur = nxt  # type: ignore[assignment]
            continue
        if kind == "test":
            return []
        if kind == "stop":
            return [cur]
        # bind: follow every later use of the bound names that this definition reaches
        stmt = nxt
        sc = flow.scope_of(cur)
        out: list[ast.AST] = []
        names = set(_target_names(stmt))  # type: ignore[arg-type]
        for u in ast.walk(sc.fn):
            if isinstance(u, ast.Name) and isinstance(u.ctx, ast.Load) and u.id in names:
                usc = flow.scope_of(u)
                if usc is sc:
                    n = sc.cfg.node_of(u)
                    ds = sc.rd.reaching(n, u.id) if n is not None else frozenset()
                    if any(d.stmt is stmt for d in ds):
                        out += escapes(flow, u, seen)
                else:
                    # read by a nested function (closure): conservatively an escape of the raw value
                    out.append(u)
        return out


# ---------------------------------------------------------------------
# constant propagation of concrete values through a small pure function (R15.7 / R15.8)


class NotConcrete(Exception):
    """the evaluation met something whose value is not determined by the given inputs and the source text."""

    def __init__(self, why: str, node: ast.AST | None = None):
        super().__init__(why)
        self.why = why
        self.node = node


class ConcreteRaise(Exception):
    """the evaluated code raises."""

    def __init__(self, what: str, node: ast.AST | None = None):
        super().__init__(what)
        self.what = what
        self.node = node


class _Ret(Exception):
    def __init__(self, value: t.Any):
        self.value = value


class _Brk(Exception):
    pass


class _Cont(Exception):
    pass


class CFn(t.NamedTuple):
    """a function of the analysed package, as a value."""

    node: t.Any
    module: t.Any
    closure: t.Any = None  # enclosing environment of a nested def / lambda


class CExt(t.NamedTuple):
    """something outside the package, by its dotted name (`re`, `re.sub`, `builtins.len`)."""

    fq: str


class Opaque:
    """an input whose value the evaluation must not depend on; any operation on it ends the evaluation."""

    def __init__(self, label: str):
        self.label = label

    def __repr__(self) -> str:
        return f"<{self.label}>"


# pure methods of immutable / freshly built values; they are *applied* to constants that come from the source text
# and from the representative inputs - python's own str semantics are the trusted model here
_PURE_METHODS: dict[type, set[str]] = {
    str: {"endswith", "startswith", "rstrip", "lstrip", "strip", "removesuffix", "removeprefix", "rsplit", "split", "rpartition", "partition", "replace", "find", "rfind", "index", "rindex", "lower", "upper", "casefold", "isdigit", "isdecimal", "isnumeric", "isalpha", "isalnum", "isascii", "count", "join", "format", "title", "capitalize", "zfill", "splitlines", "encode", "translate", "center", "ljust", "rjust", "isspace", "islower", "isupper"},
    bytes: {"decode", "endswith", "startswith", "rstrip", "lstrip", "strip", "removesuffix", "removeprefix", "rsplit", "split", "rpartition", "partition", "replace", "find", "rfind", "index", "rindex", "lower", "upper", "count", "join", "isascii", "isdigit", "isalnum", "isalpha", "islower", "isupper", "splitlines"},
    dict: {"get", "keys", "values", "items", "copy"},
    tuple: {"index", "count"},
    list: {"index", "count", "copy"},
    set: {"copy", "union", "intersection", "difference", "issubset", "issuperset", "isdisjoint"},
    frozenset: {"copy", "union", "intersection", "difference", "issubset", "issuperset", "isdisjoint"},
    int: {"bit_length"},
}
_MUTATORS: dict[type, set[str]] = {
    list: {"append", "extend", "insert", "pop", "reverse", "sort", "clear", "remove"},
    dict: {"update", "setdefault", "pop", "clear"},
    set: {"add", "discard", "update", "remove", "clear"},
}
_PURE_BUILTINS = {"len", "str", "int", "bool", "tuple", "list", "dict", "set", "frozenset", "sorted", "reversed", "enumerate", "zip", "range", "min", "max", "any", "all", "isinstance", "repr", "ord", "chr", "abs", "sum", "map", "filter", "iter", "next", "bytes"}
_PURE_EXT = {"re.sub", "re.fullmatch", "re.match", "re.search", "re.compile", "re.escape", "re.split", "re.findall", "operator.itemgetter", "typing.cast"}
_TYPE_NAMES = {"builtins.str": str, "builtins.int": int, "builtins.bytes": bytes, "builtins.tuple": tuple, "builtins.list": list, "builtins.dict": dict, "builtins.bool": bool, "builtins.set": set, "builtins.frozenset": frozenset}


class Concrete:
    """evaluates a function of the package on concrete arguments by walking its syntax tree.

    Only what is determined by the arguments and the source text is computed: constants, module-level constants,
    displays, slicing, comparisons, boolean logic, f-strings, pure methods of str / bytes / dict / tuple / list / set
    values, a few pure builtins and `re` functions, calls of other functions of the package (followed, bounded depth),
    local containers mutated in place.  Anything else (attribute of an unknown object, an I/O call, an Opaque input)
    raises NotConcrete: the caller reports an analysis error, never a verdict."""

    def __init__(self, repo: Repo, max_steps: int = 20000, max_depth: int = 6):
        self.repo = repo
        self.steps = 0
        self.max_steps = max_steps
        self.max_depth = max_depth
        self.depth = 0
        self._modvals: dict[tuple[str, str], t.Any] = {}
        self._busy: set[tuple[str, str]] = set()
        self.calls: list[tuple[str, list, dict, ast.Call]] = []  # observed calls of `watch`ed external names
        self.watch: dict[str, t.Callable[[list, dict], t.Any]] = {}

    # -- entry --------------------------------------------------------------
    def call(self, fn: CFn, args: list, kwargs: dict, node: ast.AST | None = None) -> t.Any:
        if self.depth >= self.max_depth:
            raise NotConcrete("call depth exceeded", node)
        f = fn.node
        env = self._bind(f, fn, args, kwargs, node)
        self.depth += 1
        try:
            if isinstance(f, ast.Lambda):
                return self.expr(f.body, env, fn.module)
            if any(isinstance(n, (ast.Yield, ast.YieldFrom)) for n in walk_no_nested(f)):
                # a generator function: what it yields, as a list (a pure consumer sees the same values).  An exception
                # that leaves the generator body would surface where it is consumed, not here: not followed.
                env["__yields__"] = []
                try:
                    self.block(f.body, env, fn.module)
                except _Ret:
                    pass
                except ConcreteRaise as r:
                    raise NotConcrete(f"an exception ({r.what}) leaves a generator body", r.node or node)
                return env["__yields__"]
            try:
                self.block(f.body, env, fn.module)
            except _Ret as r:
                return r.value
            return None
        finally:
            self.depth -= 1

    def _bind(self, f: t.Any, fn: CFn, args: list, kwargs: dict, node: ast.AST | None) -> dict:
        a = f.args
        env: dict[str, t.Any] = {"__closure__": fn.closure}
        pos = [x.arg for x in a.posonlyargs + a.args]
        defaults = dict(zip(pos[len(pos) - len(a.defaults) :], a.defaults))
        kwdefaults = {x.arg: d for x, d in zip(a.kwonlyargs, a.kw_defaults) if d is not None}
        rest = list(args)
        for p in pos:
            if rest:
                env[p] = rest.pop(0)
            elif p in kwargs:
                env[p] = kwargs.pop(p)
            elif p in defaults:
                env[p] = self.expr(defaults[p], {"__closure__": fn.closure}, fn.module)
            else:
                raise NotConcrete(f"missing argument `{p}`", node)
        if a.vararg is not None:
            env[a.vararg.arg] = tuple(rest)
        elif rest:
            raise NotConcrete("too many positional arguments", node)
        kw = dict(kwargs)
        for x in a.kwonlyargs:
            if x.arg in kw:
                env[x.arg] = kw.pop(x.arg)
            elif x.arg in kwdefaults:
                env[x.arg] = self.expr(kwdefaults[x.arg], {"__closure__": fn.closure}, fn.module)
            else:
                raise NotConcrete(f"missing keyword argument `{x.arg}`", node)
        for p in pos:
            kw.pop(p, None)
        if a.kwarg is not None:
            env[a.kwarg.arg] = kw
        elif kw:
            raise NotConcrete(f"unexpected keyword argument(s) {sorted(kw)}", node)
        return env

    def tick(self, node: ast.AST | None) -> None:
        self.steps += 1
        if self.steps > self.max_steps:
            raise NotConcrete("step budget exhausted", node)

    # -- statements ---------------------------------------------------------
    def block(self, body: list[ast.stmt], env: dict, m: t.Any) -> None:
        for st in body:
            self.stmt(st, env, m)

    def stmt(self, st: ast.stmt, env: dict, m: t.Any) -> None:
        self.tick(st)
        if isinstance(st, ast.Expr):
            if not isinstance(st.value, ast.Constant):
                self.expr(st.value, env, m)
        elif isinstance(st, ast.Assign):
            v = self.expr(st.value, env, m)
            for tg in st.targets:
                self.assign(tg, v, env, m)
        elif isinstance(st, ast.AnnAssign):
            if st.value is not None:
                self.assign(st.target, self.expr(st.value, env, m), env, m)
        elif isinstance(st, ast.AugAssign):
            cur = self.expr(_as_load(st.target), env, m)
            self.assign(st.target, self.binop(st.op, cur, self.expr(st.value, env, m), st), env, m)
        elif isinstance(st, ast.If):
            self.block(st.body if self.truth(self.expr(st.test, env, m), st.test) else st.orelse, env, m)
        elif isinstance(st, ast.Return):
            raise _Ret(self.expr(st.value, env, m) if st.value is not None else None)
        elif isinstance(st, ast.Raise):
            raise ConcreteRaise(ast.unparse(st.exc)[:60] if st.exc is not None else "re-raise", st)
        elif isinstance(st, ast.Pass):
            pass
        elif isinstance(st, (ast.FunctionDef, ast.AsyncFunctionDef)):
            env[st.name] = CFn(st, m, env)
        elif isinstance(st, (ast.Import, ast.ImportFrom)):
            pass  # names are resolved through the module's import table
        elif isinstance(st, ast.For):
            broke = False
            for item in self.iterate(self.expr(st.iter, env, m), st.iter):
                self.assign(st.target, item, env, m)
                try:
                    self.block(st.body, env, m)
                except _Brk:
                    broke = True
                    break
                except _Cont:
                    continue
            if not broke:
                self.block(st.orelse, env, m)
        elif isinstance(st, ast.While):
            broke = False
            while self.truth(self.expr(st.test, env, m), st.test):
                self.tick(st)
                try:
                    self.block(st.body, env, m)
                except _Brk:
                    broke = True
                    break
                except _Cont:
                    continue
            if not broke:
                self.block(st.orelse, env, m)
        elif isinstance(st, ast.Break):
            raise _Brk()
        elif isinstance(st, ast.Continue):
            raise _Cont()
        elif isinstance(st, ast.Assert):
            if not self.truth(self.expr(st.test, env, m), st.test):
                raise ConcreteRaise("AssertionError", st)
        elif isinstance(st, ast.Try):
            try:
                try:
                    self.block(st.body, env, m)
                except ConcreteRaise as r:
                    h = self.handler_for(st, r, m, env)
                    if h.name is not None:
                        env[h.name] = Opaque(f"the caught {r.what}")
                    try:
                        self.block(h.body, env, m)
                    except ConcreteRaise as r2:
                        if r2.what == "re-raise":  # a bare `raise` in the handler: the caught exception goes on
                            raise ConcreteRaise(r.what, r2.node)
                        raise
                else:
                    self.block(st.orelse, env, m)
            finally:
                # (a finally block that itself returns / raises replaces what is in flight, as in python)
                self.block(st.finalbody, env, m)
        elif isinstance(st, ast.With):
            # `with contextlib.suppress(E, ...):` is try / except (E, ...): pass; other context managers are not modelled
            names: list[str] = []
            for item in st.items:
                cm = item.context_expr
                f = self.expr(cm.func, env, m) if isinstance(cm, ast.Call) else None
                if not (isinstance(f, CExt) and f.fq == "contextlib.suppress") or cm.keywords:  # type: ignore[union-attr]
                    raise NotConcrete(f"context manager `{ast.unparse(cm)[:40]}`", st)
                for a in self.elements(cm.args, env, m):  # type: ignore[union-attr]
                    if not (isinstance(a, CExt) and a.fq.startswith("builtins.")):
                        raise NotConcrete("contextlib.suppress of a class that is not a builtin exception", st)
                    names.append(a.fq[9:])
                if item.optional_vars is not None:
                    self.assign(item.optional_vars, None, env, m)
            try:
                self.block(st.body, env, m)
            except ConcreteRaise as r:
                bases = self._EXC_BASES.get(r.what)
                if bases is None:
                    raise NotConcrete(f"an exception ({r.what}) inside a with block is not followed", st)
                if not any(n in bases for n in names):
                    raise
        elif isinstance(st, ast.Match):
            subject = self.plain(self.expr(st.subject, env, m), st.subject)
            for case in st.cases:
                bound: dict[str, t.Any] = {}
                if self.matches(case.pattern, subject, bound, env, m):
                    env.update(bound)
                    if case.guard is None or self.truth(self.expr(case.guard, env, m), case.guard):
                        self.block(case.body, env, m)
                        break
        else:
            raise NotConcrete(f"statement `{type(st).__name__}`", st)

    # the builtin exceptions the modelled operations raise, with their bases
    _EXC_BASES = {
        "IndexError": ("IndexError", "LookupError", "Exception", "BaseException"),
        "KeyError": ("KeyError", "LookupError", "Exception", "BaseException"),
        "LookupError": ("LookupError", "Exception", "BaseException"),
        "ValueError": ("ValueError", "Exception", "BaseException"),
        "ValueError (unpack)": ("ValueError", "Exception", "BaseException"),
        "UnicodeError": ("UnicodeError", "ValueError", "Exception", "BaseException"),
        "UnicodeDecodeError": ("UnicodeDecodeError", "UnicodeError", "ValueError", "Exception", "BaseException"),
        "UnicodeEncodeError": ("UnicodeEncodeError", "UnicodeError", "ValueError", "Exception", "BaseException"),
        "TypeError": ("TypeError", "Exception", "BaseException"),
        "ZeroDivisionError": ("ZeroDivisionError", "ArithmeticError", "Exception", "BaseException"),
        "StopIteration": ("StopIteration", "Exception", "BaseException"),
        "AssertionError": ("AssertionError", "Exception", "BaseException"),
    }

    def handler_for(self, st: ast.Try, r: ConcreteRaise, m: t.Any, env: dict | None = None) -> ast.ExceptHandler:
        """the except clause that catches a builtin exception raised by a modelled operation inside the try body; the
        exception propagates (re-raised) when none does; NotConcrete when that cannot be told."""
        bases = self._EXC_BASES.get(r.what)
        if bases is None:
            raise NotConcrete(f"an exception ({r.what}) inside a try block is not followed", st)
        for h in st.handlers:
            if h.type is None:
                return h
            tps = h.type.elts if isinstance(h.type, ast.Tuple) else [h.type]
            for tp in tps:
                d = dotted(tp)
                fq = self.repo.resolve(m, d) if d else None
                if fq and fq.startswith("builtins."):
                    nms = [fq[9:]]
                else:
                    # a name bound to the class / a tuple of classes (`_ERRORS = (UnicodeError,)`): its value
                    try:
                        v = self.expr(tp, env if env is not None else {"__closure__": None}, m)
                    except NotConcrete:
                        v = None
                    flat = list(v) if isinstance(v, (tuple, list)) else [v]
                    if not flat or not all(isinstance(x, CExt) and x.fq.startswith("builtins.") for x in flat):
                        raise NotConcrete(f"`except {ast.unparse(tp)[:40]}`: not a builtin exception class", h)
                    nms = [x.fq[9:] for x in flat]
                if any(nm in bases for nm in nms):
                    return h
        raise r

    def matches(self, p: ast.AST, v: t.Any, bound: dict, env: dict, m: t.Any) -> bool:
        """structural pattern matching on plain values: literals, dotted constants, `|`, captures / wildcard, sequences."""
        if isinstance(p, ast.MatchValue):
            return self.compare(ast.Eq(), v, self.expr(p.value, env, m), p)
        if isinstance(p, ast.MatchSingleton):
            return v is p.value
        if isinstance(p, ast.MatchOr):
            return any(self.matches(x, v, bound, env, m) for x in p.patterns)
        if isinstance(p, ast.MatchAs):
            if p.pattern is not None and not self.matches(p.pattern, v, bound, env, m):
                return False
            if p.name is not None:
                bound[p.name] = v
            return True
        if isinstance(p, ast.MatchSequence) and not any(isinstance(x, ast.MatchStar) for x in p.patterns):
            if not isinstance(v, (tuple, list)) or len(v) != len(p.patterns):
                return False
            return all(self.matches(x, y, bound, env, m) for x, y in zip(p.patterns, v))
        raise NotConcrete(f"match pattern `{type(p).__name__}`", p)

    def assign(self, tg: ast.AST, v: t.Any, env: dict, m: t.Any) -> None:
        if isinstance(tg, ast.Name):
            env[tg.id] = v
        elif isinstance(tg, (ast.Tuple, ast.List)):
            items = list(self.iterate(v, tg))
            star = [i for i, e in enumerate(tg.elts) if isinstance(e, ast.Starred)]
            if star:
                i = star[0]
                after = len(tg.elts) - i - 1
                if len(items) < len(tg.elts) - 1:
                    raise ConcreteRaise("ValueError (unpack)", tg)
                parts = items[:i] + [items[i : len(items) - after]] + items[len(items) - after :]
                for e, x in zip(tg.elts, parts):
                    self.assign(e.value if isinstance(e, ast.Starred) else e, x, env, m)
            else:
                if len(items) != len(tg.elts):
                    raise ConcreteRaise("ValueError (unpack)", tg)
                for e, x in zip(tg.elts, items):
                    self.assign(e, x, env, m)
        elif isinstance(tg, ast.Subscript):
            obj = self.expr(tg.value, env, m)
            if not isinstance(obj, (list, dict)):
                raise NotConcrete("item store into a non-local container", tg)
            obj[self.index(tg.slice, env, m)] = v
        else:
            raise NotConcrete(f"assignment target `{ast.unparse(tg)[:40]}`", tg)

    # -- expressions ----------------------------------------------------------
    def truth(self, v: t.Any, node: ast.AST | None) -> bool:
        if isinstance(v, Opaque):
            raise NotConcrete(f"the decision depends on {v!r}", node)
        if isinstance(v, (CFn, CExt)):
            return True
        return bool(v)

    def iterate(self, v: t.Any, node: ast.AST | None) -> t.Iterable:
        if isinstance(v, (str, bytes, tuple, list, dict, set, frozenset, range)):
            return list(v)
        if isinstance(v, (enumerate, zip, map, filter, reversed)) or type(v).__name__ in ("dict_keys", "dict_values", "dict_items", "list_iterator", "tuple_iterator", "generator", "str_ascii_iterator"):
            return list(v)
        raise NotConcrete(f"iteration over {type(v).__name__}", node)

    def index(self, s: ast.AST, env: dict, m: t.Any) -> t.Any:
        if isinstance(s, ast.Slice):
            return slice(*(self.expr(x, env, m) if x is not None else None for x in (s.lower, s.upper, s.step)))
        return self.expr(s, env, m)

    def name(self, e: ast.Name, env: dict, m: t.Any) -> t.Any:
        cur: dict | None = env
        while cur is not None:
            if e.id in cur:
                return cur[e.id]
            cur = cur.get("__closure__")
        return self.module_value(m, e.id, e)

    def module_value(self, m: t.Any, name: str, node: ast.AST | None) -> t.Any:
        key = (m.name, name)
        if key in self._modvals:
            return self._modvals[key]
        if name in m.functions:
            v: t.Any = CFn(m.functions[name].node, m)
        elif name in m.assigns:
            vals = m.assigns[name]
            if len(vals) != 1:
                raise NotConcrete(f"module-level `{name}` is bound {len(vals)} times", node)
            if key in self._busy:
                raise NotConcrete(f"module-level `{name}` is defined through itself", node)
            self._busy.add(key)
            try:
                v = self.expr(vals[0], {"__closure__": None}, m)
            finally:
                self._busy.discard(key)
        elif name in m.classes:
            v = CCls(m.classes[name].fq)
        else:
            fq = self.repo.resolve(m, name)
            v = self.from_fq(fq, node)
        self._modvals[key] = v
        return v

    def from_fq(self, fq: str | None, node: ast.AST | None) -> t.Any:
        if fq is None:
            raise NotConcrete("unresolved name", node)
        if fq in ("builtins.True", "builtins.False", "builtins.None"):
            return {"True": True, "False": False, "None": None}[fq.split(".")[1]]
        if fq.startswith("re.") and fq[3:].isupper():
            import re

            flag = getattr(re, fq[3:], None)
            if isinstance(flag, re.RegexFlag):
                return int(flag)
        fi = self.repo.try_func(fq) if fq.startswith("werkzeug.") else None
        if fi is not None:
            return CFn(fi.node, fi.module)
        if fq.startswith("werkzeug.") and self.repo.try_cls(fq) is not None:
            return CCls(fq)
        if fq.startswith("werkzeug."):
            mn, _, attr = fq.rpartition(".")
            if mn in self.repo.modules and attr in self.repo.modules[mn].assigns:
                return self.module_value(self.repo.modules[mn], attr, node)
            if fq in self.repo.modules:
                return CExt(fq)
            raise NotConcrete(f"`{fq}` is not a function or constant of the package", node)
        return CExt(fq)

    def expr(self, e: ast.AST | None, env: dict, m: t.Any) -> t.Any:
        self.tick(e)
        if e is None:
            return None
        if isinstance(e, ast.Constant):
            return e.value
        if isinstance(e, ast.Name):
            return self.name(e, env, m)
        if isinstance(e, ast.JoinedStr):
            out = []
            for v in e.values:
                if isinstance(v, ast.Constant):
                    out.append(str(v.value))
                    continue
                x = self.plain(self.expr(v.value, env, m), v)  # type: ignore[attr-defined]
                if v.conversion == 114:  # type: ignore[attr-defined]
                    x = repr(x)
                elif v.conversion == 115:  # type: ignore[attr-defined]
                    x = str(x)
                spec = self.expr(v.format_spec, env, m) if v.format_spec is not None else ""  # type: ignore[attr-defined]
                out.append(format(x, spec))
            return "".join(out)
        if isinstance(e, ast.Tuple):
            return tuple(self.elements(e.elts, env, m))
        if isinstance(e, ast.List):
            return list(self.elements(e.elts, env, m))
        if isinstance(e, ast.Set):
            return set(self.hashable(x, e) for x in self.elements(e.elts, env, m))
        if isinstance(e, ast.Dict):
            d: dict = {}
            for k, v in zip(e.keys, e.values):
                if k is None:
                    sub = self.expr(v, env, m)
                    if not isinstance(sub, dict):
                        raise NotConcrete("`**` of a non-dict", e)
                    d.update(sub)
                else:
                    d[self.hashable(self.expr(k, env, m), k)] = self.expr(v, env, m)
            return d
        if isinstance(e, ast.IfExp):
            return self.expr(e.body if self.truth(self.expr(e.test, env, m), e.test) else e.orelse, env, m)
        if isinstance(e, ast.BoolOp):
            v = None
            for x in e.values:
                v = self.expr(x, env, m)
                t_ = self.truth(v, x)
                if (isinstance(e.op, ast.And) and not t_) or (isinstance(e.op, ast.Or) and t_):
                    return v
            return v
        if isinstance(e, ast.UnaryOp):
            v = self.plain(self.expr(e.operand, env, m), e)
            if isinstance(e.op, ast.Not):
                return not self.truth(v, e)
            if isinstance(e.op, ast.USub) and isinstance(v, int):
                return -v
            if isinstance(e.op, ast.UAdd) and isinstance(v, int):
                return +v
            raise NotConcrete(f"`{ast.unparse(e)[:40]}`", e)
        if isinstance(e, ast.BinOp):
            return self.binop(e.op, self.expr(e.left, env, m), self.expr(e.right, env, m), e)
        if isinstance(e, ast.Compare):
            left = self.expr(e.left, env, m)
            for op, r in zip(e.ops, e.comparators):
                right = self.expr(r, env, m)
                if not self.compare(op, left, right, e):
                    return False
                left = right
            return True
        if isinstance(e, ast.Subscript):
            v = self.plain(self.expr(e.value, env, m), e)
            i = self.index(e.slice, env, m)
            if not isinstance(v, (str, bytes, tuple, list, dict, range)):
                raise NotConcrete(f"subscript of {type(v).__name__}", e)
            try:
                return v[i]
            except (IndexError, KeyError, TypeError) as x:
                raise ConcreteRaise(type(x).__name__, e)
        if isinstance(e, ast.NamedExpr):
            v = self.expr(e.value, env, m)
            env[e.target.id] = v
            return v
        if isinstance(e, ast.Lambda):
            return CFn(e, m, env)
        if isinstance(e, (ast.ListComp, ast.SetComp, ast.GeneratorExp, ast.DictComp)):
            return self.comp(e, env, m)
        if isinstance(e, ast.Attribute):
            d = dotted(e)
            head = d.split(".")[0] if d else None
            if d is not None and head is not None and not self._bound(head, env):
                base = self.module_value(m, head, e) if (head in m.assigns or head in m.functions) else None
                if base is None:
                    return self.from_fq(self.repo.resolve(m, d), e)
            v = self.expr(e.value, env, m)
            if isinstance(v, CExt):
                return self.from_fq(f"{v.fq}.{e.attr}", e)
            if isinstance(v, CObj):
                return self.getattr_obj(v, e.attr, e)
            return _Bound(self.plain(v, e), e.attr)
        if isinstance(e, ast.Call):
            return self.call_expr(e, env, m)
        if isinstance(e, ast.Starred):
            raise NotConcrete("starred expression", e)
        if isinstance(e, (ast.Yield, ast.YieldFrom)):
            cur: dict | None = env
            while cur is not None and "__yields__" not in cur:
                cur = cur.get("__closure__")
            if cur is None:
                raise NotConcrete("yield outside a followed generator function", e)
            if isinstance(e, ast.Yield):
                cur["__yields__"].append(self.expr(e.value, env, m) if e.value is not None else None)
            else:
                cur["__yields__"].extend(self.iterate(self.expr(e.value, env, m), e))
            return None  # nothing is sent into a generator that is consumed by iteration
        raise NotConcrete(f"expression `{type(e).__name__}`", e)

    @staticmethod
    def _bound(name: str, env: dict) -> bool:
        cur: dict | None = env
        while cur is not None:
            if name in cur:
                return True
            cur = cur.get("__closure__")
        return False

    def plain(self, v: t.Any, node: ast.AST | None) -> t.Any:
        if isinstance(v, Opaque):
            raise NotConcrete(f"the value depends on {v!r}", node)
        return v

    def hashable(self, v: t.Any, node: ast.AST | None) -> t.Any:
        v = self.plain(v, node)
        try:
            hash(v)
        except TypeError:
            raise NotConcrete("unhashable element", node)
        return v

    def elements(self, elts: list, env: dict, m: t.Any) -> list:
        out: list = []
        for x in elts:
            if isinstance(x, ast.Starred):
                out += list(self.iterate(self.expr(x.value, env, m), x))
            else:
                out.append(self.expr(x, env, m))
        return out

    def comp(self, e: t.Any, env: dict, m: t.Any) -> t.Any:
        out: list = []
        scope = {"__closure__": env}

        def rec(i: int) -> None:
            if i == len(e.generators):
                if isinstance(e, ast.DictComp):
                    out.append((self.hashable(self.expr(e.key, scope, m), e), self.expr(e.value, scope, m)))
                else:
                    out.append(self.expr(e.elt, scope, m))
                return
            g = e.generators[i]
            for item in self.iterate(self.expr(g.iter, scope, m), g.iter):
                self.assign(g.target, item, scope, m)
                if all(self.truth(self.expr(c, scope, m), c) for c in g.ifs):
                    rec(i + 1)

        rec(0)
        if isinstance(e, ast.SetComp):
            return set(self.hashable(x, e) for x in out)
        if isinstance(e, ast.DictComp):
            return dict(out)
        return out  # a generator is consumed by whoever receives it: a list behaves the same for pure consumers

    def binop(self, op: ast.operator, a: t.Any, b: t.Any, node: ast.AST) -> t.Any:
        a, b = self.plain(a, node), self.plain(b, node)
        ok = (str, bytes, int, tuple, list)
        if not isinstance(a, ok + (set, frozenset, dict)) or not isinstance(b, ok + (set, frozenset, dict)):
            raise NotConcrete(f"operator on {type(a).__name__} / {type(b).__name__}", node)
        try:
            if isinstance(op, ast.Add):
                return a + b
            if isinstance(op, ast.Sub):
                return a - b
            if isinstance(op, ast.Mult):
                return a * b
            if isinstance(op, ast.Mod):
                return a % b
            if isinstance(op, ast.FloorDiv):
                return a // b
            if isinstance(op, ast.BitOr):
                return a | b
            if isinstance(op, ast.BitAnd):
                return a & b
        except (TypeError, ValueError, ZeroDivisionError) as x:
            raise ConcreteRaise(type(x).__name__, node)
        raise NotConcrete(f"operator `{type(op).__name__}`", node)

    def compare(self, op: ast.cmpop, a: t.Any, b: t.Any, node: ast.AST) -> bool:
        if isinstance(op, (ast.Is, ast.IsNot)):
            if isinstance(a, Opaque) or isinstance(b, Opaque):
                other = b if isinstance(a, Opaque) else a
                if other is None:
                    return isinstance(op, ast.IsNot)  # an Opaque input stands for some object, not for None
                raise NotConcrete("identity test on an undetermined value", node)
            same = a is b or (a is None and b is None) or (isinstance(a, bool) and isinstance(b, bool) and a == b)
            return same if isinstance(op, ast.Is) else not same
        a, b = self.plain(a, node), self.plain(b, node)
        try:
            if isinstance(op, ast.Eq):
                return a == b
            if isinstance(op, ast.NotEq):
                return a != b
            if isinstance(op, ast.In):
                return a in b
            if isinstance(op, ast.NotIn):
                return a not in b
            if isinstance(op, ast.Lt):
                return a < b
            if isinstance(op, ast.LtE):
                return a <= b
            if isinstance(op, ast.Gt):
                return a > b
            if isinstance(op, ast.GtE):
                return a >= b
        except TypeError:
            raise ConcreteRaise("TypeError", node)
        raise NotConcrete("comparison", node)

    # -- calls ------------------------------------------------------------------
    def arguments(self, c: ast.Call, env: dict, m: t.Any) -> tuple[list, dict]:
        args = self.elements(c.args, env, m)
        kw: dict = {}
        for k in c.keywords:
            v = self.expr(k.value, env, m)
            if k.arg is None:
                if not isinstance(v, dict):
                    raise NotConcrete("`**` of a non-dict", c)
                kw.update(v)
            else:
                kw[k.arg] = v
        return args, kw

    def call_expr(self, c: ast.Call, env: dict, m: t.Any) -> t.Any:
        f = self.expr(c.func, env, m)
        args, kw = self.arguments(c, env, m)
        return self.apply(f, args, kw, c)

    def apply(self, f: t.Any, args: list, kw: dict, c: ast.AST) -> t.Any:
        if isinstance(f, CFn):
            return self.call(f, args, kw, c)
        if isinstance(f, _Partial):
            return self.apply(f.fn, list(f.args) + args, {**f.kw, **kw}, c)
        if isinstance(f, CExt):
            if f.fq in self.watch:
                self.calls.append((f.fq, args, kw, c))  # type: ignore[arg-type]
                return self.watch[f.fq](args, kw)
            if f.fq == "functools.partial" and args:
                return _Partial(args[0], tuple(args[1:]), dict(kw))
            if f.fq == "functools.reduce" and len(args) in (2, 3) and not kw:
                seq = list(self.iterate(args[1], c))
                if len(args) == 3:
                    acc = args[2]
                elif seq:
                    acc = seq.pop(0)
                else:
                    raise ConcreteRaise("TypeError", c)
                for x in seq:
                    acc = self.apply(args[0], [acc, x], {}, c)
                return acc
            if f.fq == "itertools.chain" and not kw:
                return [x for a in args for x in self.iterate(a, c)]
            if f.fq == "itertools.chain.from_iterable" and len(args) == 1 and not kw:
                return [x for a in self.iterate(args[0], c) for x in self.iterate(a, c)]
            if f.fq == "itertools.starmap" and len(args) == 2 and not kw:
                return [self.apply(args[0], list(self.iterate(xs, c)), {}, c) for xs in self.iterate(args[1], c)]
            mod, _, nm = f.fq.rpartition(".")
            if mod == "builtins" and nm in _PURE_BUILTINS:
                return self.builtin(nm, args, kw, c)
            if f.fq in _PURE_EXT:
                return self.external(f.fq, args, kw, c)
            raise NotConcrete(f"call of `{f.fq}`", c)
        if isinstance(f, _Bound):
            return self.method(f.obj, f.attr, args, kw, c)
        if isinstance(f, _Getter):
            return f(args)
        if isinstance(f, CStub):
            return CMade(f.label, tuple(args), tuple(sorted(kw.items())))
        if isinstance(f, CCls):
            return CMade(f.fq, tuple(args), tuple(sorted(kw.items())))
        if isinstance(f, _Method):
            return self.call(f.fn, [f.obj] + args, kw, c)
        raise NotConcrete(f"call of a {type(f).__name__} value", c)

    def getattr_obj(self, o: "CObj", attr: str, node: ast.AST) -> t.Any:
        """attribute of a modelled instance: a given attribute value, or a method / property of its class."""
        if attr in o.attrs:
            return o.attrs[attr]
        ci = self.repo.try_cls(o.cls) if o.cls else None
        owner, fi = self.repo.lookup(ci, attr) if ci is not None else (None, None)
        if isinstance(fi, ast.AST) and owner is not None and hasattr(owner, "module"):
            return self.expr(fi, {"__closure__": None}, owner.module)  # a class attribute
        if isinstance(fi, FuncInfo):
            decs = [d.rsplit(".", 1)[-1] for d in fi.decorators]
            fn = CFn(fi.node, fi.module)
            if "property" in decs or "cached_property" in decs:
                return self.call(fn, [o], {}, node)
            if "staticmethod" in decs:
                return fn
            return _Method(fn, o)
        raise NotConcrete(f"attribute `{attr}` of the modelled {o.cls or 'object'} is not given", node)

    def value(self, v: t.Any, node: ast.AST | None) -> t.Any:
        """v as an argument of a python operation that is applied for real: it must be data, not one of the evaluator's
        own stand-ins (a TypeError python raises on a stand-in says nothing about the analysed code)."""
        if isinstance(v, (Opaque, CFn, CExt, _Bound, _Method, CObj, CCls, CStub, CMade, _Partial, _M, _Getter)):
            raise NotConcrete(f"a {type(v).__name__} value is handed to an operation that is applied to data", node)
        return v

    def method(self, obj: t.Any, attr: str, args: list, kw: dict, c: ast.AST) -> t.Any:
        for a in list(args) + list(kw.values()):
            self.plain(a, c)
        if isinstance(obj, _Rx):
            return self.external(f"re.{attr}", [obj, *args], kw, c)
        if isinstance(obj, _M):
            if attr in ("group", "groups", "start", "end", "span", "groupdict"):
                return getattr(obj.m, attr)(*args, **kw)
            raise NotConcrete(f"match.{attr}", c)
        tp = type(obj)
        if tp in (str, bytes) and attr in _PURE_METHODS[tp]:
            for a in list(args) + list(kw.values()):
                self.value(a, c)
        if attr in _PURE_METHODS.get(tp, ()) or attr in _MUTATORS.get(tp, ()):
            if tp is str and attr == "join":
                args = [[self.plain(x, c) for x in self.iterate(args[0], c)]] if args else args
            if tp is str and attr == "translate":
                raise NotConcrete("str.translate", c)
            try:
                return getattr(obj, attr)(*args, **kw)
            except (TypeError, ValueError, IndexError, KeyError, LookupError, UnicodeError) as x:
                raise ConcreteRaise(type(x).__name__, c)
        raise NotConcrete(f"method `{attr}` of a {tp.__name__}", c)

    def builtin(self, nm: str, args: list, kw: dict, c: ast.AST) -> t.Any:
        import builtins

        if nm == "isinstance":
            if len(args) != 2:
                raise NotConcrete("isinstance arity", c)
            tps = args[1] if isinstance(args[1], tuple) else (args[1],)
            py = []
            for x in tps:
                if isinstance(x, CExt) and x.fq in _TYPE_NAMES:
                    py.append(_TYPE_NAMES[x.fq])
                else:
                    raise NotConcrete("isinstance against a class that is not a builtin value type", c)
            return isinstance(self.plain(args[0], c), tuple(py))
        if nm in ("map", "filter"):
            fn, *seqs = args
            lists = [list(self.iterate(s, c)) for s in seqs]
            if nm == "map":
                return [self.apply(fn, list(xs), {}, c) for xs in zip(*lists)]
            return [x for x in lists[0] if (self.truth(self.apply(fn, [x], {}, c), c) if fn is not None else self.truth(x, c))]
        if nm in ("sorted", "min", "max") and "key" in kw:
            key = kw.pop("key")
            kw["key"] = lambda x: self.apply(key, [x], {}, c)
        if nm in ("any", "all", "sum", "sorted", "min", "max", "tuple", "list", "set", "frozenset", "enumerate", "zip", "reversed", "iter", "dict") and args:
            args = [list(self.iterate(a, c)) if not isinstance(a, (int, dict)) and not (nm in ("min", "max") and len(args) > 1) else a for a in args]
        if nm == "next":
            it = args[0]
            if isinstance(it, list):  # a comprehension evaluated eagerly
                if it:
                    return it[0]
                if len(args) > 1:
                    return args[1]
                raise ConcreteRaise("StopIteration", c)
        for a in list(args) + list(kw.values()):
            if isinstance(a, (CFn, CExt, _Bound)):
                raise NotConcrete(f"{nm}() of a function value", c)
            self.plain(a, c)
        try:
            return getattr(builtins, nm)(*args, **kw)
        except (TypeError, ValueError, IndexError, KeyError, StopIteration, UnicodeError) as x:
            raise ConcreteRaise(type(x).__name__, c)

    def external(self, fq: str, args: list, kw: dict, c: ast.AST) -> t.Any:
        import re

        for a in list(args) + list(kw.values()):
            self.plain(a, c)
        if fq == "typing.cast" and len(args) == 2:
            return args[1]
        repl_fn = None
        if fq == "re.sub" and len(args) >= 3 and isinstance(args[1], (CFn, _Partial, _Method)):
            # a replacement function of the package: called with each match, its (str / bytes) result is what is put in
            target = args[1]

            def repl_fn(mt: t.Any) -> t.Any:
                out = self.apply(target, [_M(mt)], {}, c)
                if not isinstance(out, (str, bytes)):
                    raise NotConcrete("a replacement function that does not return text", c)
                return out

            args = [args[0], "", *args[2:]]
        for a in list(args) + list(kw.values()):
            self.value(a, c)
        if fq == "operator.itemgetter" and len(args) == 1:
            return _Getter(args[0])
        flags = kw.pop("flags", 0)
        if isinstance(flags, CExt):
            raise NotConcrete("regex flags", c)
        if args and isinstance(args[0], _Rx):
            flags = flags | args[0].flags
            args = [args[0].pattern, *args[1:]]
        if not args or not isinstance(args[0], (str, bytes)):
            raise NotConcrete(f"`{fq}` without a constant pattern", c)
        try:
            if fq == "re.compile":
                re.compile(args[0], flags if not args[1:] else args[1])
                return _Rx(args[0], flags if not args[1:] else args[1])
            if fq == "re.escape":
                return re.escape(args[0])
            if fq == "re.sub":
                if not isinstance(args[1], (str, bytes)):
                    raise NotConcrete("re.sub with a callable replacement", c)
                return re.sub(args[0], repl_fn if repl_fn is not None else args[1], args[2], *args[3:], flags=flags, **kw)
            if fq in ("re.split", "re.findall"):
                return getattr(re, fq[3:])(*args, flags=flags, **kw)
            mt = getattr(re, fq[3:])(*args, flags=flags, **kw)
            return _M(mt) if mt is not None else None
        except (re.error, TypeError, IndexError) as x:
            raise ConcreteRaise(type(x).__name__, c)


class _Bound(t.NamedTuple):
    obj: t.Any
    attr: str


class _Method(t.NamedTuple):
    fn: CFn
    obj: t.Any


class CObj:
    """a modelled instance: the attributes that are given, methods / properties looked up in the package class."""

    def __init__(self, cls: str | None, attrs: dict[str, t.Any]):
        self.cls = cls
        self.attrs = attrs


class CCls(t.NamedTuple):
    """a class of the package as a value; calling it gives a CMade record of the arguments."""

    fq: str


class CStub(t.NamedTuple):
    """a callable whose call is only recorded (CMade)."""

    label: str


class CMade(t.NamedTuple):
    label: str
    args: tuple
    kw: tuple


class _Partial(t.NamedTuple):
    fn: t.Any
    args: tuple
    kw: dict


class _Rx(t.NamedTuple):
    pattern: t.Any
    flags: int


class _M:
    def __init__(self, m: t.Any):
        self.m = m


class _Getter:
    def __init__(self, i: t.Any):
        self.i = i

    def __call__(self, args: list) -> t.Any:
        return args[0][self.i]


def _as_load(tg: ast.AST) -> ast.AST:
    import copy

    n = copy.copy(tg)
    if hasattr(n, "ctx"):
        n.ctx = ast.Load()  # type: ignore[attr-defined]
    return n
